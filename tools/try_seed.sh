#!/bin/bash
# usage: tools/try_seed.sh <patch.diff> <Cxx> [Cyy ...]  -- apply a seeded change to /repo, run checks, undo.
set -u
patch="$1"; shift
cd /repo || exit 2
if ! git diff --quiet; then echo "/repo has uncommitted changes"; exit 2; fi
if ! git apply --check "$patch" 2>/dev/null; then echo "PATCH DOES NOT APPLY: $patch"; exit 3; fi
git apply "$patch"
rc=0
for p in "$@"; do
  (cd /verif && ./check "$p" | grep -E "VIOLATION|instance|^C[0-9]+ \[" | cut -c1-400)
done
git checkout -- . ; git clean -fdq -- src tests; git status --short | head -3

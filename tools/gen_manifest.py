#!/usr/bin/env python3
"""Regenerates /verif/MANIFEST.json from the table below (claimed checks = modules in sa/props)."""
import json
import os

V = os.path.dirname(os.path.dirname(os.path.abspath(__file__)))

TB = ("rustc nightly (THIR/MIR/type info for the crate's default cfg), the dlfacts driver in /verif/driver, the Python rules "
      "in /verif/sa and their reviewed tables, full_moon's metadata")

CLAIMS = {
    "C07": dict(
        technique="static analysis: child-visit coverage over the AST type graph + per-rule construct-slot/handler rules on typed THIR (rustc_private driver)",
        text="Structural induction decided statically for all inputs: each of the 4 visitors hands every nested node slot of the AST "
             "type graph to a visit_* function and calls process_* before descending; each lowering rule's processor names its construct in a "
             "callback whose node kind contains every slot where the construct can sit, and writes every slot-valued construct; stack-keeping "
             "post-processors push/pop for the same node kinds; every Luau-only variant is classified with its lowering rule. It does not decide "
             "that hand-built replacements are free of the construct nor the strict-Lua-5.1 corollary. The number-lowering processor is evaluated on literals with tokens and trivia; what every generator then writes is a Lua 5.1 number.",
        note="Coverage is per (ADT, slot), not path-sensitive; reviewed tables: visitors.VISIT_EXEMPT_*, c07.RULES, c07.CLASSIFY. " + TB,
        ref="DESIGN.md §3 C07"),
    "C18": dict(
        technique="static analysis: token-slot coverage proof + effect whitelist on typed THIR, MIR path rule (rustc_private driver); finite-domain evaluation of the anchored decision/transfer functions from their typed tree (abstract interpretation over enumerated abstract domains, sa/peval.py)",
        text="For all inputs: every AST slot that can hold a Token is reached by each of the three comment/whitespace walkers (so exactly the "
             "selected trivia kind can disappear everywhere), the walkers mutate nothing but Token trivia (code tokens cannot change), the retain "
             "predicates keep every trivia of the other kind, append_text_comment shifts lines only for location=start, and the emitted long-comment "
             "closer is the value tested absent from the text. Regex semantics of `except` and single-line text content are not decided. The generator's line/long comment classifier is evaluated on the opener grammar `--[=*[` up to level 6; the comment text builder on every subset of closers occurring in the text. No generator writes `{{` for an interpolated value starting with a table (36 trivia layouts), and a comment kept next to a `-` never absorbs it. Every Regex compiled by a rule is one configured pattern as given; every function of the line-keeping generator that appends text consults the pending-line-comment flag; a one-line header text stays a line comment.",
        note="Coverage is per (ADT, slot) over the walker family; std mutators classified by name. " + TB,
        ref="DESIGN.md §3 C18"),
}

CLAIMS.update({
    "C03": dict(
        technique="static analysis: capture/store/replay token-slot coverage (full_moon metadata vs converter calls, *Tokens fields vs initialisers, AST token slots vs generator writer calls) on typed THIR + MIR wiring rule; finite-domain evaluation of the anchored decision/transfer functions from their typed tree (abstract interpretation over enumerated abstract domains, sa/peval.py)",
        text="For all inputs: every token accessor full_moon offers for the node types the converter handles is consumed, every token field is "
             "stored from the parse tree, every token-bearing AST slot is handed to a writer of the token-based generator (nothing stored can be "
             "dropped on output), dispatch uses stored tokens, trivia/content emission order is leading-content-trailing, and retain_lines selects the "
             "preserving parser + token-based generator. Two genuine replay gaps pinned by existing snapshots are recorded as known findings. "
             "Spacing and parenthesis decisions are not decided. required_nil_values is tabulated (a `const` whose last value is a call or `...` gets no `nil` appended).",
        note="Coverage per (ADT, slot), not path-sensitive; full_moon accessor list from its crate metadata. " + TB,
        ref="DESIGN.md §3 C03"),
    "C04": dict(
        technique="static analysis: token-slot coverage of shift_token_line, Position variant tables, MIR path rule for inserted lines, who-may-write rule on the generator's output/line counter; finite-domain evaluation of the anchored decision/transfer functions from their typed tree (abstract interpretation over enumerated abstract domains, sa/peval.py)",
        text="For all inputs: shift_token_line reaches every token slot; replacing token content keeps the recorded line; inserted lines are "
             "compensated exactly where they are inserted (append_text_comment only at start; bundler running total); the token-based generator's "
             "line counter is exact and monotone and padding precedes content; no token is shifted through two routes in one traversal; lines::block_total counts a block whose last token spans several lines correctly. Does not decide that arbitrary pipelines never emit a token whose line is already passed. The line counter and the placement of tokens are decided by evaluating the line-keeping generator on 336 token/trivia scenarios (counter = start + newlines written; every token on max(recorded line, line reached)). The amount append_text_comment hands to ShiftTokenLine equals the line breaks of the header it inserts (texts with and without a trailing newline, inline or from a file, two passes over one rule object).",
        note="Unrecognised idioms for writing the output buffer fail closed. " + TB,
        ref="DESIGN.md §3 C04"),
    "C12": dict(
        technique="static analysis: token-slot coverage of replace_referenced_tokens, MIR must-pass rule in the bundler, who-may-call Parser::parse, SCC check of the converter call graph, panic-call whitelist at the parser/worker entry points; finite-domain evaluation of the anchored decision/transfer functions from their typed tree (abstract interpretation over enumerated abstract domains, sa/peval.py)",
        text="Narrow structural part of crash-freedom, for all inputs: foreign-text token references are always replaced before a required block is "
             "walked/spliced, replace_referenced_tokens reaches every token slot, the converter's own call graph is acyclic (iterative conversion), "
             "Parser::parse is fallible and panic-free and maps both error kinds, the worker never unwraps rule/parse results. Panic-freedom of "
             "arbitrary rule pipelines is NOT decided (value reasoning); a census of panic sites is informational only. The text given to full_moon is Parser::parse's own parameter (copies allowed, edits not), because recorded token ranges index the caller's text. The literal readers are evaluated with panics observable on every escape form at its boundary values: none panics, valid literals get Luau's bytes; their Results are never unwrapped in the converter.",
        note="full_moon's own recursion is outside the claim. " + TB,
        ref="DESIGN.md §3 C12"),
})

CLAIMS.update({
    "C10": dict(
        technique="static analysis: MIR must-pass/dominance rules on the incremental worker, who-may-write table for the dependency map, THIR pairing rule remove_node/restart_work",
        text="Necessary conditions of incremental==fresh, for all histories: configuration fingerprint compared before work and over the whole "
             "serialized configuration, every notification restarts dependents, queued deletions run on every successful pass, graph nodes are "
             "unlinked before removal (no stale index can be restarted), only reset() shrinks the dependency map, dependencies are recorded on "
             "failure too. Equality of output trees over histories is NOT decided. While node indices are cached in other fields and nodes are removed, the graph type keeps indices stable (StableGraph).",
        note="Histories are not explored; the fingerprint is as fine as Configuration's Serialize output (C19). " + TB,
        ref="DESIGN.md §3 C10"),
    "C11": dict(
        technique="static analysis: who-may-call tables, MIR dominance/must-pass on write/done/flush paths, census of batch-global mutable state with cache-key consistency, audit of unordered-container iterations",
        text="For all batches: outputs are written only by the reviewed writer, after the whole rule loop and never on a rule's error edge; every "
             "non-filtered success passes the write; BufWriters are flushed with the error propagated; a failing item is stored in its own status and "
             "only fail-fast leaves the loop; batch-global mutable state is the reviewed .luaurc cache, written only under its lookup key and cleared "
             "per pass; every iteration over a HashMap/HashSet is order-insensitive, totally sorted, or reviewed. Directory walking and path arithmetic are not decided. The input walk follows symbolic links (no link-level metadata queries). collect_work is evaluated for every spelling of the input directory (`.`, `./`, `src/`, ...) and output: one item per file at the mirrored path; a rule object with interior-mutable state processes a second file as a fresh object would; the top-level filter table is independent of the rule list.",
        note="Top-level file filters: documented 'skipped entirely' is taken as intended (no output for filtered files). " + TB,
        ref="DESIGN.md §3 C11"),
    "C19": dict(
        technique="static analysis: reader/writer key-set agreement per rule, serde attribute census, abstract decision table of the generic rule serializer, collision-guard and registry agreement rules on typed THIR; finite-domain evaluation of the anchored decision/transfer functions from their typed tree (abstract interpretation over enumerated abstract domains, sa/peval.py)",
        text="For all configurations: every configure() rejects unknown keys, configuration structs deny unknown fields, duplicate keys are rejected, "
             "every accepted property key is emitted by the rule's serializer (two known-finding exceptions pinned by snapshots), the generic rule "
             "serializer emits filters exactly when non-empty and uses the bare-name form only for property-less, filter-less rules, keys writing the "
             "same field are mutually excluded, and the name registries agree. Pattern validity and JSON5 parsing are not decided. configure o serialize_to_properties is evaluated as a round trip for every rule with properties (every accepted key with candidate values of every kind). Every configure() is evaluated with an unknown key and must answer UnexpectedProperty.",
        note="Keys are recognised as string literals in match patterns/insert calls. " + TB,
        ref="DESIGN.md §3 C19"),
    "C20": dict(
        technique="static analysis: decision tables of the two filter predicates extracted by abstract path enumeration (3x3 list states), MIR dominance of Rule::process by both predicates; finite-domain evaluation of the anchored decision/transfer functions from their typed tree (abstract interpretation over enumerated abstract domains, sa/peval.py)",
        text="For all filter lists: both predicates return (apply empty or matched) and not (skip matched) in each of the 9 abstract list states and "
             "agree with each other; no rule runs without the global and its own predicate having answered true on the item's source; the skip edge is inert; "
             "all four lists deserialize through the one-or-many helpers. FilterPattern::matches is is_match on its own Glob::new glob (no partition_or_tree). Glob semantics (wax) are not decided.",
        note="wax is opaque. " + TB,
        ref="DESIGN.md §3 C20"),
})

CLAIMS.update({
    "C01": dict(
        technique="static analysis: guard-before-act and contradiction rules on typed THIR (side-effect guard before every dropping act, multi-value guard before every hoist, tail-only accumulators), visitor reachability; finite-domain evaluation of the anchored decision/transfer functions from their typed tree (abstract interpretation over enumerated abstract domains, sa/peval.py)",
        text="For all programs, the three mechanisms the property anchors are wired at every site: each dropping/folding act of the default rules is "
             "control-dependent on has_side_effects, each operand hoisted into its parent's place is parenthesised under can_return_multiple_values "
             "(two sites pinned by existing tests are known findings), kept effectful expressions stay in order, every default rule reaches all nesting "
             "positions (C07.visit), index-removal loops run in reverse, if-expression side effects cover every part that may run. Behavioural equivalence of the rewrites is NOT decided. The scope visitors' event order (values before the declared names, iterator expressions before the loop scope) is checked under this property too (shared with C09.order). convert_index_to_field is evaluated on `t[K]`: a key with a side effect or that is not an identifier stays an index.",
        note="has_side_effects/can_return_multiple_values/evaluate trusted as analyses (skeleton under C08). " + TB, ref="DESIGN.md §3 C01"),
    "C02": dict(
        technique="static analysis: decision tables extracted from the precedence/associativity/parenthesis functions and should_break_with_space (pattern ranges expanded) vs independent Lua grammar/lexer tables; guard-before-act rules in the three generators; who-may table for fusion-check bypasses; finite-domain evaluation of the anchored decision/transfer functions from their typed tree (abstract interpretation over enumerated abstract domains, sa/peval.py)",
        text="For all trees: the precedence/associativity tables realise the Lua order, the needs-parentheses functions (whole body, evaluated per operand kind) return true wherever the grammar, a trailing "
             "if-expression or a `<` after a cast to a bare type name requires parentheses, all three generators wrap operands/`;` exactly under those guards, every character pair Lua's lexer would fuse is separated, "
             "raw writes cannot fuse; the dense and readable generators, evaluated on every operator pair/unary combination at two column spans, write text "
             "that an independent reader of Lua's expression grammar reads back as the same nesting, and never break a line between a callee and its `(`. "
             "Literal text (numbers, strings) is not decided.",
        note="One-sided relations (extra spaces/parentheses are harmless). " + TB, ref="DESIGN.md §3 C02"),
    "C05": dict(
        technique="static analysis: visitor-driver typestate from resolved generic arguments, provenance (source-call) rule on the module key, MIR push/pop pairing, error-recording rules",
        text="For all module graphs: every traversal that can inline a require tracks scopes, the path used as module key always comes from the locator "
             "applied to this call's literal and the current source (no memo), the cycle stack is popped on every exit, every failure is recorded and "
             "reported, module order is insertion order. The wrapper's run-time semantics is not decided. A required module is handed back only after the scope-tracking walk (MIR must-pass), and the module key passes through a canonicalising function (two spellings of one file give one module). No explicit panic macro in the require path: every file-system state answers with an error value.", note=TB, ref="DESIGN.md §3 C05"),
    "C06": dict(
        technique="static analysis: subset relation between variant tables (duplicated-without-temporary vs constant-false has_side_effects), visitor typestate, multi-value guards, fold-direction sibling rule, conservative-unknown rule; finite-domain evaluation of the anchored decision/transfer functions from their typed tree (abstract interpretation over enumerated abstract domains, sa/peval.py)",
        text="For all programs: what remove_compound_assignment duplicates is effect-free by has_side_effects' own table, scope-dependent lowering "
             "rules are scope-driven, hoists are multi-value guarded, right-nested chains are folded from the last element (branch order = evaluation "
             "order), unknown truthiness takes the boxed if-expression form, temporaries are collision-checked, values reach `%s` only through tostring, "
             "a rule re-nesting a repeat body also handles its condition (remove_continue: known finding), capture flags (`local __DARKLUA_X = ..`) are sticky. "
             "Formatting semantics are not decided.", note=TB, ref="DESIGN.md §3 C06"),
    "C08": dict(
        technique="static analysis: decision tables of the evaluator's match expressions vs the soundness skeleton of an abstract domain; finite-domain evaluation of the anchored decision/transfer functions from their typed tree (abstract interpretation over enumerated abstract domains, sa/peval.py)",
        text="For all expressions: opaque leaves evaluate to Unknown, calls are always effectful, unknown operands may carry metatables, multi-value "
             "sources are flagged, truthiness is unknown exactly for Unknown and nothing unknown is materialised; floats are never compared through total_cmp/EPSILON-style APIs "
             "nor formatted through Rust's Display; if-expression side effects ask about every part that may run. Numeric/string results are NOT decided "
             "(they need execution). The number -> string coercion of `..` is tabulated against `%.14g` on 36 doubles (declining is allowed; negative zero is `-0`).", note="Only the table skeleton. " + TB, ref="DESIGN.md §3 C08"),
    "C09": dict(
        technique="static analysis: event-order rules on both scope visitors, complete identifier-slot classification over the AST type graph, guard rules on name generation and recycling; finite-domain evaluation of the anchored decision/transfer functions from their typed tree (abstract interpretation over enumerated abstract domains, sa/peval.py)",
        text="For all programs: Lua's visibility rules hold as ordering constraints between push/insert/visit/pop in both scope visitors, every "
             "identifier slot is classified and only references/declarations reach the renamer, generated names are pooled or filtered against "
             "keywords/globals/function names collected before the walk, and only names flagged reusable are recycled. Pool/global interaction with detection off is not decided. The set of collected globals only ever grows (who-may rule); RenameProcessor's scope callbacks are evaluated as transfer functions (kept names never recycled, pool order independent of hash order). The real name generator issues 3000 pairwise distinct live names.",
        note=TB, ref="DESIGN.md §3 C09"),
    "C14": dict(
        technique="static analysis: guard-before-act rule (is_valid_identifier) at every construction of a name from a run-time string, keyword table, totality of the serializer's method set; finite-domain evaluation of the anchored decision/transfer functions from their typed tree (abstract interpretation over enumerated abstract domains, sa/peval.py)",
        text="For all documents: a key is emitted as a bare name only under is_valid_identifier (which refuses the 21 reserved words, the empty string and "
             "a leading digit); every other key takes the bracketed string form; no serialize_* method drops its value; no lossy numeric cast; the long-bracket string form "
             "is gated by a byte predicate that refuses CR. Literal text otherwise (C13) is not decided. A format's deserializer (library and CLI) instantiated at a generic document type uses that format's own Value.",
        note=TB, ref="DESIGN.md §3 C14"),
    "C16": dict(
        technique="static analysis: decision table over count orderings + guard-before-act rules for the four anchored guards, subset rule for duplicated receivers, visitor typestate; finite-domain evaluation of the anchored decision/transfer functions from their typed tree (abstract interpretation over enumerated abstract domains, sa/peval.py)",
        text="For all programs, the anchored guards hold: merging only with balanced first declaration and after scanning all values for all variables, "
             "local-function conversion only without self reference, `self` prepended exactly for methods, receivers duplicated only when effect-free and, if multi-valued, parenthesised as first argument, "
             "scope-aware sqrt conversion scope-driven. Full semantics of the refactorings are not decided. The name finder the guards trust is monotone: searched names never shrink, the found flag is never reset.", note=TB, ref="DESIGN.md §3 C16"),
    "C17": dict(
        technique="static analysis: visitor typestate, sibling-callback guard rule (is_identifier_used before every rewrite), matcher constant agreement, keep/order rules on kept arguments; finite-domain evaluation of the anchored decision/transfer functions from their typed tree (abstract interpretation over enumerated abstract domains, sa/peval.py)",
        text="For all programs: every rewrite in the scope-aware removal/injection processors is guarded by the scope query (sibling callbacks agree), "
             "matchers query the scope for the very name they match, arguments are kept exactly when effectful and stay in source order. Execution "
             "equivalence with the modified environment is not decided. inject_global_value is evaluated for every spelling (`NAME`, `_G.NAME`, `_G['NAME']`, prefix position) with the root name free and bound.", note=TB, ref="DESIGN.md §3 C17"),
})

CLAIMS.update({
    "C15": dict(
        technique="static analysis: finite-domain evaluation of RequireMode::find_require and the convert_require processor from their typed THIR (abstract interpretation with std::path's Unix semantics as a text model, the file system as an enumerated oracle through hooks on Resources::is_file/exists/is_directory), compared with an independent specification of the documented order; role-based discovery of the processor (rustc_private driver)",
        text="For every require mode (path with module folder init/index, luau) x requiring file (ordinary, module-folder file, top-level) x require string "
             "(relative, parent-relative, redundant ./.. segments, with/without extension, source/alias/@self prefixed, unknown source) x layout (no candidate, "
             "each single candidate, each pair; thorough: every subset, directories of the same stem present): find_require returns the first existing candidate "
             "of the documented order from the documented head; convert_require between path and luau writes an argument that resolves, under the target mode, "
             "to the file the original resolved to (one-candidate layouts; the extension/folder-name shortening on ambiguous layouts is a known finding). "
             "Windows prefixes, non-UTF-8 names, .luaurc discovery, symlinks and the roblox mode are not decided; the enumerated domain is finite.",
        note="No darklua code runs: functions are evaluated from the compiler's typed tree on abstract values; a cell the evaluator cannot establish fails closed. "
             "pathdiff::diff_paths is transcribed from the pinned pathdiff 0.2.3. " + TB,
        ref="DESIGN.md §3 C15"),
})

CLAIMS.update({
    "C13": dict(
        technique="static analysis: finite-domain evaluation of each generator's LuaGenerator::write_expression on string, interpolated-string and number nodes, and of NumberExpression::from_str, from the typed THIR (abstract interpretation; core::fmt's template encoding, integer formatting, Rust's f64 printing and parsing modelled on IEEE doubles), read back by independent readers of Lua 5.1 / Luau string-literal and number syntax (rustc_private driver)",
        text="Strings: for each of the three generators, every byte string of length <= 1, every pair (any byte, one byte per class the writer distinguishes; thorough: all 65536 pairs) "
             "and the structured long forms (lengths around the 20/60 thresholds, 5/6/7 newlines, `]]`/`]=]`/`]==]` runs, endings that are a prefix of a closer, trailing `]`, leading newline, CR, quotes, invalid UTF-8, non-ASCII) is written as ONE "
             "complete literal that Luau reads back as exactly the same bytes, and Lua 5.1 too unless it contains `\\u{`; the same for interpolated-string segments. "
             "Numbers: every double of the boundary classes (both zeros, subnormals, powers of two and ten and their neighbours, 2^53 neighbours, shortest-representation hard cases, infinities, NaN) x recorded exponent "
             "(none, small, large, out of i32, either case), u64 boundary values as hexadecimal/binary: the text written reads back as exactly the same double; 60 literals (underscores, exponents, 17+ digits, halfway cases, hex/binary to 64 bits) "
             "parse to the value Luau gives them. The claim is the enumerated domain, not all doubles; neighbouring-token fusion is C02.fuse.",
        note="No darklua code runs. f64 is modelled by IEEE doubles; Rust's `{}`/`{:e}` printing is emulated in sa/floatfmt.py (validated once against rustc on 3537 doubles); f64::powi's last bits are unspecified and no verdict depends on them. A cell the evaluator cannot establish fails closed. " + TB,
        ref="DESIGN.md §3 C13"),
})

# sentences appended for rules added after the claim texts above were written (sixth seed round)
EXTRA = {
    "C01": " The default rule filter_after_early_return is evaluated as a whole (visitor walk included) on ~1 500 enumerated blocks and compared, for every oracle of 6 condition outcomes, with an independent reference semantics of Lua/Luau control flow (sa/astmodel.py); expressions_as_expression is additionally interpreted under short-circuit evaluation for every outcome of the kept calls.",
    "C02": " The string writer shared by the generators is decided as under C13 (every byte and the structured long forms read back by an independent reader); the separation table is decided by evaluation when it is not a plain match.",
    "C04": " Block::remove_statement is evaluated on comment layouts (the comments a removed statement hands to the next token keep their relative lines); a callback may not apply the line shift to what its node's own shift already reaches. The copy of the variable that remove_compound_assignment reads on the right-hand side goes through the comment and whitespace clearing walks (a kept comment would be written twice).",
    "C06": " The remove_continue rule is evaluated as a whole (visitor walk, loop stack, re-nesting) on ~1 500 enumerated loop nests (4 loop kinds, nested loops with and without their own continue/break, loops inside functions, do blocks) and compared, for every oracle of 7 condition outcomes, with an independent reference semantics of Lua/Luau control flow (sa/astmodel.py): no continue is left and the trace of calls and condition evaluations is unchanged. IdentifierTracker records every declared local (the shadow test behind math/string/tostring), also `local math = math`; the duplicated variable copy of remove_compound_assignment loses its trivia.",
    "C08": " Folded arithmetic (+ - * / // % ^ on two number literals) is tabulated on 26x26 doubles per operator against IEEE arithmetic with C's pow/floor (bit for bit, or the evaluator declines). has_side_effects is true for a call placed in each operand slot of table constructors (computed keys included), binary, unary and parenthesised expressions.",
    "C10": " Every addition to the list of files to delete asks is_in_place and does not depend on the item's processing status. Whether a work item lies under a reported directory is decided component-wise (Path::starts_with, or a helper that agrees with it on siblings sharing a textual prefix).",
    "C11": " Every addition to the list of files to delete (the field drained into Resources::remove) is control-dependent on is_in_place. The resource layer creates, renames and deletes only the location it was given (or its parent directories): no sibling name is computed from it.",
    "C12": " The identifier predicate behind every bare-name write (is_valid_identifier) is tabulated on the reserved words and every character, non-ASCII letters included.",
    "C13": " Strings that are not valid UTF-8 are covered with every byte followed by a digit / a letter.",
    "C14": " The `[` `[[` pair (a long-bracket string used as a key) is kept apart by the separation table the generators share.",
    "C15": " Requires ending in `.` / `..` are part of the domain.",
    "C17": " expressions_as_expression is interpreted under short-circuit evaluation: every kept call runs once and in order whatever the calls return.",
    "C18": " The header's line shift reaches each token once (no callback shifts what its node's own shift already reaches).",
    "C19": " Where the reader installs the file filters before it calls configure(), no rule's configure() -- evaluated with the metadata marked -- replaces the metadata. Functions named by `serialize_with` attributes are evaluated against a recording serializer: every element is written, once, in order.",
    "C20": " Marking a work item done is never control-dependent on a per-rule filter: only the top-level filters take a file out of the pipeline. The per-rule filters read from a rule object reach the rule (C19.metadata's obligations, evaluated here again).",
}

NOT_APPLICABLE = {
}


def main():
    props = [json.loads(l) for l in open(os.path.join(V, "properties.jsonl"))]
    checks = []
    na = []
    for p in props:
        pid = p["id"]
        if pid in CLAIMS and os.path.exists(os.path.join(V, "sa", "props", pid.lower() + ".py")):
            c = CLAIMS[pid]
            checks.append({
                "property_id": pid,
                "quick_cmd": "./check %s --tier quick" % pid,
                "thorough_cmd": "./check %s --tier thorough" % pid,
                "evidence_file": "evidence/%s.json" % pid,
                "replay_cmd_template": "./check %s --replay {path}" % pid,
                "engine": "dlfacts+sa",
                "level_claimed": {"category": "other", "text": c["text"] + EXTRA.get(pid, ""), "design_ref": c["ref"]},
                "level_note": c["note"],
                "technique": c["technique"],
            })
        elif pid in NOT_APPLICABLE:
            na.append({"property_id": pid, "reason": NOT_APPLICABLE[pid]})
        else:
            na.append({"property_id": pid, "reason": "check not built yet in this session (planned in DESIGN.md); not claimed"})
    m = {
        "version": 1,
        "setup_cmd": "./setup.sh",
        "hooks": {
            "guard": "darklua_verif",
            "enable": "none needed: the fact extractor observes the unmodified build (cargo +nightly check with RUSTC_WORKSPACE_WRAPPER=/verif/driver/target/debug/dlfacts)",
            "baseline_off_cmd": "cd /repo && cargo test --workspace --no-fail-fast --offline",
            "source_commits": [],
            "add_only": True,
        },
        "engines": [
            {"name": "dlfacts", "path": "driver/", "serves_properties": [c["property_id"] for c in checks],
             "kind_free_text": "rustc_private driver dumping ADTs, impls, typed THIR bodies (resolved callees, patterns, field projections) and MIR CFGs as JSON"},
            {"name": "sa", "path": "sa/", "serves_properties": [c["property_id"] for c in checks],
             "kind_free_text": "Python rule engine: origin analysis, type graph, slot coverage, MIR dominators, table/sibling agreement; per-property modules in sa/props"},
        ],
        "checks": checks,
        "notes": "All checks are static: they never run darklua, its tests or Lua. Facts are re-extracted whenever /repo's sources change "
                 "(content hash). Repaired defects are listed in known_findings.json (fixed:).",
        "not_applicable": na,
    }
    json.dump(m, open(os.path.join(V, "MANIFEST.json"), "w"), indent=1)
    print("claimed:", [c["property_id"] for c in checks], "not claimed:", len(na))


if __name__ == "__main__":
    main()

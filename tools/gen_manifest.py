#!/usr/bin/env python3
"""Regenerates /verif/MANIFEST.json from the table below (claimed checks = modules in sa/props)."""
import json
import os

V = os.path.dirname(os.path.dirname(os.path.abspath(__file__)))

TB = ("rustc nightly (THIR/MIR/type info for the crate's default cfg), the dlfacts driver in /verif/driver, the Python rules "
      "in /verif/sa and their reviewed tables, full_moon's metadata")

CLAIMS = {
    "C07": dict(
        technique="static analysis: child-visit coverage over the AST type graph + per-rule construct-slot/handler rules on typed THIR (rustc_private driver)",
        text="Structural induction decided statically for all inputs: each of the 4 visitors hands every nested node slot of the AST "
             "type graph to a visit_* function and calls process_* before descending; each lowering rule's processor names its construct in a "
             "callback whose node kind contains every slot where the construct can sit, and writes every slot-valued construct; stack-keeping "
             "post-processors push/pop for the same node kinds; every Luau-only variant is classified with its lowering rule. It does not decide "
             "that hand-built replacements are free of the construct nor the strict-Lua-5.1 corollary.",
        note="Coverage is per (ADT, slot), not path-sensitive; reviewed tables: visitors.VISIT_EXEMPT_*, c07.RULES, c07.CLASSIFY. " + TB,
        ref="DESIGN.md §3 C07"),
    "C18": dict(
        technique="static analysis: token-slot coverage proof + effect whitelist on typed THIR, MIR path rule (rustc_private driver)",
        text="For all inputs: every AST slot that can hold a Token is reached by each of the three comment/whitespace walkers (so exactly the "
             "selected trivia kind can disappear everywhere), the walkers mutate nothing but Token trivia (code tokens cannot change), the retain "
             "predicates keep every trivia of the other kind, append_text_comment shifts lines only for location=start, and the emitted long-comment "
             "closer is the value tested absent from the text. Regex semantics of `except` and single-line text content are not decided.",
        note="Coverage is per (ADT, slot) over the walker family; std mutators classified by name. " + TB,
        ref="DESIGN.md §3 C18"),
}

CLAIMS.update({
    "C03": dict(
        technique="static analysis: capture/store/replay token-slot coverage (full_moon metadata vs converter calls, *Tokens fields vs initialisers, AST token slots vs generator writer calls) on typed THIR + MIR wiring rule",
        text="For all inputs: every token accessor full_moon offers for the node types the converter handles is consumed, every token field is "
             "stored from the parse tree, every token-bearing AST slot is handed to a writer of the token-based generator (nothing stored can be "
             "dropped on output), dispatch uses stored tokens, trivia/content emission order is leading-content-trailing, and retain_lines selects the "
             "preserving parser + token-based generator. Two genuine replay gaps pinned by existing snapshots are recorded as known findings. "
             "Spacing and parenthesis decisions are not decided.",
        note="Coverage per (ADT, slot), not path-sensitive; full_moon accessor list from its crate metadata. " + TB,
        ref="DESIGN.md §3 C03"),
    "C04": dict(
        technique="static analysis: token-slot coverage of shift_token_line, Position variant tables, MIR path rule for inserted lines, who-may-write rule on the generator's output/line counter",
        text="For all inputs: shift_token_line reaches every token slot; replacing token content keeps the recorded line; inserted lines are "
             "compensated exactly where they are inserted (append_text_comment only at start; bundler running total); the token-based generator's "
             "line counter is exact and monotone and padding precedes content. Does not decide that arbitrary pipelines never emit a token whose line is already passed.",
        note="Unrecognised idioms for writing the output buffer fail closed. " + TB,
        ref="DESIGN.md §3 C04"),
    "C12": dict(
        technique="static analysis: token-slot coverage of replace_referenced_tokens, MIR must-pass rule in the bundler, who-may-call Parser::parse, SCC check of the converter call graph, panic-call whitelist at the parser/worker entry points",
        text="Narrow structural part of crash-freedom, for all inputs: foreign-text token references are always replaced before a required block is "
             "walked/spliced, replace_referenced_tokens reaches every token slot, the converter's own call graph is acyclic (iterative conversion), "
             "Parser::parse is fallible and panic-free and maps both error kinds, the worker never unwraps rule/parse results. Panic-freedom of "
             "arbitrary rule pipelines is NOT decided (value reasoning); a census of panic sites is informational only.",
        note="full_moon's own recursion is outside the claim. " + TB,
        ref="DESIGN.md §3 C12"),
})

NOT_APPLICABLE = {
    "C13": "literal round-trip equality is arithmetic on bytes and doubles (escape padding, shortest float repr, quote choice by content): "
           "no clause is visible in the shape of the code beyond what unit tests already pin; static analysis cannot bound these runtime values",
    "C15": "which candidate file a require string resolves to is a function of run-time path strings and file-system state; the documented "
           "order is a value-level specification with no sound structural necessary condition in reach",
}


def main():
    props = [json.loads(l) for l in open(os.path.join(V, "properties.jsonl"))]
    checks = []
    na = []
    for p in props:
        pid = p["id"]
        if pid in CLAIMS and os.path.exists(os.path.join(V, "sa", "props", pid.lower() + ".py")):
            c = CLAIMS[pid]
            checks.append({
                "property_id": pid,
                "quick_cmd": "./check %s --tier quick" % pid,
                "thorough_cmd": "./check %s --tier thorough" % pid,
                "evidence_file": "evidence/%s.json" % pid,
                "replay_cmd_template": "./check %s --replay {path}" % pid,
                "engine": "dlfacts+sa",
                "level_claimed": {"category": "other", "text": c["text"], "design_ref": c["ref"]},
                "level_note": c["note"],
                "technique": c["technique"],
            })
        elif pid in NOT_APPLICABLE:
            na.append({"property_id": pid, "reason": NOT_APPLICABLE[pid]})
        else:
            na.append({"property_id": pid, "reason": "check not built yet in this session (planned in DESIGN.md); not claimed"})
    m = {
        "version": 1,
        "setup_cmd": "./setup.sh",
        "hooks": {
            "guard": "darklua_verif",
            "enable": "none needed: the fact extractor observes the unmodified build (cargo +nightly check with RUSTC_WORKSPACE_WRAPPER=/verif/driver/target/debug/dlfacts)",
            "baseline_off_cmd": "cd /repo && cargo test --workspace --no-fail-fast --offline",
            "source_commits": [],
            "add_only": True,
        },
        "engines": [
            {"name": "dlfacts", "path": "driver/", "serves_properties": [c["property_id"] for c in checks],
             "kind_free_text": "rustc_private driver dumping ADTs, impls, typed THIR bodies (resolved callees, patterns, field projections) and MIR CFGs as JSON"},
            {"name": "sa", "path": "sa/", "serves_properties": [c["property_id"] for c in checks],
             "kind_free_text": "Python rule engine: origin analysis, type graph, slot coverage, MIR dominators, table/sibling agreement; per-property modules in sa/props"},
        ],
        "checks": checks,
        "notes": "All checks are static: they never run darklua, its tests or Lua. Facts are re-extracted whenever /repo's sources change "
                 "(content hash). Repaired defects are listed in known_findings.json (fixed:).",
        "not_applicable": na,
    }
    json.dump(m, open(os.path.join(V, "MANIFEST.json"), "w"), indent=1)
    print("claimed:", [c["property_id"] for c in checks], "not claimed:", len(na))


if __name__ == "__main__":
    main()

#!/usr/bin/env python3
"""tools/keep_seed.py <seed_out_dir> <caught-by|MISSED> [note]  -- store a confirmed seeded change under /verif/seeded/<id>/"""
import json, os, shutil, sys
src = sys.argv[1].rstrip("/"); caught = sys.argv[2]; note = sys.argv[3] if len(sys.argv) > 3 else ""
sid = os.path.basename(src)
dst = os.path.join("/verif/seeded", sid)
os.makedirs(dst, exist_ok=True)
for f in os.listdir(src):
    if f.endswith((".diff", ".rs", ".sh")):
        shutil.copy(os.path.join(src, f), dst)
meta = json.load(open(os.path.join(src, "meta.json")))
conf = open(os.path.join(src, "confirm.log")).read().strip().splitlines()[-1] if os.path.exists(os.path.join(src, "confirm.log")) else "not confirmed"
out = {
    "property": meta.get("property", sid[:3]),
    "summary": meta.get("summary"),
    "needs": meta.get("needs"),
    "demo": meta.get("demo"),
    "author_ran": meta.get("ran"),
    "confirmed_by_me": {"base_commit": os.environ.get("SEED_BASE", "e7fe4d8"), "cmd": "tools/confirm_seed.sh %s" % src, "result": conf},
    "caught_by": caught,
    "note": note,
}
json.dump(out, open(os.path.join(dst, "meta.json"), "w"), indent=1)
print("kept", dst, caught)

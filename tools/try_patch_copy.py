#!/usr/bin/env python3
"""usage: tools/try_patch_copy.py <patch.diff> Cxx [Cyy ...]
Apply a patch to a scratch copy of /repo (never to /repo itself), run the quick rules of the given properties on
the copy and print the violated obligations. Writes no evidence."""
import os, subprocess, sys, tempfile, shutil
sys.path.insert(0, os.path.dirname(os.path.dirname(os.path.abspath(__file__))))
from sa import selftest

def main():
    patch = os.path.abspath(sys.argv[1]); pids = sys.argv[2:]
    dst = tempfile.mkdtemp(prefix="patchcopy_", dir="/tmp")
    try:
        selftest._copy_repo(dst)
        r = subprocess.run(["git", "apply", "--unsafe-paths", "--directory=" + dst, patch], cwd="/", capture_output=True, text=True)
        if r.returncode != 0:
            r = subprocess.run(["patch", "-p1", "-s", "-d", dst, "-i", patch], capture_output=True, text=True)
            if r.returncode != 0:
                print("PATCH DOES NOT APPLY", r.stdout[-300:], r.stderr[-300:]); return 3
        for pid in pids:
            try:
                v = selftest._violations(pid, dst)
            except Exception as e:  # fatal = fail closed = reported
                print(f"{pid}: FATAL {type(e).__name__}: {str(e)[:300]}"); continue
            print(f"{pid}: {len(v)} violated")
            for x in v[:12]:
                print("   ", x[:300])
    finally:
        shutil.rmtree(dst, ignore_errors=True)
    return 0
sys.exit(main())

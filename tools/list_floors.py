#!/usr/bin/env python3
"""Prints every floor/anchor obligation with its measured detail (used to review slack of the floors)."""
import sys, importlib
sys.path.insert(0, "/verif")
from sa import ctx as C, report
ctx = C.Ctx()
for pid in sys.argv[1:] or ["C01","C02","C03","C04","C05","C06","C07","C08","C09","C10","C11","C12","C14","C16","C17","C18","C19","C20"]:
    R = report.Report(pid, "quick")
    importlib.import_module("sa.props." + pid.lower()).run(R, ctx)
    for o in R.obligations:
        if "floor" in o["key"]:
            print(pid, o["rule"], o["key"], "|", o["detail"][:120])

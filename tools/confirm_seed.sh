#!/bin/bash
# usage: tools/confirm_seed.sh <seed_out_dir> [base-commit]   (e.g. /tmp/seed_out/C07)
# Confirms, in a scratch worktree: patch applies + builds, full suite passes with it,
# demo fails with it and passes without it. Writes <dir>/confirm.log and prints a summary line.
set -u
dir="$1"; base="${2:-e7fe4d8}"
id=$(basename "$dir")
wt=/tmp/seedverify_$id
export CARGO_TARGET_DIR=${SEEDVERIFY_TARGET:-/tmp/seedverify_target} CARGO_NET_OFFLINE=true
log="$dir/confirm.log"; : > "$log"
git -C /repo worktree remove --force "$wt" >/dev/null 2>&1
git -C /repo worktree add --detach "$wt" "$base" >>"$log" 2>&1 || { echo "$id: worktree failed"; exit 2; }
cd "$wt"
demo=$(ls "$dir"/*.rs 2>/dev/null | head -1)
res="$id:"
if ! git apply --check "$dir/patch.diff" 2>>"$log"; then echo "$id: patch does not apply on $base"; git -C /repo worktree remove --force "$wt"; exit 3; fi
# 1. without patch: demo passes
cp "$demo" tests/seed_demo.rs
if cargo test --offline --test seed_demo -j 8 >>"$log" 2>&1; then res="$res demo-passes-without=YES"; else res="$res demo-passes-without=NO"; fi
# 2. with patch: demo fails
git apply "$dir/patch.diff"
if cargo test --offline --test seed_demo -j 8 >>"$log" 2>&1; then res="$res demo-fails-with=NO"; else res="$res demo-fails-with=YES"; fi
# 3. with patch, demo removed: full suite passes
rm tests/seed_demo.rs
if cargo test --workspace --no-fail-fast --offline -j 8 > "$dir/suite.log" 2>&1; then
  n=$(grep -E "^test result: ok" "$dir/suite.log" | sed -E 's/.* ([0-9]+) passed.*/\1/' | paste -sd+ | bc)
  res="$res suite-passes-with=YES($n)"
else res="$res suite-passes-with=NO"; fi
cd /; git -C /repo worktree remove --force "$wt"
echo "$res" | tee -a "$log"

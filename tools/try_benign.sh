#!/bin/bash
# usage: tools/try_benign.sh <patch.diff>  -- apply a behaviour-preserving change to /repo, run ALL checks, undo.
# Prints every violation (a violation here is a false alarm of the machinery).
set -u
patch="$1"
cd /repo || exit 2
if ! git diff --quiet; then echo "/repo has uncommitted changes"; exit 2; fi
if ! git apply --check "$patch" 2>/dev/null; then echo "PATCH DOES NOT APPLY: $patch"; exit 3; fi
git apply "$patch"
cd /verif
./check C18 > /tmp/try_benign_first.log 2>&1   # warms the facts once
grep -E "VIOLATION|instance|checker error" /tmp/try_benign_first.log | cut -c1-400
printf "C01\nC02\nC03\nC04\nC05\nC06\nC07\nC08\nC09\nC10\nC11\nC12\nC13\nC14\nC15\nC16\nC17\nC19\nC20\n" | xargs -P 6 -I{} sh -c './check {} 2>&1 | grep -E "VIOLATION|instance|checker error|^C[0-9]+ \[" | cut -c1-400' | grep -vE "0 new violations"
cd /repo; git checkout -- . ; git clean -fdq -- src tests; git status --short | head -3

#!/usr/bin/env python3
"""Writes /verif/RULES.md: every rule of every property with its text and obligation count, taken from the evidence files
(so the document cannot drift from what the checks evaluate)."""
import glob, json, os
V = os.path.dirname(os.path.dirname(os.path.abspath(__file__)))
out = ["# Rules as evaluated (generated from evidence/*.json by tools/gen_rules_md.py)\n",
       "One entry per rule id: the rule text the checker prints with a violation, and the number of obligations it produced on the current tree.\n"]
for f in sorted(glob.glob(os.path.join(V, "evidence", "C*.json"))):
    d = json.load(open(f))
    cov = d.get("coverage", {})
    out.append("\n## %s — %d obligations, %d discharged\n" % (d["property_id"], cov.get("obligations", 0), cov.get("discharged", 0)))
    out.append(cov.get("explanation", "") + "\n")
    for rid, r in sorted(cov.get("rules", {}).items()):
        out.append("\n* **%s** (%d obligations) — %s" % (rid, r.get("obligations", 0), r.get("text", "")))
    kf = cov.get("known_findings") or []
    if kf:
        out.append("\n\nKnown findings: " + "; ".join(str(k.get("key", k)) if isinstance(k, dict) else str(k) for k in kf))
    out.append("\n")
open(os.path.join(V, "RULES.md"), "w").write("\n".join(out))
print("RULES.md written")

#!/bin/bash
# Builds the fact-extraction driver and warms the dependency build, offline, from files on disk only.
set -e
cd "$(dirname "$0")"
export CARGO_NET_OFFLINE=true
(cd driver && cargo build --offline 2>&1 | tail -2)
python3 -c "
import sys; sys.path.insert(0,'.')
from sa import facts
lib, b, h = facts.load()
print('facts ready', h, len(lib.fn_list), 'lib fns')
"

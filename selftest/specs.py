"""Seeded-fault self-tests (thorough tier): one-line mutations applied to a scratch copy of /repo.
Each must make the named rule fire on the named instance; they show the detectors are live and are
never part of the verdict on /repo.  A mutation whose `old` text is no longer present is skipped."""

M = {}


def m(pid, name, file, old, new, expect, more=()):
    M.setdefault(pid, []).append({"name": name, "file": file, "old": old, "new": new, "expect": expect, "more": list(more)})


# ---- C18 / C04 / C12 : token walkers -------------------------------------------------------------
m("C18", "drop-field-from-impl_token_fns", "src/nodes/statements/local_assign.rs",
  "iter = [variable_commas, value_commas, equal]", "iter = [variable_commas, equal]", "C18.cover.clear_comments|clear_comments|nodes::statements::local_assign::VariableAssignmentTokens.value_commas")
m("C18", "callback-forgets-variant", "src/rules/remove_comments.rs",
  "LastStatement::Break(token) | LastStatement::Continue(token) => {\n                if let Some(token) = token {\n                    token.clear_comments();",
  "LastStatement::Continue(_) => {}\n            LastStatement::Break(token) => {\n                if let Some(token) = token {\n                    token.clear_comments();",
  "C18.cover.clear_comments|clear_comments|nodes::statements::last_statement::LastStatement.Continue.0")
m("C18", "token-walker-touches-position", "src/nodes/token.rs",
  "pub fn clear_whitespaces(&mut self) {\n        self.leading_trivia",
  "pub fn clear_whitespaces(&mut self) {\n        self.position = Position::Any { content: \"\".into() };\n        self.leading_trivia",
  "C18.only-trivia|clear_whitespaces|")
m("C18", "retain-predicate-flipped", "src/nodes/token.rs",
  "pub fn clear_comments(&mut self) {\n        self.leading_trivia\n            .retain(|trivia| trivia.kind() != TriviaKind::Comment);",
  "pub fn clear_comments(&mut self) {\n        self.leading_trivia\n            .retain(|trivia| trivia.kind() == TriviaKind::Comment);",
  "C18.only-trivia|clear_comments|transfer")
m("C18", "shift-at-end-again", "src/rules/append_text_comment.rs",
  "        match self.location {\n            AppendLocation::Start => {\n                let shift_lines = text.lines().count();\n                ShiftTokenLine::new(shift_lines as isize).flawless_process(block, context);\n",
  "        let shift_lines = text.lines().count();\n        ShiftTokenLine::new(shift_lines as isize).flawless_process(block, context);\n        match self.location {\n            AppendLocation::Start => {\n",
  "C18.shift|AppendTextComment::process|shift-under-Start")
m("C04", "shift-forgets-field", "src/nodes/statements/local_assign.rs",
  "iter = [variable_commas, value_commas, equal]", "iter = [value_commas, equal]", "C04.shift-cover|shift_token_line|nodes::statements::local_assign::VariableAssignmentTokens.variable_commas")
m("C04", "replace-content-loses-line", "src/nodes/token.rs",
  "Position::LineNumber { line_number, .. }\n            | Position::LineNumberReference { line_number, .. } => Position::LineNumber {\n                line_number: *line_number,\n                content: content.into(),\n            },",
  "Position::LineNumber { .. } | Position::LineNumberReference { .. } => Position::Any {\n                content: content.into(),\n            },",
  "C04.keep|replace_with_content|")
m("C04", "newline-not-counted", "src/generator/token_based.rs",
  "    fn uncomment(&mut self) {\n        self.output.push('\\n');\n        self.current_line += 1;",
  "    fn uncomment(&mut self) {\n        self.output.push('\\n');",
  "C04.count|counter-exact")
m("C12", "replace-tokens-forgets-field", "src/nodes/function_call.rs",
  "super::impl_token_fns!(iter = [colon, type_instantiation_tokens]);", "super::impl_token_fns!(iter = [type_instantiation_tokens]);",
  "C12.tokens-cover|replace_referenced_tokens|nodes::function_call::FunctionCallTokens.colon")
m("C12", "bundler-skips-token-replacement", "src/rules/bundle/path_require_mode/mod.rs",
  "                        replace_tokens.flawless_process(&mut block, &context);\n", "", "C12.tokens-bundle|")
m("C12", "converter-recursion", "src/ast_converter.rs",
  "    fn convert_token_to_identifier(\n        &self,\n        token: &tokenizer::TokenReference,\n    ) -> Result<Identifier, ConvertError> {\n",
  "    fn convert_token_to_identifier(\n        &self,\n        token: &tokenizer::TokenReference,\n    ) -> Result<Identifier, ConvertError> {\n        if token.token().to_string().len() > 100000 {\n            return self.convert_token_to_identifier(token);\n        }\n",
  "C12.iter|scc|")
# ---- C07 ----------------------------------------------------------------------------------------
m("C07", "visitor-forgets-child", "src/process/visitors.rs",
  "        Self::visit_expression(binary.mutate_left(), processor);\n        Self::visit_expression(binary.mutate_right(), processor);",
  "        Self::visit_expression(binary.mutate_left(), processor);", "C07.visit|DefaultVisitor|nodes::expressions::binary::BinaryExpression.right")
m("C07", "scope-visitor-forgets-step", "src/process/scope_visitor.rs",
  "        if let Some(step) = statement.mutate_step() {\n            Self::visit_expression(step, scope);\n        };\n\n        if let Some(r#type) = statement.mutate_identifier().mutate_type() {\n            Self::visit_type(r#type, scope);\n        }\n\n        scope.push();\n        scope.insert(statement.mutate_identifier().mutate_name());\n\n        scope.process_scope(statement.mutate_block(), None);\n\n        Self::visit_block(statement.mutate_block(), scope);\n        scope.pop();\n    }\n\n    fn visit_repeat_statement(statement: &mut RepeatStatement, scope: &mut T) {",
  "        if let Some(r#type) = statement.mutate_identifier().mutate_type() {\n            Self::visit_type(r#type, scope);\n        }\n\n        scope.push();\n        scope.insert(statement.mutate_identifier().mutate_name());\n\n        scope.process_scope(statement.mutate_block(), None);\n\n        Self::visit_block(statement.mutate_block(), scope);\n        scope.pop();\n    }\n\n    fn visit_repeat_statement(statement: &mut RepeatStatement, scope: &mut T) {",
  "C07.visit|ScopeVisitor|nodes::statements::numeric_for::NumericForStatement.step")
m("C07", "process-after-children", "src/process/visitors.rs",
  "    fn visit_unary_expression(unary: &mut UnaryExpression, processor: &mut T) {\n        processor.process_unary_expression(unary);\n        Self::visit_expression(unary.mutate_expression(), processor);",
  "    fn visit_unary_expression(unary: &mut UnaryExpression, processor: &mut T) {\n        Self::visit_expression(unary.mutate_expression(), processor);\n        processor.process_unary_expression(unary);",
  "C07.process|DefaultVisitor|visit_unary_expression|process-first")
m("C07", "remove-types-forgets-slot", "src/nodes/statements/local_function.rs",
  "    pub fn clear_types(&mut self) {\n        self.return_type.take();\n        self.variadic_type.take();",
  "    pub fn clear_types(&mut self) {\n        self.return_type.take();", "C07.slots|remove_types|nodes::statements::local_function::FunctionAssignment.variadic_type|cleared")
# ---- C03 ----------------------------------------------------------------------------------------
m("C03", "generator-drops-token", "src/generator/token_based.rs",
  "        self.write_token(&tokens.left_parenthese);\n        self.write_expression(parenthese.inner_expression());\n        self.write_token(&tokens.right_parenthese);",
  "        self.write_token(&tokens.left_parenthese);\n        self.write_expression(parenthese.inner_expression());\n        self.write_symbol(\")\");",
  "C03.replay|nodes::expressions::parenthese::ParentheseTokens.right_parenthese")
m("C03", "convert_token-drops-trailing-trivia", "src/ast_converter.rs",
  "        for trivia_token in token.trailing_trivia() {\n            new_token.push_trailing_trivia(self.convert_trivia(trivia_token)?);\n        }\n", "",
  "C03.store|convert_token|trailing_trivia")
m("C03", "trailing-before-content", "src/generator/token_based.rs",
  "    fn write_token_options(&mut self, token: &Token, space_check: bool) {\n        for trivia in token.iter_leading_trivia() {\n            self.write_trivia(trivia);\n        }\n",
  "    fn write_token_options(&mut self, token: &Token, space_check: bool) {\n        for trivia in token.iter_trailing_trivia() {\n            self.write_trivia(trivia);\n        }\n        for trivia in token.iter_leading_trivia() {\n            self.write_trivia(trivia);\n        }\n",
  "C03.order|write_token_options|order")
m("C03", "retain-lines-without-token-parser", "src/frontend/configuration.rs",
  "            Self::RetainLines => Parser::default().preserve_tokens(),\n            Self::Dense { .. } | Self::Readable { .. } => Parser::default(),",
  "            Self::RetainLines | Self::Dense { .. } | Self::Readable { .. } => Parser::default(),", "C03.wire|build_parser")
# ---- C11 / C10 / C19 / C20 -----------------------------------------------------------------------
m("C11", "second-writer", "src/frontend/worker_tree.rs",
  "        log::info!(\"executed work in {}\", work_timer.duration_label());\n",
  "        log::info!(\"executed work in {}\", work_timer.duration_label());\n        let _ = resources.write(\"darklua.log\", \"done\");\n", "C11.writers|write|frontend::worker_tree::WorkerTree::process")
m("C11", "write-before-checking-rule-result", "src/frontend/worker.rs",
  "            rule_result?;\n\n            let rule_duration = rule_timer.duration_label();", "            let _ = rule_result;\n\n            let rule_duration = rule_timer.duration_label();", "C11.after-rules|apply_rules|")
m("C11", "error-stops-batch", "src/frontend/worker_tree.rs",
  "                                    if options.should_fail_fast() {\n                                        log::debug!(\n                                            \"dropping all work because the fail-fast option is enabled\"\n                                        );\n                                        break 'work_loop;\n                                    }",
  "                                    break 'work_loop;", "C11.isolate|process|exit-only-on-fail-fast")
m("C11", "unsorted-hash-iteration", "src/rules/rename_variables/rename_processor.rs",
  "            self.reuse_identifiers\n                .sort_by(|a, b| sort_identifiers(a, b).reverse());\n        }\n    }\n\n    fn insert(",
  "        }\n    }\n\n    fn insert(", "C11.order|pop|sorted-after-extend")
m("C10", "fingerprint-ignores-config", "src/frontend/worker_tree.rs",
  "        let input = serde_json::to_vec(config).ok().unwrap_or_default();", "        let _ = config;\n        let input = serde_json::to_vec(&0u8).ok().unwrap_or_default();", "C10.hash|fingerprint|whole-configuration")
m("C10", "add_source-forgets-dependents", "src/frontend/worker_tree.rs",
  "        let path = normalize_path(path.as_ref());\n\n        self.update_external_dependencies(&path);\n\n        if let Some(node_index) = self.node_map.get(&path) {",
  "        let path = normalize_path(path.as_ref());\n\n        if let Some(node_index) = self.node_map.get(&path) {", "C10.notify|add_source|updates-dependents")
m("C10", "deps-lost-on-rule-error", "src/frontend/worker.rs",
  "            work_item\n                .external_file_dependencies\n                .extend(context.into_dependencies());\n\n            rule_result?;",
  "            rule_result?;\n\n            work_item\n                .external_file_dependencies\n                .extend(context.into_dependencies());", "C10.deps|apply_rules|")
m("C19", "configure-ignores-unknown", "src/rules/remove_assertions.rs",
  "                _ => return Err(RuleConfigurationError::UnexpectedProperty(key)),", "                _ => {}", "C19.strict|RemoveAssertions|rejects-unknown")
m("C19", "skip-filter-guarded-by-apply", "src/rules/mod.rs",
  "            if !metadata.skip_filters.is_empty() {\n                let filters = metadata\n                    .skip_filters",
  "            if !metadata.apply_to_filters.is_empty() {\n                let filters = metadata\n                    .skip_filters", "C19.filters|serialize|")
m("C19", "deny-unknown-removed", "src/frontend/configuration.rs",
  "#[derive(Debug, Clone, Serialize, Deserialize, PartialEq, Eq)]\n#[serde(deny_unknown_fields, rename_all = \"snake_case\")]\npub struct BundleConfiguration {",
  "#[derive(Debug, Clone, Serialize, Deserialize, PartialEq, Eq)]\n#[serde(rename_all = \"snake_case\")]\npub struct BundleConfiguration {", "C19.strict|serde|deny_unknown_fields|frontend::configuration::BundleConfiguration")
m("C20", "rule-filter-not-consulted", "src/frontend/worker.rs",
  "            if !metadata.should_apply(work_item.data.source()) {", "            if false && !metadata.should_apply(work_item.data.source()) {", "C20.dominate|apply_rules|process-under-rule-filter")
m("C20", "skip-list-any-becomes-all", "src/rules/mod.rs",
  "        if !self.skip_filters.is_empty() && self.skip_filters.iter().any(|f| f.matches(path)) {", "        if !self.skip_filters.is_empty() && self.skip_filters.iter().all(|f| f.matches(path)) {", "C20.table|should_apply|")
# ---- C05 / C06 / C16 / C17 / C01 ------------------------------------------------------------------
m("C05", "nested-walk-without-scope", "src/rules/bundle/path_require_mode/mod.rs",
  "                    ScopeVisitor::visit_block(&mut block, self);", "                    crate::process::DefaultVisitor::visit_block(&mut block, self);", "C05.shadow|RequirePathProcessor@require_resource")
m("C05", "pop-after-question-mark", "src/rules/bundle/path_require_mode/mod.rs",
  "            let required_resource = self.require_resource(require_path);\n            self.require_stack.pop();\n\n            let module_value = self.module_definitions.build_module_from_resource(\n                required_resource?,",
  "            let required_resource = self.require_resource(require_path)?;\n            self.require_stack.pop();\n\n            let module_value = self.module_definitions.build_module_from_resource(\n                required_resource,",
  "C05.stack|inline_require|pop-on-every-exit")
m("C05", "error-swallowed", "src/rules/bundle/path_require_mode/mod.rs",
  "            Err(err) => {\n                self.errors.push(err.to_string());\n                return None;\n            }", "            Err(_err) => {\n                return None;\n            }", "C05.errors|try_inline_call|err-arm-recorded")
m("C06", "hoist-without-parentheses", "src/rules/remove_types.rs",
  "                    if self.evaluator.can_return_multiple_values(value) {\n                        *expression = value.clone().in_parentheses();\n                    } else {\n                        *expression = value.clone();\n                    }",
  "                    *expression = value.clone();", "C06.hoist|remove_types|")
m("C06", "forward-fold-again", "src/rules/remove_if_expression.rs",
  "branches.into_iter().rfold(", "branches.into_iter().fold(", "C06.fold|")
m("C16", "merge-without-usage-scan", "src/rules/group_local.rs",
  "        next.iter_mut_values().all(|expression| {\n            DefaultVisitor::visit_expression(expression, &mut find_variables);\n            !find_variables.has_found_usage()\n        })",
  "        let _ = (&mut find_variables, next);\n        true", "C16.merge|should_merge|all-values-of-next-scanned")
m("C16", "self-always-inserted", "src/rules/global_function_to_assign.rs",
  "        if name.has_method() {\n            function_expression\n                .mutate_parameters()\n                .insert(0, Identifier::new(\"self\").into());\n        }",
  "        function_expression\n            .mutate_parameters()\n            .insert(0, Identifier::new(\"self\").into());", "C16.self|convert|self-iff-method")
m("C16", "duplicate-call-receiver", "src/rules/remove_method_call.rs",
  "                | Expression::Parenthese(_)\n                | Expression::Call(_) => None,\n\n                Expression::Nil(_)", "                | Expression::Parenthese(_) => None,\n\n                Expression::Call(_)\n                | Expression::Nil(_)", "C16.receiver|process_function_call|Call")
m("C17", "assert-matcher-wrong-name", "src/rules/remove_assertions.rs",
  "        if identifiers.is_identifier_used(ASSERT_FUNCTION_NAME) {", "        if identifiers.is_identifier_used(\"select\") {", "C17.matchers|AssertMatcher|")
m("C17", "keep-args-on-wrong-branch", "src/rules/remove_call_match.rs",
  "                *statement = if self.preserve_args_side_effects {", "                *statement = if !self.preserve_args_side_effects {", "C17.args|")
m("C17", "drop-effectful-argument", "src/utils/preserve_arguments_side_effects.rs",
  "                        if evaluator.has_side_effects(key) {\n                            expressions.push(key.clone());\n                        }\n                        if evaluator.has_side_effects(value) {",
  "                        if !evaluator.has_side_effects(key) {\n                            expressions.push(key.clone());\n                        }\n                        if evaluator.has_side_effects(value) {", "C17.keep|kept|")
m("C01", "while-dropped-without-effect-check", "src/rules/unused_while.rs",
  "                self.evaluator.has_side_effects(condition)\n                    || self\n                        .evaluator", "                self\n                        .evaluator", "C01.guard|unused_while|")
m("C01", "branch-dropped-despite-effects", "src/rules/unused_if_branch.rs",
  "                    Some(false) => {\n                        if self.evaluator.has_side_effects(branch.get_condition()) {\n                            branch.take_block();\n                            true\n                        } else {\n                            false\n                        }\n                    }\n                    None => true,\n                }\n            }\n        });\n\n        if is_empty {",
  "                    Some(false) => false,\n                    None => true,\n                }\n            }\n        });\n\n        if is_empty {", "C01.guard|simplify_if_statement|retain_branches_mut|drop")
m("C01", "if-result-hoisted-bare", "src/rules/unused_if_branch.rs",
  "                    let result = if_expression.get_result().clone();\n\n                    Some(if self.evaluator.can_return_multiple_values(&result) {\n                        result.in_parentheses()\n                    } else {\n                        result\n                    })",
  "                    Some(if_expression.get_result().clone())", "C01.hoist|simplify_if|result@")
# ---- C02 / C08 / C09 / C14 ----------------------------------------------------------------------
m("C02", "concat-left-associative", "src/nodes/expressions/binary.rs",
  "    pub fn is_right_associative(&self) -> bool {\n        matches!(self, Self::Caret | Self::Concat)", "    pub fn is_right_associative(&self) -> bool {\n        matches!(self, Self::Caret)", "C02.prec|is_right_associative")
m("C02", "percent-wrong-level", "src/nodes/expressions/binary.rs",
  "            Self::Plus | Self::Minus => 4,\n            Self::Asterisk | Self::Slash | Self::DoubleSlash | Self::Percent => 5,", "            Self::Plus | Self::Minus | Self::Percent => 4,\n            Self::Asterisk | Self::Slash | Self::DoubleSlash => 5,", "C02.prec|get_precedence|group:Asterisk")
m("C02", "right-operand-never-wrapped", "src/generator/readable.rs",
  "        if operator.right_needs_parentheses(right) {\n            self.write_expression_in_parentheses(right);\n        } else {\n            self.write_expression(right);\n        }\n    }\n\n    fn write_unary_expression",
  "        self.write_expression(right);\n    }\n\n    fn write_unary_expression", "C02.parens|readable|write_binary_expression|")
m("C02", "minus-minus-fuses", "src/generator/utils.rs", "        '-' => next_character == '-',\n", "", "C02.fuse|pair-class|-|-")
m("C08", "identifier-evaluates-to-nil", "src/process/evaluator/mod.rs",
  "            Expression::Call(_)\n            | Expression::Field(_)\n            | Expression::Identifier(_)\n            | Expression::Index(_)\n            | Expression::VariableArguments(_) => LuaValue::Unknown,",
  "            Expression::Identifier(_) => LuaValue::Nil,\n            Expression::Call(_)\n            | Expression::Field(_)\n            | Expression::Index(_)\n            | Expression::VariableArguments(_) => LuaValue::Unknown,", "C08.opaque|evaluate|Identifier")
m("C08", "calls-are-pure", "src/process/evaluator/mod.rs",
  "    fn call_has_side_effects(&self, _call: &FunctionCall) -> bool {\n        true", "    fn call_has_side_effects(&self, _call: &FunctionCall) -> bool {\n        false", "C08.effects|has_side_effects|Call")
m("C08", "unknown-is-truthy", "src/process/evaluator/lua_value.rs",
  "            Self::Unknown => None,\n            Self::Nil | Self::False => Some(false),\n            _ => Some(true),", "            Self::Nil | Self::False => Some(false),\n            _ => Some(true),", "C08.domain|is_truthy|Unknown")
m("C09", "names-inserted-before-values", "src/process/scope_visitor.rs",
  "        statement\n            .iter_mut_values()\n            .for_each(|value| Self::visit_expression(value, scope));\n\n        for r#type in statement\n            .iter_mut_variables()\n            .filter_map(TypedIdentifier::mutate_type)\n        {\n            Self::visit_type(r#type, scope);\n        }\n\n        statement.for_each_assignment(|variable, expression| {\n            scope.insert_local(variable.mutate_name(), expression)\n        });\n    }\n\n    fn visit_function_expression(function: &mut FunctionExpression, scope: &mut T) {\n        scope.process_function_expression(function);",
  "        statement.for_each_assignment(|variable, expression| {\n            scope.insert_local(variable.mutate_name(), expression)\n        });\n\n        statement\n            .iter_mut_values()\n            .for_each(|value| Self::visit_expression(value, scope));\n\n        for r#type in statement\n            .iter_mut_variables()\n            .filter_map(TypedIdentifier::mutate_type)\n        {\n            Self::visit_type(r#type, scope);\n        }\n    }\n\n    fn visit_function_expression(function: &mut FunctionExpression, scope: &mut T) {\n        scope.process_function_expression(function);",
  "C09.order|ScopeVisitor|visit_local_assign|expr:<insert_local")
m("C09", "unfiltered-name", "src/rules/rename_variables/rename_processor.rs",
  "            if self.filter_identifier(&generated) {\n                generated\n            } else {\n                self.generate_identifier()\n            }", "            generated", "C09.pool|insert|generated-filtered")
m("C14", "bare-key-without-check", "src/process/expression_serializer.rs",
  "                        if let Some(value) = string\n                            .get_string_value()\n                            .filter(|value| is_valid_identifier(value))\n                        {",
  "                        if let Some(value) = string.get_string_value() {", "C14.ident|Serializer::complete_table_entry|")
m("C14", "keywords-accepted", "src/process/utils/mod.rs", "        && !matches!(identifier, matches_any_keyword!())", "", "C14.keyword|")

m("C06", "duplicate-unary-index", "src/rules/remove_compound_assign.rs",
  "                    | Expression::VariableArguments(_) => None,\n                    Expression::Parenthese(parenthese)\n                        if matches!(\n                            parenthese.inner_expression(),\n                            Expression::False(_)\n                                | Expression::Identifier(_)",
  "                    | Expression::VariableArguments(_) => None,\n                    Expression::Parenthese(parenthese)\n                        if matches!(\n                            parenthese.inner_expression(),\n                            Expression::False(_)\n                                | Expression::Call(_)\n                                | Expression::Identifier(_)",
  "C06.dup|replace_with|")
m("C19", "serializer-drops-key", "src/rules/rename_variables/mod.rs",
  "                \"include_functions\".to_owned(),\n                RulePropertyValue::Boolean(self.include_functions),", "                \"include_function\".to_owned(),\n                RulePropertyValue::Boolean(self.include_functions),", "C19.keys|RenameVariables|include_functions")
m("C07", "rule-returns-before-walking", "src/rules/remove_if_expression.rs",
  "        let mut processor = Processor::default();\n        DefaultVisitor::visit_block(block, &mut processor);", "        if block.is_empty() || block.statements_len() > 100000 {\n            return;\n        }\n        let mut processor = Processor::default();\n        DefaultVisitor::visit_block(block, &mut processor);", "C07.always|RemoveIfExpression")
m("C14", "wrapping-cast", "src/process/expression_serializer.rs",
  "        self.process(DecimalNumber::new(v as f64).into())\n    }\n\n    fn serialize_u8", "        self.process(DecimalNumber::new((v as i32) as f64).into())\n    }\n\n    fn serialize_u8", "C14.cast|")
m("C11", "output-used-as-file-without-dir-test", "src/frontend/worker_tree.rs",
  "                if resources.is_directory(&output)? {\n                    let file_name = options.input().file_name().ok_or_else(|| {\n                        DarkluaError::custom(format!(\n                            \"unable to extract file name from `{}`\",\n                            options.input().display()\n                        ))\n                    })?;\n\n                    self.add_source_if_missing(options.input(), Some(output.join(file_name)));\n                } else if resources.is_file(&output)? || output.extension().is_some() {",
  "                if resources.is_file(&output)? || output.extension().is_some() {", "C11.outdir|")
m("C19", "skip-true-default", "src/rules/require/luau_require_mode.rs",
  "    #[serde(default = \"default_use_luau_configuration\")]", "    #[serde(default = \"default_use_luau_configuration\", skip_serializing_if = \"std::ops::Not::not\")]", "C19.skipdefault|LuauRequireMode.use_luau_configuration")
m("C05", "ascending-index-removal", "src/rules/remove_nil_declarations.rs",
  "            for index in pop_extra_value_at.into_iter().rev() {", "            for index in pop_extra_value_at.into_iter() {", "C05.index|")
m("C01", "ascending-index-removal", "src/rules/remove_nil_declarations.rs",
  "            for index in pop_extra_value_at.into_iter().rev() {", "            for index in pop_extra_value_at.into_iter() {", "C01.index|")
# ---- third round: rules added for the second seed batch -------------------------------------------
m("C04", "argument-string-shifted-twice", "src/nodes/arguments.rs",
  "            Arguments::Tuple(tuple) => tuple.shift_token_line(amount),\n            Arguments::String(_) | Arguments::Table(_) => {}",
  "            Arguments::Tuple(tuple) => tuple.shift_token_line(amount),\n            Arguments::String(string) => string.shift_token_line(amount),\n            Arguments::Table(_) => {}",
  "C04.once|shift_token_line|nodes::arguments::Arguments.String.0")
m("C12", "zero-width-reference-skipped", "src/nodes/token.rs",
  "    pub(crate) fn replace_referenced_tokens(&mut self, code: &str) {\n        if let Position::LineNumberReference {\n            start,\n            end,\n            line_number,\n        } = self.position\n        {",
  "    pub(crate) fn replace_referenced_tokens(&mut self, code: &str) {\n        if let Position::LineNumberReference {\n            start,\n            end,\n            line_number,\n        } = self.position\n            && start < end\n        {",
  "C12.resolve|every-reference-resolved")
m("C06", "literal-given-to-%s-bare", "src/rules/remove_interpolated_string.rs",
  "                        ReplacementStrategy::ToStringSpecifier => value,\n",
  "                        ReplacementStrategy::ToStringSpecifier => value,\n                        ReplacementStrategy::StringSpecifier if matches!(value, Expression::Nil(_)) => value,\n",
  "C06.tostring|wraps|StringSpecifier")
m("C08", "elseif-condition-effects-ignored", "src/process/evaluator/mod.rs",
  "                if self.has_side_effects(branch.get_condition())\n                    || self.has_side_effects(branch.get_result())\n                {",
  "                if self.has_side_effects(branch.get_result()) {",
  "C08.if-effects|effect-in|ElseIfExpressionBranch.condition")
m("C01", "elseif-condition-effects-ignored", "src/process/evaluator/mod.rs",
  "                if self.has_side_effects(branch.get_condition())\n                    || self.has_side_effects(branch.get_result())\n                {",
  "                if self.has_side_effects(branch.get_result()) {",
  "C01.if-effects|effect-in|ElseIfExpressionBranch.condition")
m("C02", "cast-check-only-for-binary-left", "src/nodes/expressions/binary.rs",
  "            || (matches!(self, BinaryOperator::LowerThan)\n                && ends_with_type_cast_to_type_name_without_type_parameters(left))",
  "            || (matches!(self, BinaryOperator::LowerThan)\n                && matches!(left, Expression::Binary(_) | Expression::TypeCast(_))\n                && ends_with_type_cast_to_type_name_without_type_parameters(left))",
  "C02.needs|left|cast-before-<|Unary")
m("C02", "left-assoc-operand-bare", "src/nodes/expressions/binary.rs",
  "                if self.is_left_associative() {\n                    self.precedes(left.operator())\n                } else {\n                    !left.operator().precedes(*self)\n                }",
  "                self.precedes(left.operator())",
  "C02.needs|left|binary|Concat|Concat")
m("C14", "tab-and-cr-allowed-in-long-bracket", "src/generator/utils.rs",
  "    !(character.is_ascii_graphic() || *character == b' ' || *character == b'\\n')",
  "    !(character.is_ascii_graphic() || *character == b' ' || *character == b'\\n' || *character == b'\\r')",
  "C14.bracket|needs_quoted_string|0x0D")
m("C14", "long-bracket-not-gated", "src/generator/utils.rs",
  "    if !value.iter().any(needs_quoted_string)\n        && value.len() >= LONG_STRING_MIN_LENGTH",
  "    if value.len() >= LONG_STRING_MIN_LENGTH",
  "C14.bracket|long-bracket-gated")
m("C16", "vararg-receiver-duplicated-bare", "src/rules/remove_method_call.rs",
  "                | Expression::VariableArguments(_)\n                | Expression::TypeCast(_)",
  "                | Expression::TypeCast(_)",
  "C16.receiver|process_function_call|VariableArguments|args=0",
  more=[("                | Expression::Identifier(_) => Some(parenthese", "                | Expression::VariableArguments(_)\n                | Expression::Identifier(_) => Some(parenthese"),
        (".insert(0, Expression::from(new_prefix));", ".insert(0, match new_prefix {\n                    Prefix::Parenthese(p) => p.inner_expression().clone(),\n                    other => Expression::from(other),\n                });")])
m("C16", "recursive-local-function-converted", "src/rules/no_local_function.rs",
  "                if !find_usage.has_found_usage() {",
  "                if find_usage.has_found_usage() || !find_usage.has_found_usage() {",
  "C16.local|process_statement|param-named-f=False,body-mentions-f=True")
m("C14", "keyword-accepted-as-name", "src/process/utils/mod.rs",
  "            | \"until\"\n", "", "C14.keyword|keyword|until")

# ---- C15 : require resolution and conversion ----------------------------------------------------------
m("C15", "lua-before-luau", "src/rules/require/path_iterator.rs",
  "                1 => {\n                    let mut next_name = name.to_os_string();\n                    next_name.push(\".luau\");",
  "                1 => {\n                    let mut next_name = name.to_os_string();\n                    next_name.push(\".lua\");",
  "C15.resolve|path(init)|src/main.lua|./m",
  more=[("                2 => {\n                    let mut next_name = name.to_os_string();\n                    next_name.push(\".lua\");",
         "                2 => {\n                    let mut next_name = name.to_os_string();\n                    next_name.push(\".luau\");")])
m("C15", "exists-instead-of-is_file", "src/rules/require/path_locator.rs",
  "if self.resources.is_file(&potential_path)? {", "if self.resources.exists(&potential_path)? {",
  "C15.resolve|path(init)|src/main.lua|./m")
m("C15", "luau-init-not-relative-to-parent", "src/rules/require/luau_path_locator.rs",
  "if self.luau_require_mode.is_module_folder_name(source) {", "if false {",
  "C15.resolve|luau(init)|src/init.lua|./m")
m("C15", "source-relative-to-requiring-file", "src/rules/require/path_locator.rs",
  ".get_source(source_name, self.extra_module_relative_location)", ".get_source(source_name, source.parent().unwrap_or(self.extra_module_relative_location))",
  "C15.resolve|path(init)|src/main.lua|pkg/m")
m("C15", "self-alias-from-parent", "src/rules/require/luau_path_locator.rs",
  "path = get_relative_parent_path(source).join(components);", "path = get_relative_parent_path(get_relative_parent_path(source)).join(components);",
  "C15.resolve|luau(init)|src/main.lua|@self/m")
m("C15", "convert-self-for-parent", "src/rules/require/luau_require_mode.rs",
  "                    } else if relative_require_path.starts_with(\"../..\") {\n                        relative_require_path.components().skip(1).collect()",
  "                    } else if relative_require_path.starts_with(\"../..\") {\n                        relative_require_path.components().skip(2).collect()",
  "C15.convert|path->luau|src/init.lua|../../x/m")
m("C15", "convert-self-written-as-dot", "src/rules/require/luau_require_mode.rs",
  "                        let mut new_path = PathBuf::from(\"@self\");\n                        new_path.extend(relative_require_path.components().skip(1));",
  "                        let mut new_path = PathBuf::from(\".\");\n                        new_path.extend(relative_require_path.components().skip(1));",
  "C15.convert|path->luau|src/init.lua|./m")
m("C15", "folder-file-before-extensions", "src/rules/require/path_iterator.rs",
  "                3 => self.return_next(self.path.join(self.module_folder_name)),",
  "                3 => self.return_next(self.path.join(self.module_folder_name).with_extension(\"lua\")),",
  "C15.resolve|path(init)|src/main.lua|./m")

# ---- C13 : string literals ---------------------------------------------------------------------------
m("C13", "escape-not-padded-before-digit", "src/generator/utils.rs",
  "if next_character.filter(|c: &u8| c.is_ascii_digit()).is_some() {", "if next_character.filter(|c: &u8| *c == b'0').is_some() {",
  "C13.strings|DenseLuaGenerator|roundtrip")
m("C13", "quote-inside-not-escaped", "src/generator/utils.rs",
  "            if character == quote_symbol {\n                quoted.push('\\\\');", "            if false && character == quote_symbol {\n                quoted.push('\\\\');",
  "C13.strings|")
m("C13", "long-bracket-closer-completed-by-value-end", "src/generator/utils.rs",
  "if value.find(&equals).is_none() && !value.ends_with(&equals[..equals.len() - 1]) {", "if value.find(&equals).is_none() {",
  "C13.strings|DenseLuaGenerator|roundtrip")
m("C13", "long-bracket-leading-newline-lost", "src/generator/utils.rs",
  "let needs_extra_new_line = if value.starts_with(b\"\\n\") { \"\\n\" } else { \"\" };", "let needs_extra_new_line = \"\";",
  "C13.strings|DenseLuaGenerator|roundtrip")
m("C13", "long-bracket-allows-cr", "src/generator/utils.rs",
  "!(character.is_ascii_graphic() || *character == b' ' || *character == b'\\n')", "!(character.is_ascii_graphic() || character.is_ascii_whitespace())",
  "C13.strings|DenseLuaGenerator|roundtrip")
m("C13", "segment-brace-not-escaped", "src/generator/utils.rs",
  "            b'`' | b'{' => {\n                result.push('\\\\');", "            b'`' => {\n                result.push('\\\\');",
  "C13.segments|")
m("C13", "backslash-not-escaped", "src/generator/utils.rs",
  "!(character.is_ascii_graphic() || character == b' ') || character == b'\\\\'", "!(character.is_ascii_graphic() || character == b' ')",
  "C13.strings|")
m("C15", "alias-tie-in-hash-order", "src/rules/require/path_require_mode.rs",
  "                    std::cmp::Reverse(alias_name.to_string()),\n", "                    0,\n",
  "C15.convert|path->path|src/main.lua|pkg/m")
m("C13", "number-precision-check-dropped", "src/generator/utils.rs",
  "if formatted.parse::<f64>() == Ok(float) {", "if formatted.parse::<f64>().is_ok() {",
  "C13.numbers-written|")
m("C13", "negative-infinity-sign-lost", "src/generator/utils.rs",
  "format!(\"({}1/0)\", if float.is_sign_negative() { \"-\" } else { \"\" })", "format!(\"({}1/0)\", if float.is_sign_positive() { \"-\" } else { \"\" })",
  "C13.numbers-written|")
m("C13", "hex-written-in-decimal-digits", "src/generator/utils.rs",
  "                \"0{}{:x}{}\",", "                \"0{}{}{}\",",
  "C13.numbers-written|")
m("C13", "integral-floats-truncated", "src/generator/utils.rs",
  "            } else if float.fract() == 0.0 {\n                format!(\"{}\", float)", "            } else if float.fract() == 0.0 {\n                format!(\"{}\", float as i64)",
  "C13.numbers-written|")
m("C13", "underscores-kept-in-exponent", "src/nodes/expressions/number.rs",
  "                        .get(index + 1..)\n                        .map(filter_underscore)\n                        .and_then(|string| string.parse().ok())\n                        .ok_or(Self::Err::InvalidDecimalExponent)?;",
  "                        .get(index + 1..)\n                        .and_then(|string| string.parse().ok())\n                        .ok_or(Self::Err::InvalidDecimalExponent)?;",
  "C13.numbers-read|")
m("C13", "binary-parsed-as-octal", "src/nodes/expressions/number.rs",
  "let number = u64::from_str_radix(&filtered, 2)", "let number = u64::from_str_radix(&filtered, 8)",
  "C13.numbers-read|")

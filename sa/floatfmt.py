"""Rust's `{}` / `{:e}` / `{:E}` for f64 and `str::parse::<f64>` as pure functions (used by sa/peval.py).

Shortest round-trip digits come from Python's repr (same digits as Rust's Grisu/Dragon: shortest, closest); the layout
(never an exponent for `{}`, `d.ddde<exp>` without `+` for `{:e}`) follows core::fmt::float.  Validated once against rustc on
3 537 doubles (boundary classes + random bit patterns): identical output (see DESIGN.md §3 C13).
"""
import struct, math
from decimal import Decimal

def shortest(x):
    """(sign, digits, exp10): x = 0.d1d2.. * 10^exp10 style -> we return digits string and the decimal exponent of the first digit"""
    r = repr(abs(x))
    d = Decimal(r)
    sign, digits, e = d.as_tuple()
    ds = "".join(map(str, digits)).lstrip("0") or "0"
    # strip trailing zeros
    ds2 = ds.rstrip("0") or "0"
    e += len(ds) - len(ds2)
    # value = ds2 * 10^e ; position of decimal point relative to the digit string
    return ds2, e

def display(x):
    """Rust `{}` for f64"""
    if math.isnan(x): return "NaN"
    if math.isinf(x): return "-inf" if x < 0 else "inf"
    neg = math.copysign(1.0, x) < 0
    if x == 0: return "-0" if neg else "0"
    ds, e = shortest(x)
    if e >= 0:
        body = ds + "0" * e
    else:
        point = len(ds) + e
        if point > 0:
            body = ds[:point] + "." + ds[point:]
        else:
            body = "0." + "0" * (-point) + ds
    return ("-" if neg else "") + body

def lower_exp(x, upper=False):
    """Rust `{:e}` / `{:E}` for f64"""
    E = "E" if upper else "e"
    if math.isnan(x): return "NaN"
    if math.isinf(x): return "-inf" if x < 0 else "inf"
    neg = math.copysign(1.0, x) < 0
    if x == 0: return ("-" if neg else "") + "0" + E + "0"
    ds, e = shortest(x)
    exp = e + len(ds) - 1
    body = ds[0] + ("." + ds[1:] if len(ds) > 1 else "")
    return ("-" if neg else "") + body + E + str(exp)


import re as _re
_FLOAT = _re.compile(r"[+-]?(?:(?:\d+\.?\d*|\.\d+)(?:[eE][+-]?\d+)?|inf|infinity|nan)$", _re.I)


def parse_f64(text):
    """`text.parse::<f64>()`: the value, or None for Err (Rust's grammar: no underscores, no spaces, no hex)"""
    if not isinstance(text, str) or not _FLOAT.match(text) or text in ("", "+", "-"):
        return None
    try:
        return float(text)
    except ValueError:
        return None


def powi(a, b):
    """f64::powi as compiler-rt's __powidf2 computes it (the last bits are unspecified by Rust; rules must not depend on them)"""
    recip, b, r = b < 0, abs(b), 1.0
    try:
        while True:
            if b & 1:
                r *= a
            b //= 2
            if b == 0:
                break
            a *= a
    except OverflowError:
        r = math.inf
    if recip:
        return math.copysign(math.inf, r) if r == 0 else 1.0 / r
    return r


def libm(name, *args):
    """C's libm functions Rust's f64 methods forward to (`powf` is `pow`), with their IEEE results where Python raises"""
    import math
    a = args[0]
    if name == "powf":
        b = args[1]
        try:
            return math.pow(a, b)
        except OverflowError:
            neg = a < 0 and b == math.floor(b) and math.fmod(abs(b), 2.0) == 1.0
            return -math.inf if neg else math.inf
        except (ValueError, ZeroDivisionError):
            if a == 0 and b < 0:
                odd = b == math.floor(b) and math.fmod(abs(b), 2.0) == 1.0
                return math.copysign(math.inf, a) if odd else math.inf
            return math.nan
    if name == "sqrt":
        return math.nan if a < 0 else (a if math.isnan(a) else math.sqrt(a))
    try:
        return {"exp": math.exp, "ln": math.log, "log10": math.log10, "log2": math.log2}[name](a)
    except OverflowError:
        return math.inf
    except (ValueError, KeyError):
        if name in ("ln", "log10", "log2") and a == 0:
            return -math.inf
        return math.nan if name != "exp" else None

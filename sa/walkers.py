"""Token-walker coverage (templates T1+T2+T3): used by C18 (clear_comments / filter_comments /
clear_whitespaces), C04 (shift_token_line) and C12 (replace_referenced_tokens)."""
from . import coverage, typegraph
from .thir import callee_of

WALKERS = {
    # W method name -> processor type (resolved from the rule's own driver call, see find_processor)
    "clear_comments": "rules::remove_comments::RemoveCommentProcessor",
    "filter_comments": "rules::remove_comments::FilterCommentProcessor",
    "clear_whitespaces": "rules::remove_spaces::RemoveWhitespacesProcessor",
    "shift_token_line": "rules::shift_token_line::ShiftTokenLineProcessor",
    "replace_referenced_tokens": "rules::replace_referenced_tokens::Processor",
}

# Slots holding tokens that no walker can reach on today's tree: reviewed, one reason each.
# (none are exempted silently: they are reported as KNOWN-FINDING via known_findings.json)
EXEMPT_SLOTS = {}

# measured on the pinned tree (floors: a rule that matches fewer slots than this passes vacuously)
TOKEN_SLOT_FLOOR = 400
CALLBACK_FLOOR = 45


def walker_cover(R, ctx, rid, W):
    lib, an, tg = ctx.lib, ctx.an, ctx.tg
    proc = WALKERS[W]
    R.rule(rid, "every AST slot that (transitively) holds a Token is passed to `%s` (or to the visitor/processor "
                "callback that handles it) somewhere in the family of functions reachable from DefaultVisitor + %s" % (W, proc))
    # the processor must exist, implement NodeProcessor, and be driven by DefaultVisitor
    drv = [d for d in ctx.drivers() if d["processor"] == proc]
    R.require(rid, "anchor:driver:" + proc, len(drv) >= 1, "", "no `Visitor::visit_block(.., &mut %s)` call found" % proc)
    for d in drv:
        R.ob(rid, "driver-is-default-visitor:%s@%s" % (proc, d["caller"]),
             d["visitor"] == "process::visitors::DefaultVisitor" and d["trait"] == coverage.NODE_VISITOR,
             "%s:%s" % (d["file"], d["line"]),
             "walker %s is driven by %s (the coverage proof below is for DefaultVisitor)" % (proc, d["visitor"]))
    fam = ctx.family(coverage.NODE_VISITOR, "process::visitors::DefaultVisitor", proc)
    R.require(rid, "floor:callbacks:" + proc, len(fam.proc_over) >= CALLBACK_FLOOR, "",
              "%s overrides %d NodeProcessor callbacks (floor %d)" % (proc, len(fam.proc_over), CALLBACK_FLOOR))

    def qualifies(c, n):
        return n.get("fname") == W or c in fam.vis_methods or c in fam.proc_methods

    touched = fam.touched(qualifies)
    slots = tg.slots_holding({typegraph.TOKEN})
    R.require(rid, "floor:token-slots", len(slots) >= TOKEN_SLOT_FLOOR, "", "%d token-bearing slots in the AST type graph (floor %d)" % (len(slots), TOKEN_SLOT_FLOOR))
    n_ok = 0
    for adt, slot, ty, inner in slots:
        hit = touched.get((adt, slot))
        ok = bool(hit)
        if ok:
            n_ok += 1
        R.ob(rid, "%s|%s.%s" % (W, adt, slot), ok, ctx.adt_where(adt),
             ("reached via %s (line %s) in %s" % (hit[0][1], hit[0][2], hit[0][0])) if ok else
             "slot `%s` of `%s` (type %s) holds tokens but is never passed to %s / a visit_* / process_* call in the walker family: "
             "comments/whitespace/lines stored there are never processed" % (slot, adt, lib.ty_str(ty), W))
    R.meta.setdefault("walkers", {})[W] = {
        "processor": proc, "scope_functions": len(fam.scope), "qualifying_calls": fam.qualifying_calls,
        "token_slots": len(slots), "touched": n_ok, "callbacks_overridden": len(fam.proc_over),
    }
    R.sample({"walker": W, "slot": "%s.%s" % (slots[0][0], slots[0][1]), "verdict": "touched" if touched.get((slots[0][0], slots[0][1])) else "missing"})
    return fam, touched, slots


def sibling_callbacks(R, ctx, rid, names):
    """T3: all walker processors override the same NodeProcessor callback set."""
    R.rule(rid, "the sibling token walkers override the same set of NodeProcessor callbacks (a callback present in one "
                "walker and absent in another is a forgotten node kind)")
    sets = {}
    for W in names:
        proc = WALKERS[W]
        over = coverage.impl_methods(ctx.lib, coverage.NODE_PROCESSOR, proc)
        sets[W] = {p.split("::")[-1] for p in over}
    union = set()
    for s in sets.values():
        union |= s
    for W in names:
        for cb in sorted(union):
            R.ob(rid, "%s|%s" % (WALKERS[W], cb), cb in sets[W], "",
                 "callback %s is overridden by %s but not by %s" % (cb, [w for w in names if cb in sets[w]], WALKERS[W]))

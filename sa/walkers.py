"""Token-walker coverage (templates T1+T2+T3): used by C18 (clear_comments / filter_comments /
clear_whitespaces), C04 (shift_token_line) and C12 (replace_referenced_tokens)."""
from . import coverage, typegraph, thir
from .thir import callee_of

WALKERS = {
    # W method name -> processor type (resolved from the rule's own driver call, see find_processor)
    "clear_comments": "rules::remove_comments::RemoveCommentProcessor",
    "filter_comments": "rules::remove_comments::FilterCommentProcessor",
    "clear_whitespaces": "rules::remove_spaces::RemoveWhitespacesProcessor",
    "shift_token_line": "rules::shift_token_line::ShiftTokenLineProcessor",
    "replace_referenced_tokens": "rules::replace_referenced_tokens::Processor",
}

# Slots holding tokens that no walker can reach on today's tree: reviewed, one reason each.
# (none are exempted silently: they are reported as KNOWN-FINDING via known_findings.json)
EXEMPT_SLOTS = {}

# measured on the pinned tree (floors: a rule that matches fewer slots than this passes vacuously)
TOKEN_SLOT_FLOOR = 400
CALLBACK_FLOOR = 45


def walker_cover(R, ctx, rid, W):
    lib, an, tg = ctx.lib, ctx.an, ctx.tg
    proc = WALKERS[W]
    R.rule(rid, "every AST slot that (transitively) holds a Token is passed to `%s` (or to the visitor/processor "
                "callback that handles it) somewhere in the family of functions reachable from DefaultVisitor + %s" % (W, proc))
    # the processor must exist, implement NodeProcessor, and be driven by DefaultVisitor
    drv = [d for d in ctx.drivers() if d["processor"] == proc]
    R.require(rid, "anchor:driver:" + proc, len(drv) >= 1, "", "no `Visitor::visit_block(.., &mut %s)` call found" % proc)
    for d in drv:
        R.ob(rid, "driver-is-default-visitor:%s@%s" % (proc, d["caller"]),
             d["visitor"] == "process::visitors::DefaultVisitor" and d["trait"] == coverage.NODE_VISITOR,
             "%s:%s" % (d["file"], d["line"]),
             "walker %s is driven by %s (the coverage proof below is for DefaultVisitor)" % (proc, d["visitor"]))
    fam = ctx.family(coverage.NODE_VISITOR, "process::visitors::DefaultVisitor", proc)
    R.require(rid, "floor:callbacks:" + proc, len(fam.proc_over) >= CALLBACK_FLOOR, "",
              "%s overrides %d NodeProcessor callbacks (floor %d)" % (proc, len(fam.proc_over), CALLBACK_FLOOR))

    def qualifies(c, n):
        return n.get("fname") == W or c in fam.vis_methods or c in fam.proc_methods

    touched = fam.touched(qualifies)
    slots = tg.slots_holding({typegraph.TOKEN})
    R.require(rid, "floor:token-slots", len(slots) >= TOKEN_SLOT_FLOOR, "", "%d token-bearing slots in the AST type graph (floor %d)" % (len(slots), TOKEN_SLOT_FLOOR))
    n_ok = 0
    for adt, slot, ty, inner in slots:
        hit = touched.get((adt, slot))
        ok = bool(hit)
        if ok:
            n_ok += 1
        R.ob(rid, "%s|%s.%s" % (W, adt, slot), ok, ctx.adt_where(adt),
             ("reached via %s (line %s) in %s" % (hit[0][1], hit[0][2], hit[0][0])) if ok else
             "slot `%s` of `%s` (type %s) holds tokens but is never passed to %s / a visit_* / process_* call in the walker family: "
             "comments/whitespace/lines stored there are never processed" % (slot, adt, lib.ty_str(ty), W))
    R.meta.setdefault("walkers", {})[W] = {
        "processor": proc, "scope_functions": len(fam.scope), "qualifying_calls": fam.qualifying_calls,
        "token_slots": len(slots), "touched": n_ok, "callbacks_overridden": len(fam.proc_over),
    }
    R.sample({"walker": W, "slot": "%s.%s" % (slots[0][0], slots[0][1]), "verdict": "touched" if touched.get((slots[0][0], slots[0][1])) else "missing"})
    return fam, touched, slots


def sibling_callbacks(R, ctx, rid, names):
    """T3: all walker processors override the same NodeProcessor callback set."""
    R.rule(rid, "the sibling token walkers override the same set of NodeProcessor callbacks (a callback present in one "
                "walker and absent in another is a forgotten node kind)")
    sets = {}
    for W in names:
        proc = WALKERS[W]
        over = coverage.impl_methods(ctx.lib, coverage.NODE_PROCESSOR, proc)
        sets[W] = {p.split("::")[-1] for p in over}
    union = set()
    for s in sets.values():
        union |= s
    for W in names:
        for cb in sorted(union):
            R.ob(rid, "%s|%s" % (WALKERS[W], cb), cb in sets[W], "",
                 "callback %s is overridden by %s but not by %s" % (cb, [w for w in names if cb in sets[w]], WALKERS[W]))


DOUBLE_EXEMPT = {
    ("nodes::attributes::AttributeArguments", "String.0"): "attribute group arguments cannot be produced from source text (full_moon 2.2 has no `@[..]` syntax); the double route exists only for hand-built trees",
    ("nodes::attributes::AttributeArguments", "Table.0"): "same as String.0",
}


def double_application(R, ctx, rid, W):
    """For a non-idempotent walker: no node may receive W twice in one traversal, i.e. no slot is both
    (a) the receiver of a direct `U::W` call made by a parent's W / a parent's callback and (b) handed by the
    visitor to visit_U, whose process_U callback applies U::W again."""
    from . import visitors
    lib = ctx.lib
    proc = WALKERS[W]
    R.rule(rid, "`%s` is not idempotent: each token must be reached through exactly one route. A slot whose value receives `U::%s` directly from its "
                "parent must not also be handed by DefaultVisitor to visit_U when %s's process_U callback applies `U::%s` itself" % (W, W, proc.split("::")[-1], W))
    fam = ctx.family(coverage.NODE_VISITOR, "process::visitors::DefaultVisitor", proc)
    suffix = "::" + W
    # kinds whose callback applies W to its own parameter
    cb_types = set()
    for ti, impl in fam.proc_over.items():
        fn = lib.fns[impl]
        fa = ctx.an.fa(impl)
        for c in thir.calls(fn):
            cal = callee_of(c) or ""
            if c.get("fname") == W and cal.endswith(suffix) and c["args"] and ("#param", 1) in fa.origins(c["args"][0]):
                o = {x for x in fa.origins(c["args"][0]) if x[0] != "#param"}
                if not o:
                    cb_types.add(cal[: -len(suffix)])
    R.require(rid, "floor:callback-kinds", len(cb_types) >= 20, "", "%d node kinds get %s from their own callback" % (len(cb_types), W))
    # direct applications through a field of the parent
    direct = {}
    for p in fam.scope:
        fa = ctx.an.fa(p)
        if fa is None:
            continue
        for c in thir.calls(lib.fns[p]):
            cal = callee_of(c) or ""
            if c.get("fname") == W and cal.endswith(suffix) and cal in lib.fns and c["args"]:
                U = cal[: -len(suffix)]
                for o in fa.origins(c["args"][0]):
                    if o[0] != "#param":
                        direct.setdefault(o, []).append((U, p, c.get("ln")))
    vt = visitors.visitable_types(lib, coverage.NODE_VISITOR)
    _, touched_v = visitors.visitor_touched(ctx, coverage.NODE_VISITOR, "process::visitors::DefaultVisitor")
    n = 0
    for slot, lst in sorted(direct.items()):
        if slot in DOUBLE_EXEMPT:
            R.ob(rid, "exempt|%s.%s" % slot, True, ctx.adt_where(slot[0]), DOUBLE_EXEMPT[slot], nontrivial=False)
            continue
        visited_kinds = {vt.get((h[1] or "").split("::")[-1]) for h in touched_v.get(slot, [])}
        # only the slot's own value type matters: the last step of the receiver path
        for U, p, ln in lst:
            slot_types = [q for name, ty, inner in ctx.tg.slots.get(slot[0], []) if name == slot[1] for q in inner]
            if U not in slot_types:
                continue
            n += 1
            dbl = U in cb_types and U in visited_kinds
            R.ob(rid, "%s|%s.%s" % (W, slot[0], slot[1]), not dbl, ctx.where(lib.fns[p], ln),
                 ("`%s` receives %s directly here AND again from process callback after visit_%s: its tokens are shifted twice" % (U.split("::")[-1], W, U.split("::")[-1])) if dbl else "single route")
    R.require(rid, "floor:direct-sites", n >= 30, "", "%d direct applications through a field (floor 30)" % n)
    # a callback that applies `P::W` to its own node and, besides, W to something held in a slot of that node which `P::W`
    # itself already walks (e.g. the segments of an interpolated string)
    callback_paths = set(fam.proc_over.values())
    own = {}          # slot -> the `U::W` bodies applying W to it
    for slot, lst in direct.items():
        for U, pth, ln in lst:
            if pth.endswith(suffix) and pth not in callback_paths:
                own.setdefault(slot, set()).add(pth[: -len(suffix)])
    m = 0
    for ti, impl in sorted(fam.proc_over.items(), key=lambda kv: kv[1]):
        fn = lib.fns[impl]
        fa = ctx.an.fa(impl)
        applied_to_self = set()
        extra = []
        for c in thir.calls(fn):
            cal = callee_of(c) or ""
            if c.get("fname") != W or not cal.endswith(suffix) or not c["args"]:
                continue
            o = fa.origins(c["args"][0])
            fields = {x for x in o if x[0] != "#param"}
            if ("#param", 1) in o and not fields:
                applied_to_self.add(cal[: -len(suffix)])
            else:
                extra.append((fields, c.get("ln")))
        for fields, ln in extra:
            for slot in sorted(fields):
                if slot[0] in applied_to_self:
                    m += 1
                    dbl = slot[0] in own.get(slot, ())
                    R.ob(rid, "%s|callback|%s|%s.%s" % (W, impl.split("::")[-1], slot[0], slot[1]), not dbl, ctx.where(fn, ln),
                         "the callback applies %s to its node, whose own %s already walks `%s`, and then to what that slot holds: those tokens are shifted twice" % (W, W, slot[1])
                         if dbl else "not walked by the node's own %s" % W, nontrivial=dbl)
    R.meta.setdefault("double_application", {})[W] = {"callback_extra_applications": m}

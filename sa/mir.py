"""MIR CFG helpers for the path rules (T6): dominators, reachability, discriminant switches,
Result/`?` error edges."""


class Cfg:
    def __init__(self, crate, fn):
        self.crate = crate
        self.fn = fn
        m = fn["mir"]
        self.blocks = m["blocks"]
        self.n = len(self.blocks)
        self.succ = [[] for _ in range(self.n)]
        self.succ_nounwind = [[] for _ in range(self.n)]
        for i, b in enumerate(self.blocks):
            t = b["term"]
            k = t["k"]
            s = []
            if k in ("goto", "drop", "assert"):
                s.append(t["t"])
            elif k == "call":
                if "t" in t:
                    s.append(t["t"])
            elif k == "switch":
                for v, bb in t["targets"]:
                    s.append(bb)
                s.append(t["otherwise"])
            self.succ_nounwind[i] = list(dict.fromkeys(s))
            if "u" in t:
                s.append(t["u"])
            self.succ[i] = list(dict.fromkeys(s))
        self.pred = [[] for _ in range(self.n)]
        for i, ss in enumerate(self.succ_nounwind):
            for j in ss:
                self.pred[j].append(i)
        self._dom = None
        self._discr_defs = None

    # ---- basic queries -------------------------------------------------
    def is_cleanup(self, i):
        return bool(self.blocks[i].get("cleanup"))

    def calls(self):
        """(block index, terminator) for every call terminator in non-cleanup blocks."""
        for i, b in enumerate(self.blocks):
            if b["term"]["k"] == "call" and not b.get("cleanup"):
                yield i, b["term"]

    def callee(self, t):
        return t.get("resolved") or t.get("fn")

    def returns(self):
        return [i for i, b in enumerate(self.blocks) if b["term"]["k"] == "return" and not b.get("cleanup")]

    def reachable_from(self, start, avoid=frozenset(), edges=None):
        """Blocks reachable from `start` (normal edges only) without entering any block in `avoid`."""
        succ = edges or self.succ_nounwind
        seen = set()
        stack = [start] if not isinstance(start, (list, set, tuple)) else list(start)
        while stack:
            b = stack.pop()
            if b in seen or b in avoid:
                continue
            seen.add(b)
            stack.extend(succ[b])
        return seen

    def dominators(self):
        """dom[b] = set of blocks dominating b (normal edges, entry = 0)."""
        if self._dom is None:
            reach = self.reachable_from(0)
            order = sorted(reach)
            allb = set(order)
            dom = {b: set(allb) for b in order}
            dom[0] = {0}
            changed = True
            while changed:
                changed = False
                for b in order:
                    if b == 0:
                        continue
                    ps = [p for p in self.pred[b] if p in reach]
                    if not ps:
                        continue
                    new = set.intersection(*(dom[p] for p in ps)) | {b}
                    if new != dom[b]:
                        dom[b] = new
                        changed = True
            self._dom = dom
        return self._dom

    def dominates(self, a, b):
        d = self.dominators()
        return b in d and a in d[b]

    def must_pass(self, via, target, start=0):
        """True iff every path start ->* target passes through a block in `via`."""
        via = set(via)
        if start in via:
            return True
        r = self.reachable_from(start, avoid=via)
        return target not in r

    # ---- discriminant switches ------------------------------------------
    def discr_switches(self, adt=None):
        """Yields (block, adt path, {variant name: target bb}, otherwise bb, place str) for every
        `switchInt(discriminant(place))`."""
        for i, b in enumerate(self.blocks):
            t = b["term"]
            if t["k"] != "switch" or b.get("cleanup"):
                continue
            d = t["discr"].get("p")
            if d is None:
                continue
            # find defining discr statement in this block (mir-opt-level 0 keeps them adjacent)
            for st in reversed(b["s"]):
                if st.get("d") == d:
                    if st.get("rv") == "discr" and "adt" in st and (adt is None or st["adt"] == adt):
                        names = {v: n for v, n in st["variants"]}
                        tg = {}
                        for v, bb in t["targets"]:
                            tg[names.get(v, v)] = bb
                        covered = set(tg)
                        rest = [n for n in names.values() if n not in covered]
                        yield i, st["adt"], tg, t["otherwise"], st["ops"][0]["p"], rest
                    break

    def edge_region(self, switch_block, target):
        """Blocks that can only be reached (from entry) through the edge switch_block -> target,
        i.e. blocks dominated by that edge: reachable from target, and not reachable from entry
        when that edge is removed."""
        succ = [list(s) for s in self.succ_nounwind]
        # count multiplicity: if target appears via several values we remove only the named edge once
        succ[switch_block] = [x for x in succ[switch_block] if x != target]
        without = self.reachable_from(0, edges=succ)
        through = self.reachable_from(target)
        return {b for b in through if b not in without}

    # ---- flow-insensitive def-use ----------------------------------------
    @staticmethod
    def base(place):
        return int(place.split("|")[0])

    def derived_locals(self, seeds):
        """Locals whose value may derive from any local in `seeds` (through assignments, refs, casts,
        aggregates and call arguments -> call destinations). Flow-insensitive fixpoint."""
        d = set(seeds)
        changed = True
        while changed:
            changed = False
            for b in self.blocks:
                for st in b["s"]:
                    if "ops" not in st:
                        continue
                    if any("p" in o and self.base(o["p"]) in d for o in st["ops"]):
                        t = self.base(st["d"])
                        if t not in d:
                            d.add(t); changed = True
                t = b["term"]
                if t["k"] == "call":
                    if any("p" in o and self.base(o["p"]) in d for o in t["args"]):
                        x = self.base(t["d"])
                        if x not in d:
                            d.add(x); changed = True
        return d

    def call_dest(self, i):
        return self.base(self.blocks[i]["term"]["d"])

    def try_branches_on(self, locals_):
        """Blocks calling Try::branch with an argument among `locals_` -> (block, continue bb, break bb)."""
        out = []
        for i, t in self.calls():
            if t.get("fname") == "branch" and any("p" in o and self.base(o["p"]) in locals_ for o in t["args"]):
                nxt = t.get("t")
                for b, adt, tg, other, place, rest in self.discr_switches():
                    if b == nxt and adt.endswith("ControlFlow"):
                        out.append((i, tg.get("Continue", other), tg.get("Break", other)))
        return out

    def without_error_edges(self):
        """Successor map with every `?`-propagation (ControlFlow::Break) edge removed."""
        succ = [list(s) for s in self.succ_nounwind]
        for b, adt, tg, other, place, rest in self.discr_switches():
            if adt.endswith("ControlFlow") and "Break" in tg:
                succ[b] = [x for x in succ[b] if x != tg["Break"] or x == tg.get("Continue")]
        return succ

    def line(self, i):
        return self.blocks[i]["term"].get("ln")


def get_cfg(crate, path):
    fn = crate.fns.get(path) or crate.closures.get(path)
    if fn is None or not fn.get("mir"):
        return None
    return Cfg(crate, fn)

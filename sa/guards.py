"""T7 GUARD-BEFORE-ACT helpers on the typed tree: which conditions is a node control-dependent on,
and does a condition (transitively through locals and local helper functions) mention a guard."""
from . import thir
from .thir import callee_of

DIVERGE = ("Return", "Break", "Continue")


def _contains(tree, node):
    return any(x is node for x in thir.walk(tree))


def _diverges(e):
    """Does expression e always leave the enclosing block (return/break/continue as its last action)?"""
    k = e.get("k")
    if k in DIVERGE:
        return True
    if k == "Block":
        if "tail" in e:
            return _diverges(e["tail"])
        return bool(e["stmts"]) and _diverges(e["stmts"][-1])
    if k == "If":
        return "else" in e and _diverges(e["then"]) and _diverges(e["else"])
    return False


def conditions_of(fa, node):
    """Yields (condition expression, kind) for every condition `node` is control-dependent on
    inside its function: kinds then/else/match/guard/early-exit/let-else/try."""
    child = node
    p = fa.parent.get(id(node))
    while p is not None:
        k = p.get("k")
        if k == "If":
            if _contains(p["then"], child) or p["then"] is child:
                yield p["cond"], "then"
            elif "else" in p and (_contains(p["else"], child) or p["else"] is child):
                yield p["cond"], "else"
        elif k == "Match":
            for arm in p["arms"]:
                if arm["body"] is child or _contains(arm["body"], child):
                    yield p["scrut"], "match"
                    if "guard" in arm:
                        yield arm["guard"], "guard"
                    for g in thir.pat_exprs(arm["pat"]):
                        yield g, "guard"
        elif k == "Logical" and p.get("op") == "And" and (p["r"] is child or _contains(p["r"], child)):
            yield p["l"], "then"
        elif k == "Block":
            for st in p["stmts"]:
                if st is child or _contains(st, child):
                    break
                if st.get("k") == "If" and "else" not in st and _diverges(st["then"]):
                    yield st["cond"], "early-exit"
                elif st.get("k") == "LetStmt" and "else" in st and "init" in st:
                    yield st["init"], "let-else"
                for n in thir.walk(st):
                    if n.get("k") == "Match" and str(n.get("src", "")).startswith("TryDesugar"):
                        yield n["scrut"], "try"
        child = p
        p = fa.parent.get(id(p))


class Mentions:
    def __init__(self, an):
        self.an = an
        self.crate = an.crate
        self._impls = None

    def impls_of(self, trait_item):
        if self._impls is None:
            self._impls = {}
            for im in self.crate.impls:
                for it in im["items"]:
                    if "trait_item" in it:
                        self._impls.setdefault(it["trait_item"], []).append(it["path"])
        return self._impls.get(trait_item, [])

    def mentions(self, fa, expr, pred, depth=3, _seen=None):
        """Does expr contain (or derive, through local variables and local helper functions, depth-bounded)
        a node satisfying pred?"""
        seen = _seen if _seen is not None else set()
        stack = [expr]
        while stack:
            e = stack.pop()
            if id(e) in seen:
                continue
            seen.add(id(e))
            k = e.get("k")
            if k is None or str(k).startswith("#"):
                continue
            if pred(e):
                return True
            if k == "Var":
                for src, pre in fa.env.get(e["var"], []):
                    if isinstance(src, dict):
                        stack.append(src)
                continue
            if k == "Call" and "fn" in e and depth > 0:
                cal = callee_of(e)
                targets = [cal] if cal in self.crate.fns else self.impls_of(e["fn"])
                for t in targets:
                    ca = self.an.fa(t)
                    if ca is not None and t not in seen:
                        seen.add(t)
                        if self.mentions(ca, thir.body_of(ca.fn), pred, depth - 1, seen):
                            return True
            if k == "Closure":
                b = e.get("body")
                if b and b.get("body"):
                    stack.append(b["body"])
                continue
            stack.extend(thir.subexprs(e))
        return False

    def guarded(self, fa, node, pred, kinds=None, depth=3):
        """Is node control-dependent on a condition that mentions pred?"""
        for cond, kind in conditions_of(fa, node):
            if kinds and kind not in kinds:
                continue
            if self.mentions(fa, cond, pred, depth):
                return True
        return False


def is_call_named(*names):
    s = set(names)
    return lambda n: n.get("k") in ("Call", "Zst") and n.get("fname") in s


def node_param_assignments(fa, fn):
    """Assignments through the node parameter of a NodeProcessor callback: `*expression = ..`,
    `*call = ..` where the place derives from parameter #1 or from a pattern binding of it."""
    out = []
    for n in thir.walk(thir.body_of(fn)):
        if n.get("k") == "Assign" and n["l"].get("k") == "Deref":
            o = fa.origins(n["l"])
            if ("#param", 1) in o:
                out.append(n)
    return out

"""std::path on Unix as pure functions on text (used by sa/peval.py).

A path value is a `PathV` (a `str` subclass): it compares component-wise like `Path == Path`, everything else treats it as
its text.  The functions follow the documentation of std::path for Unix: components() drops repeated separators, interior and
trailing `.` components and a trailing separator; `parent`, `file_name`, `extension`, `push`, `pop`, `set_extension`,
`with_file_name`, `starts_with`, `strip_prefix` are all defined through components, as std defines them.
"""


class PathV(str):
    def __eq__(self, other):
        if isinstance(other, str):
            return components(self) == components(other)
        return NotImplemented

    def __ne__(self, other):
        r = self.__eq__(other)
        return r if r is NotImplemented else not r

    def __hash__(self):
        return hash(tuple(components(self)))

    def __repr__(self):
        return "Path(%s)" % str.__repr__(self)


ROOT, CUR, PARENT = ("RootDir",), ("CurDir",), ("ParentDir",)


def components(text):
    """[('RootDir',) | ('CurDir',) | ('ParentDir',) | ('Normal', name)]"""
    text = str(text)
    out = []
    rooted = text.startswith("/")
    if rooted:
        out.append(ROOT)
    parts = [p for p in text.split("/") if p != ""]
    for i, p in enumerate(parts):
        if p == ".":
            if i == 0 and not rooted:
                out.append(CUR)
            continue
        out.append(PARENT if p == ".." else ("Normal", p))
    return out


def comp_text(c):
    return {"RootDir": "/", "CurDir": ".", "ParentDir": ".."}.get(c[0]) if c[0] != "Normal" else c[1]


def from_components(comps):
    buf = ""
    for c in comps:
        buf = push(buf, comp_text(c))
    return PathV(buf)


def push(base, p):
    base, p = str(base), str(p)
    if p.startswith("/"):
        return PathV(p)
    if base == "":
        return PathV(p)
    if base.endswith("/"):
        return PathV(base + p)
    return PathV(base + "/" + p)


def has_root(text):
    return str(text).startswith("/")


def parent(text):
    """None or the parent's text."""
    comps = components(text)
    if not comps or comps[-1] == ROOT:
        return None
    return from_components(comps[:-1])


def file_name(text):
    comps = components(text)
    if comps and comps[-1][0] == "Normal":
        return comps[-1][1]
    return None


def split_name(name):
    """(stem, extension | None) of a file name, as rsplit_file_at_dot does."""
    if name == "..":
        return name, None
    i = name.rfind(".")
    if i <= 0:
        return name, None
    return name[:i], name[i + 1:]


def file_stem(text):
    n = file_name(text)
    return None if n is None else split_name(n)[0]


def extension(text):
    n = file_name(text)
    return None if n is None else split_name(n)[1]


def pop(text):
    """(new text, popped?)"""
    p = parent(text)
    if p is None:
        return PathV(text), False
    return p, True


def set_file_name(text, name):
    if file_name(text) is not None:
        text = pop(text)[0]
    return push(text, name)


def set_extension(text, ext):
    """(new text, changed?)"""
    stem = file_stem(text)
    if stem is None:
        return PathV(text), False
    comps = components(text)
    base = from_components(comps[:-1])
    name = stem + ("." + str(ext) if str(ext) != "" else "")
    return push(base, name) if str(base) != "" else PathV(name), True


def starts_with(text, base):
    a, b = components(text), components(base)
    return a[:len(b)] == b


def ends_with(text, child):
    a, b = components(text), components(child)
    return len(b) <= len(a) and (a[len(a) - len(b):] == b)


def strip_prefix(text, base):
    a, b = components(text), components(base)
    if a[:len(b)] != b:
        return None
    return from_components(a[len(b):])


def diff_paths(path, base):
    """pathdiff::diff_paths (pathdiff 0.2): the relative path from `base` to `path`, or None."""
    if has_root(path) != has_root(base):
        return PathV(path) if has_root(path) else None
    ita, itb = components(path), components(base)
    ia = ib = 0
    comps = []
    while True:
        a = ita[ia] if ia < len(ita) else None
        b = itb[ib] if ib < len(itb) else None
        ia += 1
        ib += 1
        if a is None and b is None:
            break
        if a is not None and b is None:
            comps.append(a)
            comps.extend(ita[ia:])
            break
        if a is None:
            comps.append(PARENT)
        elif not comps and a == b:
            pass
        elif b == CUR:
            comps.append(a)
        elif b == PARENT:
            return None
        else:
            comps.append(PARENT)
            for _ in itb[ib:]:
                comps.append(PARENT)
            comps.append(a)
            comps.extend(ita[ia:])
            break
    return from_components(comps)

"""Finite-domain evaluator for *pure decision functions* (table extraction, template T4).

A decision function of the repository (`left_needs_parentheses`, `has_side_effects` on a given node shape,
a filter predicate, ...) is a pure function over a finite abstract domain: enum variants, small integers,
booleans, `Option`/`Ordering`, and AST nodes of which only the shape matters.  This module computes the value of
such a function for ONE abstract argument tuple by structural evaluation of its typed tree (THIR): `match` arms
are selected by pattern, local helper functions are inlined, accessors are resolved through the field they
return, and everything outside the modelled domain is the absorbing value UNKNOWN.  Rules enumerate the WHOLE
domain (every operator pair, every node kind, ...) and compare the resulting table with an independent
reference; nothing is sampled and no program input is involved.  An UNKNOWN cell means "not established" and
makes the rule fail closed.

The evaluator is deliberately small: no heap, no mutation except local variables, loops bounded by fuel.
"""
import re

from . import thir


class _Unknown:
    def __repr__(self):
        return "UNKNOWN"

    def __bool__(self):
        raise TypeError("UNKNOWN used as a boolean")


UNKNOWN = _Unknown()
UNIT = ("unit",)


def _own_nones(fields):
    """Field table of a new value.  Options are updated in place (`insert`, `get_or_insert_with`, `take` ...), so a value never
    holds the shared NONE object itself: each `None` field becomes an object of its own."""
    out = dict(fields or {})
    shared = globals().get("NONE")
    for k, v in out.items():
        if v is shared and shared is not None:
            out[k] = Enum("core::option::Option", "None")
    return out


class Enum:
    __slots__ = ("adt", "variant", "fields")

    def __init__(self, adt, variant, fields=None):
        self.adt, self.variant, self.fields = adt, variant, _own_nones(fields)

    def __eq__(self, o):
        return isinstance(o, Enum) and (self.adt, self.variant, self.fields) == (o.adt, o.variant, o.fields)

    def __hash__(self):
        return hash((self.adt, self.variant))

    def __repr__(self):
        return "%s::%s%s" % (self.adt.split("::")[-1], self.variant, self.fields or "")


class Struct:
    __slots__ = ("adt", "fields")

    def __init__(self, adt, fields=None):
        self.adt, self.fields = adt, _own_nones(fields)

    def __eq__(self, o):
        return isinstance(o, Struct) and (self.adt, self.fields) == (o.adt, o.fields)

    def __hash__(self):
        return hash(self.adt)

    def __repr__(self):
        return "%s%s" % (self.adt.split("::")[-1], self.fields)


class Closure:
    def __init__(self, node, env):
        self.node, self.env = node, env


class Ref:
    """A mutable place holding a scalar: (container dict / list, key).  Structs, enums and lists are shared objects already."""
    __slots__ = ("c", "k")

    def __init__(self, c, k):
        self.c, self.k = c, k

    def get(self):
        try:
            return self.c[self.k]
        except (KeyError, IndexError):
            return UNKNOWN

    def set(self, v):
        self.c[self.k] = v


def deref(v):
    while isinstance(v, Ref):
        v = v.get()
    return v


class _Rev:
    """sort key wrapper for core::cmp::Reverse"""
    def __init__(self, v):
        self.v = v

    def __lt__(self, o):
        return o.v < self.v

    def __gt__(self, o):
        return o.v > self.v

    def __le__(self, o):
        return o.v <= self.v

    def __ge__(self, o):
        return o.v >= self.v

    def __eq__(self, o):
        return isinstance(o, _Rev) and o.v == self.v

    def __hash__(self):
        return hash(self.v)


def _sortable(v):
    """A Python-comparable image of a sort key (ints, text, tuples, Reverse, Option); TypeError when there is none."""
    v = deref(v) if not isinstance(v, (int, str, tuple)) else v
    if v is UNKNOWN:
        raise TypeError("unknown key")
    if isinstance(v, tuple):
        return tuple(_sortable(x) for x in v)
    if isinstance(v, Struct) and v.adt.endswith("cmp::Reverse"):
        return _Rev(_sortable(v.fields.get("0", UNKNOWN)))
    if isinstance(v, Enum) and v.adt == OPTION:
        return (0,) if v.variant == "None" else (1, _sortable(v.fields.get("0", UNKNOWN)))
    if isinstance(v, (Struct, Enum, list, dict)):
        raise TypeError("no order on %r" % (v,))
    return v


class Iter:
    """Iterator state over a list value (the only heap object of the evaluator)."""
    def __init__(self, items):
        self.items, self.i = list(items), 0

    def __deepcopy__(self, memo):
        # cloning an iterator copies its cursor, not the elements it walks over
        c = Iter(self.items)
        c.i = self.i
        return c

    def rest(self):
        return self.items[self.i:]


class PyMap:
    """HashMap / BTreeMap / IndexMap model: insertion-ordered (rules permute insertion order to test order independence)."""
    def __init__(self, items=None, sorted_=False):
        self.d = dict(items or [])
        self.sorted = sorted_

    def items(self):
        it = list(self.d.items())
        return sorted(it, key=lambda kv: kv[0]) if self.sorted else it

    def __eq__(self, o):
        return isinstance(o, PyMap) and self.d == o.d

    def __hash__(self):
        return 0

    def __repr__(self):
        return "Map%s" % (self.d,)


class PySet:
    def __init__(self, items=None, sorted_=False):
        self.d = dict.fromkeys(items or [])
        self.sorted = sorted_

    def items(self):
        it = list(self.d)
        return sorted(it) if self.sorted else it

    def __eq__(self, o):
        return isinstance(o, PySet) and set(self.d) == set(o.d)

    def __hash__(self):
        return 0

    def __repr__(self):
        return "Set%s" % (list(self.d),)


MAP_TYPES = ("::hash::map::HashMap", "::btree::map::BTreeMap", "indexmap::map::IndexMap")
SET_TYPES = ("::hash::set::HashSet", "::btree::set::BTreeSet", "indexmap::set::IndexSet")
RANGE = "core::ops::range::Range"


class FnItem:
    def __init__(self, path):
        self.path = path


class Native:
    """A callable supplied by the rule (stands for an opaque closure / predicate argument)."""
    def __init__(self, f):
        self.f = f


ORDERING = "core::cmp::Ordering"
RESULT = "core::result::Result"
CONTROL_FLOW = "core::ops::control_flow::ControlFlow"


def ok(v):
    return Enum(RESULT, "Ok", {"0": v})


def err(v):
    return Enum(RESULT, "Err", {"0": v})

OPTION = "core::option::Option"


def some(v):
    return Enum(OPTION, "Some", {"0": v})


NONE = Enum(OPTION, "None")


def none():
    """a `None` of its own, for a field that the evaluated code may update in place"""
    return Enum(OPTION, "None")


def ordering(a, b):
    return Enum(ORDERING, "Less" if a < b else ("Greater" if a > b else "Equal"))


def make(lib, adt, overrides=None, depth=3):
    """Abstract struct value for `adt` built from the ADT metadata: Vec -> [], Option -> None, bool -> false, integers -> 0,
    String -> "", nested structs recursively (bounded), anything else UNKNOWN; `overrides` sets the fields a scenario is about."""
    a = lib.adts.get(adt)
    fields = {}
    if a is not None and a.get("kind") == "struct":
        for f in a["variants"][0]["fields"]:
            fields[f["name"]] = _default_for(lib, f.get("tys", ""), depth)
    for k, v in (overrides or {}).items():
        fields[k] = v
    return Struct(adt, fields)


def _default_for(lib, tys, depth):
    t = tys
    while t.startswith(("alloc::boxed::Box<", "&")):
        t = t[len("alloc::boxed::Box<"):-1] if t.startswith("alloc::boxed::Box<") else t[1:]
    if t.startswith(("alloc::vec::Vec<", "alloc::collections::vec_deque::VecDeque<")):
        return []
    if t.startswith("core::option::Option<"):
        return Enum(OPTION, "None")
    if t == "bool":
        return False
    if re.fullmatch(r"[iu](8|16|32|64|128|size)", t):
        return 0
    if t in ("alloc::string::String", "str"):
        return ""
    a = lib.adts.get(t.split("<")[0])
    if a is not None and a.get("kind") == "struct" and depth > 0:
        return make(lib, t.split("<")[0], None, depth - 1)
    return UNKNOWN


class _Ret(Exception):
    def __init__(self, v):
        self.v = v


class _Brk(Exception):
    def __init__(self, v):
        self.v = v


class _Cont(Exception):
    pass


class Panic(Exception):
    """raised (only when PEval.panics is set) where the evaluated code would panic: unwrap/expect of None/Err, panic!, unreachable!"""


class OutOfFuel(Exception):
    pass


PASS = ("Borrow", "Deref", "Coerce", "Use", "Scope", "NeverToAny", "ByUse", "RawBorrow", "Binder")
IDENTITY_CALLS = {"must_use", "black_box", "clone", "borrow", "as_ref", "deref", "as_deref", "to_owned", "by_ref", "as_mut", "deref_mut", "borrow_mut", "copied", "cloned", "as_slice", "as_mut_slice", "peekable", "fuse", "as_str", "as_bytes_mut", "as_mut_str", "to_string", "to_vec"}
ITER_CALLS = {"iter", "into_iter", "iter_mut", "drain"}


class PEval:
    def __init__(self, lib, an, hook=None, max_depth=16, fuel=50000):
        self.lib, self.an, self.hook = lib, an, hook
        self.max_depth, self.fuel = max_depth, fuel
        self._impl_cache = {}
        self._self_stack = []      # implementor types of the trait calls being evaluated (`Self` inside provided methods)
        self._accessor_copies = False
        self.panics = False      # set by rules that decide panic-freedom: a definite panic raises Panic instead of yielding UNKNOWN
        self.unknown_reasons = []

    # -------------------------------------------------------------------------------------------------
    def unknown(self, why):
        if len(self.unknown_reasons) < 20:
            self.unknown_reasons.append(why)
        return UNKNOWN

    def call_path(self, path, args, depth=0):
        fn = self.lib.fn(path)
        if fn is None or not thir.body_of(fn):
            return self.unknown("no body for " + path)
        return self.call_fn(fn, args, depth)

    def _local_next(self, adt):
        """the crate's own `Iterator::next` for an ADT (impls may carry generic / lifetime parameters), or None"""
        key = ("next", adt)
        if key not in self._impl_cache:
            found = self.lib.fn("<%s as core::iter::traits::iterator::Iterator>::next" % adt)
            if found is None:
                pre = "<" + adt + "<"
                found = next((f for k_, f in self.lib.fns.items() if k_.startswith(pre) and k_.endswith(" as core::iter::traits::iterator::Iterator>::next")), None)
            self._impl_cache[key] = found if found is not None and thir.body_of(found) else None
        return self._impl_cache[key]

    def call_method(self, trait, name, args, depth=0):
        """Call a trait method on an abstract receiver: the impl of the receiver's type, else the trait's provided body."""
        recv = deref(args[0]) if args else None
        adt = recv.adt if isinstance(recv, (Struct, Enum)) else None
        for path in (["<%s as %s>::%s" % (adt, trait, name), "<&mut %s as %s>::%s" % (adt, trait, name), "<&%s as %s>::%s" % (adt, trait, name)] if adt else []) + ["%s::%s" % (trait, name)]:
            fn = self.lib.fn(path)
            if fn is not None and thir.body_of(fn):
                return self.call_fn(fn, args, depth)
        return self.unknown("no body for %s::%s" % (trait, name))

    def call_fn(self, fn, args, depth=0):
        if depth > self.max_depth:
            return self.unknown("inlining depth")
        env = {}
        params = fn["thir"].get("params", [])
        for i, p in enumerate(params):
            if "pat" in p and i < len(args):
                if self.match(p["pat"], args[i], env) is not True:
                    return self.unknown("parameter pattern")
        try:
            return self.ev(fn["thir"]["body"], env, depth)
        except _Ret as r:
            return r.v

    # -------------------------------------------------------------------------------------------------
    def match(self, p, v, env, place=None):
        """True / False / UNKNOWN; binds into env on the way.  `place` = (container, key) of v when it sits in a field,
        so that a by-reference binding of a scalar can be written through."""
        k = p.get("k")
        if isinstance(v, Ref) and k not in ("Wild", "Bind"):
            place = (v.c, v.k)
            v = deref(v)
        if k == "Wild":
            return True
        if k == "Bind":
            if "sub" in p:
                r = self.match(p["sub"], v, env, place)
                if r is not True:
                    return r
            if p.get("byref") and place is not None and not isinstance(v, (Struct, Enum, list, Ref)):
                env[p["var"]] = Ref(place[0], place[1])
            else:
                env[p["var"]] = v
            return True
        if k in ("Deref", "DerefPattern"):
            return self.match(p["sub"], v, env, place)
        if k == "Guard":
            return self.match(p["sub"], v, env, place)
        if k == "Or":
            unk = False
            for s in p["subs"]:
                r = self.match(s, v, env, place)
                if r is True:
                    return True
                if r is UNKNOWN:
                    unk = True
            return UNKNOWN if unk else False
        if v is UNKNOWN:
            return UNKNOWN
        if k == "Variant":
            if not isinstance(v, Enum):
                return UNKNOWN
            if v.adt != p["adt"] and p["adt"].split("::")[-1] != v.adt.split("::")[-1]:
                return UNKNOWN
            if v.variant != p["variant"]:
                return False
            res = True
            for s in p["subs"]:
                fv = v.fields.get(s["f"], UNKNOWN)
                r = self.match(s["p"], fv, env, (v.fields, s["f"]))
                if r is False:
                    return False
                if r is UNKNOWN:
                    res = UNKNOWN
            return res
        if k == "Leaf":
            res = True
            for s in p["subs"]:
                pl = None
                if isinstance(v, (Struct, Enum)):
                    fv = v.fields.get(s["f"], UNKNOWN)
                    pl = (v.fields, s["f"])
                elif isinstance(v, tuple) and v is not UNIT and str(s["f"]).isdigit() and int(s["f"]) < len(v):
                    fv = v[int(s["f"])]
                else:
                    fv = UNKNOWN
                r = self.match(s["p"], fv, env, pl)
                if r is False:
                    return False
                if r is UNKNOWN:
                    res = UNKNOWN
            return res
        if k == "Slice":
            seq = v.rest() if isinstance(v, Iter) else v
            if isinstance(seq, (str, bytes)):
                seq = [ord(c) for c in seq] if isinstance(seq, str) else list(seq)
            if not isinstance(seq, list) or "np" not in p:
                return UNKNOWN
            subs, np_, rest = p["subs"], p["np"], p.get("rest")
            ns = len(subs) - np_ - (1 if rest else 0)
            if (rest and len(seq) < np_ + ns) or (not rest and len(seq) != len(subs)):
                return False
            res = True
            parts = [(subs[i], seq[i]) for i in range(np_)]
            if rest:
                parts.append((subs[np_], seq[np_:len(seq) - ns]))
            parts += [(subs[len(subs) - ns + i], seq[len(seq) - ns + i]) for i in range(ns)]
            for sp, sv in parts:
                r = self.match(sp, sv, env)
                if r is False:
                    return False
                if r is UNKNOWN:
                    res = UNKNOWN
            return res
        if k == "Const":
            c = self.const_of(p)
            if c is UNKNOWN:
                return UNKNOWN
            if isinstance(c, str) and isinstance(v, list) and all(isinstance(x, int) for x in v):
                return v == [ord(ch) for ch in c]
            return v == c
        if k == "Range":
            if not isinstance(v, int) or isinstance(v, bool):
                return UNKNOWN
            lo, hi = int(p["lo"]), int(p["hi"])
            return lo <= v <= hi if p.get("incl") else lo <= v < hi
        return UNKNOWN

    def const_of(self, p):
        v = p.get("v")
        if v in ("true", "false"):
            return v == "true"
        s = thir.const_str(v) if isinstance(v, str) else None
        if s is not None:
            return s
        if "bits" in p:
            try:
                return int(p["bits"])
            except (TypeError, ValueError):
                pass
        if isinstance(v, str) and re.fullmatch(r"-?\d+(_?[iu]\d+|_?[iu]size)?", v):
            return int(re.match(r"-?\d+", v).group(0))
        return UNKNOWN

    # -------------------------------------------------------------------------------------------------
    def lit(self, e):
        v = e.get("v")
        if v in ("true", "false"):
            return v == "true"
        if isinstance(v, str):
            m = re.fullmatch(r"Byte\((\d+)\)", v)
            if m:
                return int(m.group(1))
            m = re.fullmatch(r'Float\("([^"]+)".*\)', v)
            if m:
                try:
                    return float(m.group(1).replace("_", ""))
                except ValueError:
                    pass
            if v.startswith("ByteStr(["):
                return [int(t) for t in re.findall(r"\d+", v.split("]")[0])]
            m = re.fullmatch(r"(-?\d+)(_?[iu](\d+|size))?", v)
            if m:
                return int(m.group(1))
            m = re.fullmatch(r"Int\((\d+).*\)", v)
            if m:
                return int(m.group(1))
            s = thir.lit_str(e)
            if s is not None:
                return s
            if len(v) >= 2 and v[0] == '"' and v[-1] == '"':
                return v[1:-1]
            if len(v) >= 3 and v[0] == "'" and v[-1] == "'":
                try:
                    import ast
                    c = ast.literal_eval(v.replace("\\u{", "\\u{")) if "\\u{" not in v else chr(int(v[4:-2], 16))
                    if isinstance(c, str) and len(c) == 1:
                        return ord(c)  # chars are code points (so that range patterns and class tests apply)
                except (ValueError, SyntaxError):
                    pass
        return self.unknown("literal %r" % (v,))

    def truth(self, v):
        return v if isinstance(v, bool) else UNKNOWN

    def ev(self, e, env, depth=0):
        self.fuel -= 1
        if self.fuel < 0:
            raise OutOfFuel()
        k = e.get("k")
        if k == "Deref":
            return deref(self.ev(e["e"], env, depth))
        if k in ("Borrow", "RawBorrow") and e.get("mut"):
            r = self.place_ref(e["e"], env, depth)
            if r is not None:
                return r
            return self.ev(e["e"], env, depth)
        if k == "Cast":
            v = self.ev(e["e"], env, depth)
            dv = deref(v)
            if isinstance(dv, (int, float)) and "t" in e:
                to = self.lib.ty_str(e["t"])
                frm = self.lib.ty_str(e["e"]["t"]) if "t" in e["e"] else ""
                m_ = re.fullmatch(r"([iu])(8|16|32|64|128|size)", to)
                if to in ("f64", "f32") and not isinstance(dv, bool):
                    return float(dv)
                if m_ and isinstance(dv, float):
                    import math
                    bits = 64 if m_.group(2) == "size" else int(m_.group(2))
                    lo_, hi_ = (-(1 << (bits - 1)), (1 << (bits - 1)) - 1) if m_.group(1) == "i" else (0, (1 << bits) - 1)
                    return 0 if math.isnan(dv) else (hi_ if dv >= hi_ else (lo_ if dv <= lo_ else int(dv)))
                if m_ and isinstance(dv, bool):
                    return int(dv)
                if m_ and isinstance(dv, int) and frm != "char" and re.fullmatch(r"[iu](8|16|32|64|128|size)", frm or ""):
                    bits = 64 if m_.group(2) == "size" else int(m_.group(2))
                    w = dv & ((1 << bits) - 1)
                    return w - (1 << bits) if m_.group(1) == "i" and w >> (bits - 1) else w
            return v
        if k in PASS:
            return self.ev(e["e"], env, depth)
        if k == "Lit":
            return self.lit(e)
        if k == "Var":
            return env.get(e["var"], UNKNOWN)
        if k == "Block":
            for st in e["stmts"]:
                self.ev(st, env, depth)
            if "tail" in e:
                return self.ev(e["tail"], env, depth)
            return UNIT
        if k == "LetStmt":
            if "init" not in e:
                for var, name, pre, ty in thir.pat_bindings(e["pat"]):
                    env[var] = UNKNOWN
                return UNIT
            v = self.ev(e["init"], env, depth)
            r = self.match(e["pat"], v, env)
            if r is True:
                return UNIT
            if e.get("else"):
                if r is False:
                    els = e["else"]
                    for x in (els if isinstance(els, list) else [els]):
                        self.ev(x, env, depth)
                    return self.unknown("let-else block fell through")
                raise _Ret(self.unknown("let-else on unknown value"))
            for var, name, pre, ty in thir.pat_bindings(e["pat"]):
                env.setdefault(var, UNKNOWN)
            return UNIT
        if k == "If":
            c = self.cond(e["cond"], env, depth)
            if c is True:
                return self.ev(e["then"], env, depth)
            if c is False:
                return self.ev(e["else"], env, depth) if "else" in e else UNIT
            raise _Ret(self.unknown("branch on unknown condition at line %s" % e.get("ln")))
        if k == "Let":
            return self.cond(e, env, depth)
        if k == "Match":
            v = self.ev(e["scrut"], env, depth)
            if isinstance(v, Ref) and isinstance(v.get(), (Struct, Enum, list)):
                v = v.get()
            src = str(e.get("src", ""))
            for arm in e["arms"]:
                sub = dict(env)
                r = self.match(arm["pat"], v, sub)
                if r is UNKNOWN:
                    raise _Ret(self.unknown("match on unknown value at line %s" % e.get("ln")))
                if r is False:
                    continue
                if "guard" in arm:
                    g = self.cond(arm["guard"], sub, depth)
                    if g is UNKNOWN:
                        raise _Ret(self.unknown("unknown match guard at line %s" % e.get("ln")))
                    if g is False:
                        continue
                env.update(sub)
                return self.ev(arm["body"], env, depth)
            return self.unknown("no arm matched (%s) at line %s" % (src, e.get("ln")))
        if k == "Logical":
            l = self.truth(self.ev(e["l"], env, depth))
            if e["op"] == "And":
                if l is False:
                    return False
                r = self.truth(self.ev(e["r"], env, depth))
                if r is False and l is UNKNOWN:
                    return False
                return r if l is True else UNKNOWN
            if l is True:
                return True
            r = self.truth(self.ev(e["r"], env, depth))
            if r is True and l is UNKNOWN:
                return True
            return r if l is False else UNKNOWN
        if k == "Unary":
            v = self.ev(e["e"], env, depth)
            if v is UNKNOWN:
                return UNKNOWN
            if e.get("op") == "Not":
                return (not v) if isinstance(v, bool) else UNKNOWN
            if e.get("op") == "Neg" and isinstance(v, int):
                return -v
            return UNKNOWN
        if k == "Binary":
            l, r = deref(self.ev(e["l"], env, depth)), deref(self.ev(e["r"], env, depth))
            return self.binop(e.get("op"), l, r)
        if k == "Return":
            raise _Ret(self.ev(e["e"], env, depth) if "e" in e else UNIT)
        if k == "Break":
            raise _Brk(self.ev(e["e"], env, depth) if "e" in e else UNIT)
        if k == "Continue":
            raise _Cont()
        if k == "Loop":
            for _ in range(256):
                try:
                    self.ev(e["body"], env, depth)
                except _Brk as b:
                    return b.v
                except _Cont:
                    continue
            return self.unknown("loop bound")
        if k == "Assign":
            v = deref(self.ev(e["r"], env, depth))
            self.store(e["l"], v, env, depth)
            return UNIT
        if k == "AssignOp":
            cur = deref(self.ev(e["l"], env, depth))
            op = str(e.get("op", "")).replace("Assign", "")
            self.store(e["l"], self.binop(op, cur, deref(self.ev(e["r"], env, depth))), env, depth)
            return UNIT
        if k == "Tuple":
            return tuple(self.ev(x, env, depth) for x in e["es"]) if e["es"] else UNIT
        if k == "Array":
            return [self.ev(x, env, depth) for x in e["es"]]
        if k == "Repeat":
            # `[x; N]`: N is in the type (`[T; N]`)
            m_ = re.search(r"; (\d+)\]$", self.lib.ty_str(e["t"])) if "t" in e else None
            if m_ and int(m_.group(1)) <= 4096:
                v_ = self.ev(e["e"], env, depth)
                return [v_] * int(m_.group(1)) if isinstance(v_, (int, float, str, bool)) else self.unknown("array repeat of an object")
            # the length is not in the facts: an opaque buffer (only its use as scratch space, e.g. for encode_utf8, is supported)
            return Struct("#Array", {"fill": self.ev(e["e"], env, depth)})
        if k == "Adt":
            fields = {f["f"]: self.ev(f["e"], env, depth) for f in e["fields"]}
            if str(e["adt"]).endswith("borrow::Cow") and "0" in fields:
                return fields["0"]          # Cow is transparent: owned and borrowed text are the same text
            if "variant" in e and e.get("variant") is not None and self.is_enum(e["adt"]):
                return Enum(e["adt"], e["variant"], fields)
            return Struct(e["adt"], fields)
        if k == "Field":
            v = deref(self.ev(e["e"], env, depth))
            f = e.get("f", e.get("name"))
            if isinstance(v, (Struct, Enum)):
                return v.fields.get(str(f), UNKNOWN)
            if isinstance(v, tuple) and v is not UNIT and str(f).isdigit() and int(f) < len(v):
                return v[int(f)]
            return UNKNOWN
        if k == "Const":
            if str(e.get("def", "")).startswith("log::"):
                return Struct("#log", {})     # the logging facade: levels are never observed by a property
            cdef = str(e.get("def", ""))
            m_ = re.fullmatch(r"core::(?:f64|f32)::(?:<impl f(?:64|32)>::)?([A-Z_0-9]+)", cdef)
            if m_ and ("f64" in cdef):
                import sys as _sys
                import math as _math
                F64 = {"MIN_POSITIVE": _sys.float_info.min, "MAX": _sys.float_info.max, "MIN": -_sys.float_info.max, "EPSILON": _sys.float_info.epsilon,
                       "INFINITY": _math.inf, "NEG_INFINITY": -_math.inf, "NAN": _math.nan, "DIGITS": 15, "MANTISSA_DIGITS": 53, "RADIX": 2,
                       "MAX_EXP": 1024, "MIN_EXP": -1021, "MAX_10_EXP": 308, "MIN_10_EXP": -307}
                if m_.group(1) in F64:
                    return F64[m_.group(1)]
            m_ = re.fullmatch(r"core::num::<impl ([iu])(8|16|32|64|128|size)>::(MAX|MIN|BITS)", cdef)
            if m_:
                bits = 64 if m_.group(2) == "size" else int(m_.group(2))
                if m_.group(3) == "BITS":
                    return bits
                if m_.group(1) == "u":
                    return (1 << bits) - 1 if m_.group(3) == "MAX" else 0
                return (1 << (bits - 1)) - 1 if m_.group(3) == "MAX" else -(1 << (bits - 1))
            c = self.lib.consts.get(e.get("def", "")) if hasattr(self.lib, "consts") else None
            if c is not None and c.get("thir") and c["thir"].get("body"):
                try:
                    return self.ev(c["thir"]["body"], {}, depth + 1)
                except _Ret as r:
                    return r.v
            return self.unknown("constant " + str(e.get("def")))
        if k == "Index":
            obj = deref(self.ev(e["e"], env, depth))
            i = deref(self.ev(e["i"], env, depth))
            if isinstance(obj, Iter):
                obj = obj.rest()
            if isinstance(obj, list) and isinstance(i, int) and 0 <= i < len(obj):
                return obj[i]
            return self.unknown("index")
        if k == "Closure":
            return Closure(e, env)
        if k == "Zst":
            if "fn" in e:
                return FnItem(e["fn"])
            return UNIT
        if k == "Call":
            return self.call(e, env, depth)
        return self.unknown("unsupported node " + str(k))

    def place_ref(self, e, env, depth):
        """Ref for `&mut <place>` when the place holds a scalar (objects are shared already); None otherwise."""
        while e.get("k") in ("Use", "Scope"):
            e = e["e"]
        k = e.get("k")
        if k == "Var":
            v = env.get(e["var"], UNKNOWN)
            if isinstance(v, (Struct, Enum, list, Ref, Iter)) or v is UNKNOWN:
                return None
            return Ref(env, e["var"])
        if k == "Deref":
            inner = self.ev(e["e"], env, depth)
            if isinstance(inner, Ref):
                return inner
            return None
        if k == "Field":
            obj = deref(self.ev(e["e"], env, depth))
            f = str(e.get("f", e.get("name")))
            if isinstance(obj, (Struct, Enum)):
                cur = obj.fields.get(f, UNKNOWN)
                if isinstance(cur, (Struct, Enum, list, Iter)):
                    return None
                return Ref(obj.fields, f)
        return None

    def store(self, l, v, env, depth):
        while l.get("k") in ("Use", "Scope", "Borrow", "Coerce"):
            l = l["e"]
        k = l.get("k")
        if k == "Var":
            cur = env.get(l["var"])
            env[l["var"]] = v
            return
        if k == "Deref":
            inner = self.ev(l["e"], env, depth)
            if isinstance(inner, Ref):
                inner.set(v)
                return
            inner = deref(inner)
            if isinstance(v, Struct) and v.adt == "#Into" and isinstance(inner, (Struct, Enum)) and not inner.adt.startswith("#"):
                # `*place = x.into()` with a generic target: the place's own type says which `From` impl runs
                src_ = v.fields["v"]
                cand = self.lib.fn("<%s as core::convert::From<%s>>::from" % (inner.adt, src_.adt)) if isinstance(src_, (Struct, Enum)) else None
                v = self.call_fn(cand, [src_], depth + 1) if cand is not None and thir.body_of(cand) else (src_ if isinstance(src_, type(inner)) and src_.adt == inner.adt else UNKNOWN)
            if isinstance(inner, (Struct, Enum)) and isinstance(v, type(inner)):
                # `*self = value`: overwrite the shared object in place
                if isinstance(inner, Enum):
                    inner.adt, inner.variant = v.adt, v.variant
                inner.fields = dict(v.fields)
                return
            if isinstance(inner, list) and isinstance(v, list):
                inner[:] = v
                return
            self.unknown("store through unknown reference")
            return
        if k == "Field":
            obj = deref(self.ev(l["e"], env, depth))
            if isinstance(obj, (Struct, Enum)):
                obj.fields[str(l.get("f", l.get("name")))] = v
                return
            self.unknown("store to a field of an unknown value")
            return
        if k == "Index":
            obj = deref(self.ev(l["e"], env, depth))
            i = deref(self.ev(l["i"], env, depth))
            if isinstance(obj, list) and isinstance(i, int) and 0 <= i < len(obj):
                obj[i] = v
                return
        self.unknown("store to unsupported place " + str(k))

    def is_enum(self, adt):
        a = self.lib.adts.get(adt)
        if a is not None:
            return a.get("kind") == "enum"
        return adt in (OPTION, ORDERING, RESULT, CONTROL_FLOW, "core::num::FpCategory")

    def cond(self, e, env, depth):
        while e.get("k") in PASS:
            e = e["e"]
        if e.get("k") == "Let":
            v = self.ev(e["e"], env, depth)
            return self.match(e["pat"], v, env)
        if e.get("k") == "Logical":
            l = self.cond(e["l"], env, depth)
            if e["op"] == "And":
                if l is False:
                    return False
                if l is UNKNOWN:
                    return UNKNOWN
                return self.cond(e["r"], env, depth)
            if l is True:
                return True
            if l is UNKNOWN:
                return UNKNOWN
            return self.cond(e["r"], env, depth)
        return self.truth(self.ev(e, env, depth))

    def binop(self, op, l, r):
        if l is UNKNOWN or r is UNKNOWN:
            return UNKNOWN
        try:
            if op == "Eq":
                return l == r
            if op == "Ne":
                return l != r
            if isinstance(l, (int, str)) and isinstance(r, (int, str)) and type(l) is type(r):
                if op == "Lt":
                    return l < r
                if op == "Le":
                    return l <= r
                if op == "Gt":
                    return l > r
                if op == "Ge":
                    return l >= r
            num = lambda x: isinstance(x, (int, float)) and not isinstance(x, bool)
            if num(l) and num(r) and (isinstance(l, float) or isinstance(r, float)):
                l, r = float(l), float(r)
            if isinstance(l, float) and isinstance(r, float):
                if op in ("Lt", "Le", "Gt", "Ge"):
                    return {"Lt": l < r, "Le": l <= r, "Gt": l > r, "Ge": l >= r}[op]
                if op in ("Add", "Sub", "Mul"):
                    return {"Add": l + r, "Sub": l - r, "Mul": l * r}[op]
                if op == "Div":
                    import math
                    if r != 0:
                        try:
                            return l / r
                        except OverflowError:
                            return math.copysign(math.inf, l) * math.copysign(1.0, r)
                    if l == 0 or math.isnan(l):
                        return math.nan
                    return math.copysign(math.inf, l) * math.copysign(1.0, r)
            if isinstance(l, int) and isinstance(r, int) and not isinstance(l, bool) and not isinstance(r, bool):
                if op == "Add":
                    return l + r
                if op == "Sub":
                    return l - r
                if op == "Mul":
                    return l * r
                if op == "BitAnd":
                    return l & r
                if op == "BitOr":
                    return l | r
                if op == "BitXor":
                    return l ^ r
                if op == "Shl" and 0 <= r < 128:
                    return l << r
                if op == "Shr" and 0 <= r < 128:
                    return l >> r
                if op == "Div" and r != 0:
                    return abs(l) // abs(r) * (1 if (l >= 0) == (r >= 0) else -1)
                if op == "Rem" and r != 0:
                    return l - r * (abs(l) // abs(r) * (1 if (l >= 0) == (r >= 0) else -1))
            if isinstance(l, bool) and isinstance(r, bool):
                if op == "BitAnd":
                    return l and r
                if op == "BitOr":
                    return l or r
                if op == "BitXor":
                    return l != r
        except TypeError:
            pass
        return UNKNOWN

    # -------------------------------------------------------------------------------------------------
    def apply(self, f, args, depth):
        if isinstance(f, Closure):
            b = f.node.get("body") or {}
            env = dict(f.env)
            # params[0] of a closure body is the closure environment itself (no pattern)
            pats = [p["pat"] for p in b.get("params", []) if "pat" in p]
            for i, pt in enumerate(pats):
                if i < len(args):
                    self.match(pt, args[i], env)
            if not b.get("body"):
                return UNKNOWN
            try:
                return self.ev(b["body"], env, depth + 1)
            except _Ret as r:
                return r.v
        if isinstance(f, FnItem):
            return self.call_named(f.path, f.path.split("::")[-1], args, None, depth + 1)
        if isinstance(f, Native):
            return f.f(*[deref(a) for a in args])
        return UNKNOWN

    def call(self, e, env, depth):
        args = [self.ev(a, env, depth) for a in e["args"]]
        path = thir.callee_of(e) or e.get("fn") or ""
        if str(e.get("fn", "")).startswith("core::ops::function::Fn") and "{closure#" in path:
            path = e["fn"]       # calling a closure held in a variable: apply the VALUE, not the resolved body
        fname = e.get("fname") or path.split("::")[-1]
        if "fn" not in e and "fun" in e:
            f = self.ev(e["fun"], env, depth)
            return self.apply(f, args, depth)
        # static dispatch on `Self` of a trait call whose implementor is not among the arguments (`DefaultVisitor::visit_block(..)`,
        # `Self::visit_statement(..)` inside a provided method): the implementor's own override, if it has one
        pushed = False
        if e.get("trait") and e.get("gargs") and "resolved" not in e and not path.startswith("<"):
            st = self.lib.ty_str(e["gargs"][0])
            if st == "Self":
                st = self._self_stack[-1] if self._self_stack else None
            if st and "::" in st:
                base = st.split("<", 1)[0]
                key = ("#self", base, e["trait"], fname)
                if key not in self._impl_cache:
                    pre, suf = "<%s" % base, ">::%s" % fname
                    mid = " as %s" % e["trait"]
                    self._impl_cache[key] = next((f for k_, f in self.lib.fns.items() if k_.startswith(pre) and k_.endswith(suf) and mid in k_
                                                  and k_[len(pre)] in "< " and thir.body_of(f)), None)
                over = self._impl_cache[key]
                if over is not None:
                    path = over["path"]
                self._self_stack.append(st)
                pushed = True
        try:
            return self.call_named(path, fname, args, e, depth)
        finally:
            if pushed:
                self._self_stack.pop()

    def call_named(self, path, fname, args, node, depth):
        if self.hook is not None:
            r = self.hook(self, path, fname, [deref(a) for a in args], node)
            if r is not NotImplemented:
                return r
        # ---- OnceLock / OnceCell / LazyCell-like cells: a write-once place --------------------------------
        if ("OnceLock" in path or "OnceCell" in path) and "sync::once_lock" in path or "cell::once" in path:
            c0 = deref(args[0]) if args else None
            if fname in ("new", "default") and not args:
                return Struct("#Once", {"set": False, "v": UNKNOWN})
            if isinstance(c0, Struct) and c0.adt == "#Once":
                if fname in ("get_or_init",) and len(args) == 2:
                    if not c0.fields["set"]:
                        c0.fields["v"] = self.apply(args[1], [], depth + 1)
                        c0.fields["set"] = True
                    return c0.fields["v"]
                if fname == "get" and len(args) == 1:
                    return some(c0.fields["v"]) if c0.fields["set"] else NONE
                if fname == "set" and len(args) == 2:
                    if c0.fields["set"]:
                        return err(args[1])
                    c0.fields["v"], c0.fields["set"] = args[1], True
                    return ok(UNIT)
                if fname == "take" and len(args) == 1:
                    v_ = some(c0.fields["v"]) if c0.fields["set"] else NONE
                    c0.fields["set"], c0.fields["v"] = False, UNKNOWN
                    return v_
        # tuple-variant / tuple-struct constructors used as functions (`.map(Some)`, `.map(Statement::Call)`)
        if path in ("alloc::borrow::Cow::Owned", "alloc::borrow::Cow::Borrowed") and len(args) == 1:
            return deref(args[0])         # Cow is transparent
        if path in ("core::option::Option::Some", "core::result::Result::Ok", "core::result::Result::Err") and len(args) == 1:
            return {"Some": some, "Ok": ok, "Err": err}[fname](deref(args[0]))
        if "::" in path and not path.startswith("<") and self.lib.fn(path) is None:
            owner = path.rsplit("::", 1)[0]
            adt_ = self.lib.adts.get(owner)
            if adt_ is not None and adt_.get("kind") == "enum":
                for v_ in adt_.get("variants", []):
                    if v_["name"] == fname and len(v_["fields"]) == len(args) and all(f["name"].isdigit() for f in v_["fields"]):
                        return Enum(owner, fname, {str(i_): deref(a) if not isinstance(deref(a), (str, int, bool)) else deref(a) for i_, a in enumerate(args)})
        if self.panics and (path.startswith("core::panicking::") or path.startswith("std::rt::begin_panic") or path.startswith("std::panicking::")):
            raise Panic(fname)
        if path.startswith("log::") or path.startswith("<log::"):
            # `log::trace!(..)` and friends: logging is switched off in the model (`lvl <= STATIC_MAX_LEVEL` is false)
            return False if fname in ("le", "lt", "ge", "gt", "eq", "enabled", "log_enabled") else (Struct("#log", {}) if fname == "max_level" else UNIT)
        if fname in ("le", "lt", "ge", "gt") and len(args) == 2 and any(isinstance(deref(a), Struct) and deref(a).adt == "#log" for a in args):
            return False
        # Clone / PartialEq are structural whatever their (usually derived) bodies look like
        if fname in ("clone", "to_owned") and len(args) == 1 and ("Clone" in path or "ToOwned" in path or "clone::" in path):
            import copy
            v0 = deref(args[0])
            return copy.deepcopy(v0) if isinstance(v0, (Struct, Enum, list, Iter, PyMap, PySet)) else v0
        if fname in ("eq", "ne") and len(args) == 2 and ("PartialEq" in path or "cmp::" in path):
            l_, r_ = deref(args[0]), deref(args[1])
            if isinstance(l_, str) and isinstance(r_, str) and node is not None and len(node.get("args", [])) == 2:
                tys = [self.lib.ty_str(self.lib.strip_refs(a["t"])) if "t" in a else "" for a in node["args"]]
                if any(t in ("std::path::Path", "std::path::PathBuf") for t in tys):
                    from . import pathmodel
                    same = pathmodel.components(l_) == pathmodel.components(r_)     # Path equality is component-wise
                    return same if fname == "eq" else not same
            same = (isinstance(l_, (Struct, Enum)) and isinstance(r_, (Struct, Enum)) and l_.adt == r_.adt) or \
                   (type(l_) is type(r_) and not isinstance(l_, (Struct, Enum)))
            if same:
                return (l_ == r_) if fname == "eq" else (l_ != r_)
            if l_ is UNKNOWN or r_ is UNKNOWN:
                return UNKNOWN
        if fname == "into" and len(args) == 1 and node is not None and "convert::Into" in path and node.get("args"):
            # `x.into()` goes through core's blanket impl: resolve the local `impl From<X> for Y` from the static types
            ty_to = self.lib.ty_str(self.lib.strip_refs(node["t"]))
            ty_from = self.lib.ty_str(self.lib.strip_refs(node["args"][0]["t"]))
            if ty_to == ty_from:
                return deref(args[0])
            if isinstance(deref(args[0]), bool) and re.fullmatch(r"[iu](8|16|32|64|128|size)", ty_to or ""):
                return int(deref(args[0]))      # `true.into()` is 1
            if isinstance(deref(args[0]), int) and not isinstance(deref(args[0]), bool) and ty_to in ("f64", "f32"):
                return float(deref(args[0]))
            raw_from = self.lib.ty_str(node["args"][0]["t"])
            v0 = deref(args[0])
            dyn = [v0.adt] if isinstance(v0, (Struct, Enum)) and not v0.adt.startswith("#") else []
            if dyn and dyn[0] == ty_to:
                return v0
            # a primitive handed to a generic `E: Into<Y>` parameter: its dynamic kind names the impl
            prim = ["bool"] if isinstance(v0, bool) else (["&str", "alloc::string::String", "&alloc::string::String"] if isinstance(v0, str) else
                                                         (["f64"] if isinstance(v0, float) else []))
            for tf in [ty_from, raw_from, "&" + ty_from, "&'static " + ty_from] + dyn + ([] if "::" in ty_from or ty_from in ("bool", "f64", "str") else prim):
                cand = self.lib.fn("<%s as core::convert::From<%s>>::from" % (ty_to, tf))
                if cand is not None and thir.body_of(cand):
                    return self.call_fn(cand, args, depth + 1)
            if "::" in ty_to and v0 is not UNKNOWN:
                # a blanket `impl<G: Into<..>> From<G> for Y`: the only generic From of the target type
                key = ("#genfrom", ty_to)
                if key not in self._impl_cache:
                    pre_ = "<%s as core::convert::From<" % ty_to
                    gens_ = [f for k_, f in self.lib.fns.items() if k_.startswith(pre_) and k_.endswith(">>::from") and thir.body_of(f)
                             and re.fullmatch(r"[A-Z][A-Za-z0-9]*", k_[len(pre_):-len(">>::from")])]
                    self._impl_cache[key] = gens_[0] if len(gens_) == 1 else None
                if self._impl_cache[key] is not None and not (isinstance(v0, (Struct, Enum)) and v0.adt == ty_to):
                    return self.call_fn(self._impl_cache[key], args, depth + 1)
            if dyn and "::" not in ty_to and ty_to not in ("str", "bool", "char") and not re.fullmatch(r"[iuf](8|16|32|64|128|size)", ty_to or ""):
                # the target is a generic parameter (`T: From<X>`): decided where the value is stored (see `store`)
                return Struct("#Into", {"v": v0})
        local = self.lib.fn(path)
        if local is not None and thir.body_of(local) and args and local.get("in_trait") and not path.startswith("<") \
                and (local["thir"].get("params") or [{}])[0].get("self"):
            # a provided trait method called on a generic receiver (`T::process_block(processor, ..)`): the receiver's own
            # implementation wins over the trait's default body
            recv = deref(args[0])
            if isinstance(recv, (Struct, Enum)) and not recv.adt.startswith("#"):
                tr, meth = path.rsplit("::", 1)
                key = ("#recv", recv.adt, tr, meth)
                if key not in self._impl_cache:
                    cand = self.lib.fn("<%s as %s>::%s" % (recv.adt, tr, meth))
                    if cand is None:
                        pre, suf = "<" + recv.adt + "<", " as %s>::%s" % (tr, meth)
                        cand = next((f for k_, f in self.lib.fns.items() if k_.startswith(pre) and k_.endswith(suf)), None)
                    self._impl_cache[key] = cand if cand is not None and thir.body_of(cand) else None
                if self._impl_cache[key] is not None:
                    local = self._impl_cache[key]
                    path = local["path"]
        if (local is None or not thir.body_of(local)) and args and not path.startswith("<"):
            # a trait method called on `Self` / a generic: dispatch on the abstract receiver's type
            recv = deref(args[0])
            if isinstance(recv, (Struct, Enum)) and "::" in path and not recv.adt.startswith("#"):
                tr, meth = path.rsplit("::", 1)
                cand = self.lib.fn("<%s as %s>::%s" % (recv.adt, tr, meth))
                if cand is None:
                    # impls on a type with generic / lifetime parameters: `<T<'_> as Trait>::m`
                    pre, suf = "<" + recv.adt + "<", " as %s>::%s" % (tr, meth)
                    key = (pre, suf)
                    if key not in self._impl_cache:
                        self._impl_cache[key] = next((f for k_, f in self.lib.fns.items() if k_.startswith(pre) and k_.endswith(suf)), None)
                    cand = self._impl_cache[key]
                if cand is not None and thir.body_of(cand):
                    local, path = cand, cand["path"]
            if local is None and "::" in path and not isinstance(recv, (Struct, Enum)):
                # ... or on the kind of the abstract value (generic `impl Trait` parameters)
                tr, meth = path.rsplit("::", 1)
                kinds = ["&str", "alloc::string::String"] if isinstance(recv, str) else \
                        (["alloc::vec::Vec<u8>", "&[u8]"] if isinstance(recv, list) and all(isinstance(x, int) for x in recv) else
                         (["bool"] if isinstance(recv, bool) else (["char", "usize", "u8"] if isinstance(recv, int) else [])))
                for ty in kinds:
                    cand = self.lib.fn("<%s as %s>::%s" % (ty, tr, meth))
                    if cand is not None and thir.body_of(cand):
                        local, path = cand, cand["path"]
                        break
            if local is None and node is not None and node.get("args") and "::" in path:
                # ... or on the static type of the receiver expression (impls for Vec<u8>, &str, ...)
                tr, meth = path.rsplit("::", 1)
                t0 = node["args"][0].get("t")
                if t0 is not None:
                    for ty in (self.lib.ty_str(t0), self.lib.ty_str(self.lib.strip_refs(t0)), "&" + self.lib.ty_str(self.lib.strip_refs(t0))):
                        cand = self.lib.fn("<%s as %s>::%s" % (ty, tr, meth))
                        if cand is not None and thir.body_of(cand):
                            local, path = cand, cand["path"]
                            break
        if local is None and args and path.startswith("core::iter::traits::iterator::Iterator::") and isinstance(deref(args[0]), Struct) \
                and not deref(args[0]).adt.startswith("#") and fname in ("find", "find_map", "position", "nth", "take"):
            # a provided Iterator method on a LOCAL iterator type: driven through that type's own `next`
            recv_ = deref(args[0])
            nxt_ = self._local_next(recv_.adt)
            if nxt_ is not None and fname in ("find", "find_map", "position", "nth", "take"):
                def pull_():
                    return self.call_fn(nxt_, [recv_], depth + 1)
                if fname == "take" and len(args) == 2 and isinstance(deref(args[1]), int):
                    out_ = []
                    for _ in range(deref(args[1])):
                        r_ = pull_()
                        if not (isinstance(r_, Enum) and r_.adt == OPTION):
                            return self.unknown("next() of a local iterator")
                        if r_.variant == "None":
                            break
                        out_.append(r_.fields.get("0", UNKNOWN))
                    return Iter(out_)
                if fname == "nth" and len(args) == 2 and isinstance(deref(args[1]), int):
                    r_ = NONE
                    for _ in range(deref(args[1]) + 1):
                        r_ = pull_()
                        if not (isinstance(r_, Enum) and r_.adt == OPTION) or r_.variant == "None":
                            return r_ if isinstance(r_, Enum) else self.unknown("next() of a local iterator")
                    return r_
                if fname in ("find", "find_map", "position") and len(args) == 2:
                    for i_ in range(20000):
                        r_ = pull_()
                        if not (isinstance(r_, Enum) and r_.adt == OPTION):
                            return self.unknown("next() of a local iterator")
                        if r_.variant == "None":
                            return NONE
                        x_ = r_.fields.get("0", UNKNOWN)
                        v_ = self.apply(args[1], [x_], depth + 1)
                        if fname == "find_map":
                            if not (isinstance(v_, Enum) and v_.adt == OPTION):
                                return self.unknown("find_map closure result")
                            if v_.variant == "Some":
                                return v_
                            continue
                        t_ = self.truth(v_)
                        if t_ is UNKNOWN:
                            return UNKNOWN
                        if t_:
                            return some(x_ if fname == "find" else i_)
                    raise OutOfFuel()
        if local is not None and args and isinstance(deref(args[0]), (Iter, PyMap, PySet)) and (" as " in path):
            local = None  # a trait method on one of the evaluator's own container objects: use the std model
        rargs = args
        if not (local is not None and thir.body_of(local)):
            args = [deref(a) for a in args]
        a0 = deref(args[0]) if args else UNKNOWN
        if not (local is not None and thir.body_of(local)):
            r = self.std_paths(path, fname, rargs, args, a0, node, depth)
            if r is not NotImplemented:
                return r
            r = self.std_text_and_maps(path, fname, rargs, args, a0, node, depth)
            if r is not NotImplemented:
                return r
        if local is not None and thir.body_of(local):
            # accessor: returns (a reference to) one field of the receiver
            if isinstance(a0, (Struct, Enum)) and len(args) == 1:
                fld = self.accessor_field(local, a0)
                if fld is not None:
                    v = a0.fields.get(fld, UNKNOWN)
                    if self._accessor_copies and isinstance(v, (Struct, Enum, list, Iter, PyMap, PySet)):
                        import copy
                        return copy.deepcopy(v)     # `self.field.clone()`: the caller gets its own copy
                    return v
            return self.call_fn(local, args, depth + 1)
        # ---- std model -------------------------------------------------------------------------------
        if path.startswith("core::mem::") and rargs and isinstance(rargs[0], Ref):
            cell = rargs[0]
            cur = cell.get()
            if fname == "take" and isinstance(cur, (str, int, bool)):
                cell.set("" if isinstance(cur, str) else (False if isinstance(cur, bool) else 0))
                return cur
            if fname == "replace" and len(rargs) == 2:
                cell.set(deref(rargs[1]))
                return cur
            if fname == "swap" and len(rargs) == 2 and isinstance(rargs[1], Ref):
                other = rargs[1].get()
                rargs[1].set(cur)
                cell.set(other)
                return UNIT
        if path.startswith("core::mem::") and args:
            raw = args  # already dereferenced for std calls; objects are shared
            if fname == "swap" and len(raw) == 2 and isinstance(raw[0], (Struct, Enum)) and isinstance(raw[1], (Struct, Enum)):
                x, y = raw
                if isinstance(x, Enum) and isinstance(y, Enum):
                    x.adt, y.adt = y.adt, x.adt
                    x.variant, y.variant = y.variant, x.variant
                x.fields, y.fields = y.fields, x.fields
                return UNIT
            if fname == "swap" and len(raw) == 2 and isinstance(raw[0], list) and isinstance(raw[1], list):
                tmp = list(raw[0])
                raw[0][:] = raw[1]
                raw[1][:] = tmp
                return UNIT
            if fname in ("take", "replace") and isinstance(raw[0], (Struct, Enum, list)):
                import copy
                old = copy.copy(raw[0]) if not isinstance(raw[0], list) else list(raw[0])
                if isinstance(raw[0], list):
                    raw[0][:] = raw[1] if fname == "replace" and isinstance(raw[1], list) else []
                    return old
                if isinstance(raw[0], Enum):
                    old = Enum(raw[0].adt, raw[0].variant, raw[0].fields)
                else:
                    old = Struct(raw[0].adt, raw[0].fields)
                if fname == "replace" and len(raw) == 2 and isinstance(raw[1], type(raw[0])):
                    if isinstance(raw[0], Enum):
                        raw[0].adt, raw[0].variant = raw[1].adt, raw[1].variant
                    raw[0].fields = dict(raw[1].fields)
                    return old
                if fname == "take" and isinstance(raw[0], Enum) and raw[0].adt == OPTION:
                    raw[0].variant, raw[0].fields = "None", {}
                    return old
                if fname == "take" and isinstance(raw[0], (Struct, Enum)) and not raw[0].adt.startswith("#"):
                    # a local type: its own `Default` impl (derived ones have bodies too) gives the value left behind
                    dflt = self.lib.fn("<%s as core::default::Default>::default" % raw[0].adt)
                    if dflt is not None and thir.body_of(dflt):
                        nv = self.call_fn(dflt, [], depth + 1)
                        if isinstance(nv, type(raw[0])) and nv.adt == raw[0].adt:
                            if isinstance(raw[0], Enum):
                                raw[0].variant = nv.variant
                            raw[0].fields = dict(nv.fields)
                            return old
                return self.unknown("mem::%s of this value" % fname)
        # ---- format!(..) ------------------------------------------------------------------------------
        if "fmt::rt::Argument" in path and fname.startswith("new_") and len(args) == 1:
            ty = ""
            if node is not None and node.get("gargs"):
                try:
                    ty = self.lib.ty_str(self.lib.strip_refs(node["gargs"][0]))
                except Exception:
                    ty = ""
            return Struct("#FmtArg", {"v": a0, "kind": fname[4:], "ty": ty})
        if "fmt::Arguments" in path and fname == "new" and len(args) == 2 and isinstance(a0, list):
            return Struct("#FmtArgs", {"template": a0, "args": args[1]})
        if "fmt::Arguments" in path and fname in ("from_str", "new_const") and len(args) == 1:
            if isinstance(a0, str):
                return Struct("#FmtArgs", {"text": a0})
            if isinstance(a0, list) and len(a0) == 1 and isinstance(a0[0], str):
                return Struct("#FmtArgs", {"text": a0[0]})
        if fname == "format" and path.startswith("alloc::fmt::") and isinstance(a0, Struct) and a0.adt == "#FmtArgs":
            if "text" in a0.fields:
                return a0.fields["text"]
            t, fa_ = a0.fields["template"], a0.fields["args"]
            fa_ = fa_.rest() if isinstance(fa_, Iter) else fa_
            if not isinstance(fa_, list):
                return self.unknown("format! arguments")
            out, i, k = [], 0, 0
            # the template encoding documented in core::fmt (library/core/src/fmt/mod.rs, `struct Arguments`)
            while i < len(t):
                b = t[i]
                i += 1
                if b == 0:
                    break
                if b < 0x80:
                    out.append(bytes(t[i:i + b]).decode("utf-8", "replace"))
                    i += b
                    continue
                if b == 0x80:
                    ln_ = t[i] | (t[i + 1] << 8)
                    out.append(bytes(t[i + 2:i + 2 + ln_]).decode("utf-8", "replace"))
                    i += 2 + ln_
                    continue
                flags, width, prec = 0x20 | (3 << 29), None, None
                if b & 1:
                    flags = t[i] | (t[i + 1] << 8) | (t[i + 2] << 16) | (t[i + 3] << 24)
                    i += 4
                if b & 2:
                    width = t[i] | (t[i + 1] << 8)
                    i += 2
                if b & 4:
                    prec = t[i] | (t[i + 1] << 8)
                    i += 2
                if b & 8:
                    k = t[i] | (t[i + 1] << 8)
                    i += 2
                if b & 16 or b & 32:
                    return self.unknown("format! with a run-time width/precision")
                if not (k < len(fa_) and isinstance(fa_[k], Struct) and fa_[k].adt == "#FmtArg"):
                    return self.unknown("format! argument")
                piece = self.format_one(fa_[k], flags, width if flags & (1 << 27) or b & 2 else None, prec if flags & (1 << 28) or b & 4 else None)
                if piece is None:
                    return self.unknown("format! of a value that is not text")
                out.append(piece)
                k += 1
            return "".join(out)
        if path.startswith("core::iter::sources::"):
            if fname == "from_fn" and len(args) == 1 and isinstance(a0, (Closure, FnItem, Native)):
                # materialised eagerly: the closure is called until it answers None (its captured state is its own)
                out = []
                while True:
                    r = self.apply(a0, [], depth + 1)
                    if not (isinstance(r, Enum) and r.adt == OPTION):
                        return self.unknown("from_fn closure result")
                    if r.variant == "None":
                        return Iter(out)
                    out.append(r.fields.get("0", UNKNOWN))
                    if len(out) > 20000:
                        raise OutOfFuel()
            if fname == "repeat_with" and len(args) == 1:
                return Struct("#Lazy", {"head": [], "gen": a0})      # unbounded: consumed on demand
            if fname == "repeat" and len(args) == 1 and path.endswith("repeat::repeat"):
                return Struct("#Repeat", {"v": a0})       # unbounded: only `take(n)` / `zip` make it a sequence
            if fname == "once" and len(args) == 1:
                return Iter([a0])
            if fname == "empty" and not args:
                return Iter([])
            if fname in ("repeat_n",) and len(args) == 2 and isinstance(args[1], int):
                return Iter([a0] * args[1])
        if isinstance(a0, Enum) and a0.adt.endswith("borrow::Cow"):
            inner = a0.fields.get("0", UNKNOWN)
            if fname in ("into_owned", "as_ref", "deref", "borrow", "to_owned", "to_string", "as_str", "clone", "to_mut", "into"):
                return inner
            if not isinstance(inner, (Struct, Enum)):
                return self.call_named(path, fname, [inner] + args[1:], node, depth)
        if fname in ("call", "call_mut", "call_once") and "ops::function" in path and len(args) == 2:
            tup = args[1]
            return self.apply(a0, list(tup) if isinstance(tup, tuple) and tup is not UNIT else [], depth)
        if path.startswith(("alloc::boxed::", "alloc::intrinsics::", "alloc::rc::", "alloc::sync::")) or "alloc::slice::" in path:
            # Box::new(x) / the `vec![..]` expansion: containers are transparent, arrays are lists
            if fname == "new" and len(args) == 1:
                return a0
            if fname == "new_uninit":
                return UNIT
            if fname == "write_box_via_move" and len(args) == 2:
                return args[1]
            if fname in ("box_assume_init_into_vec_unsafe", "into_vec", "box_new", "assume_init"):
                return a0
        if fname == "default" and not args and "default::Default" in path:
            t = path[1:].split(" as ")[0] if path.startswith("<") else ""
            rt = self.lib.ty_str(self.lib.strip_refs(node["t"])) if node is not None and "t" in node else ""
            if t in ("T", "") or "<" not in path:
                t = rt
            if t.startswith("core::marker::PhantomData"):
                return UNIT
            if t.startswith(("std::sync::once_lock::OnceLock", "core::cell::once::OnceCell")):
                return Struct("#Once", {"set": False, "v": UNKNOWN})
            cand = self.lib.fn("<%s as core::default::Default>::default" % t)
            if cand is not None and thir.body_of(cand):
                return self.call_fn(cand, [], depth + 1)
            if any(m in t.split("<")[0] for m in MAP_TYPES):
                return PyMap(sorted_="btree" in t)
            if any(m in t.split("<")[0] for m in SET_TYPES):
                return PySet(sorted_="btree" in t)
            if t == "bool":
                return False
            if re.fullmatch(r"[iu](8|16|32|64|128|size)", t):
                return 0
            if t in ("alloc::string::String", "&str", "str"):
                return ""
            if t.startswith("alloc::vec::Vec<"):
                return []
            if t.startswith("core::option::Option<"):
                return NONE
        if fname == "unwrap_or_default" and isinstance(a0, Enum) and a0.adt == OPTION and a0.variant == "None" and node is not None:
            t = self.lib.ty_str(node["t"]) if "t" in node else ""
            if t == "bool":
                return False
            if re.fullmatch(r"[iu](8|16|32|64|128|size)", t or ""):
                return 0
        if node is not None and "t" in node and fname in ("map", "and_then", "map_or", "map_or_else", "filter_map", "then", "unwrap_or_else", "flat_map"):
            self._adaptor_t = self.lib.ty_str(node["t"])      # lets a function VALUE (`.map(TryInto::try_into)`) see its result type
        if fname in ("try_from", "try_into") and len(args) == 1 and isinstance(a0, int) and not isinstance(a0, bool):
            m_ = re.match(r"core::result::Result<([iu])(8|16|32|64|128|size), ", self.lib.ty_str(node["t"])) if node is not None and "t" in node else \
                re.search(r"core::result::Result<([iu])(8|16|32|64|128|size), core::num::error::TryFromIntError>", getattr(self, "_adaptor_t", ""))
            if m_:
                bits = 64 if m_.group(2) == "size" else int(m_.group(2))
                lo_, hi_ = (-(1 << (bits - 1)), (1 << (bits - 1)) - 1) if m_.group(1) == "i" else (0, (1 << bits) - 1)
                return ok(a0) if lo_ <= a0 <= hi_ else err(Struct("#TryFromIntError", {}))
        if fname == "from_str_radix" and len(args) == 2 and isinstance(a0, str) and isinstance(args[1], int) and "core::num::" in path:
            m_ = re.search(r"<impl ([iu])(8|16|32|64|128|size)>", path)
            if m_ and 2 <= args[1] <= 36:
                bits = 64 if m_.group(2) == "size" else int(m_.group(2))
                signed = m_.group(1) == "i"
                digits = "0123456789abcdefghijklmnopqrstuvwxyz"[:args[1]]
                body = a0[1:] if a0[:1] in (("+", "-") if signed else ("+",)) else a0
                if body and all(ch.lower() in digits for ch in body):
                    v_ = int(a0, args[1])
                    lo_, hi_ = (-(1 << (bits - 1)), (1 << (bits - 1)) - 1) if signed else (0, (1 << bits) - 1)
                    if lo_ <= v_ <= hi_:
                        return ok(v_)
                return err(Struct("#ParseIntError", {}))
        if fname == "pow" and len(args) == 2 and isinstance(a0, int) and isinstance(args[1], int) and not isinstance(a0, bool) and "core::num::" in path and args[1] >= 0:
            m_ = re.search(r"<impl ([iu])(8|16|32|64|128|size)>", path)
            v_ = a0 ** args[1]
            if m_:
                bits = 64 if m_.group(2) == "size" else int(m_.group(2))
                lo_, hi_ = (-(1 << (bits - 1)), (1 << (bits - 1)) - 1) if m_.group(1) == "i" else (0, (1 << bits) - 1)
                if not lo_ <= v_ <= hi_:
                    return self.unknown("integer overflow in pow (panics in debug builds)")
            return v_
        if fname in ("try_from", "try_into") and len(args) == 1 and isinstance(a0, (list, Iter)) and node is not None and "t" in node:
            # Vec<T> / &[T] -> [T; N]: succeeds exactly when the length is N (the Vec comes back untouched otherwise)
            m = re.match(r"core::result::Result<&?(?:mut )?\[.*; (\d+)\], ", self.lib.ty_str(node["t"]))
            if m:
                seq = a0.rest() if isinstance(a0, Iter) else a0
                return ok(list(seq)) if len(seq) == int(m.group(1)) else err(a0)
        if fname in ("clone", "to_owned", "cloned") and len(args) == 1 and isinstance(a0, (Struct, Enum, list)):
            import copy
            return copy.deepcopy(a0)
        if fname == "from_elem" and len(args) == 2 and isinstance(args[1], int) and "alloc::vec::" in path:
            import copy as _copy
            return [_copy.deepcopy(a0) for _ in range(args[1])]          # vec![x; n]
        if fname in ("new", "default", "with_capacity") and ("::vec::Vec" in path or "VecDeque" in path) :
            return []
        if isinstance(a0, list) and fname in ("starts_with", "ends_with") and len(args) == 2 and isinstance(args[1], list) and "slice" in path:
            k_ = len(args[1])
            part = a0[:k_] if fname == "starts_with" else (a0[len(a0) - k_:] if k_ <= len(a0) else None)
            if part is None or len(part) != k_:
                return False
            if any(x is UNKNOWN for x in part + args[1]):
                return UNKNOWN
            return part == args[1]
        if isinstance(a0, list) and fname in ("push", "push_back") and len(args) == 2:
            a0.append(args[1])
            return UNIT
        if isinstance(a0, (list, str, PyMap, PySet)) and fname in ("reserve", "reserve_exact", "shrink_to_fit", "shrink_to"):
            return UNIT
        if fname in ("from_utf8", "from_utf8_lossy", "from_utf8_unchecked") and len(args) == 1 and isinstance(a0, list) and all(isinstance(x, int) and 0 <= x < 256 for x in a0):
            try:
                txt = bytes(a0).decode("utf-8")
                return txt if fname != "from_utf8" else ok(txt)
            except UnicodeDecodeError:
                return err(Struct("#Utf8Error", {})) if fname == "from_utf8" else bytes(a0).decode("utf-8", "replace")
        if isinstance(a0, list) and fname in ("extend_from_slice", "append") and len(args) == 2:
            other = args[1].rest() if isinstance(args[1], Iter) else args[1]
            if isinstance(other, str):
                other = list(other.encode("utf-8"))
            if isinstance(other, list):
                a0.extend(other)
                if fname == "append":
                    del other[:]
                return UNIT
            return self.unknown("%s with unknown slice" % fname)
        if isinstance(a0, list) and fname == "extend" and len(args) == 2:
            other = args[1].rest() if isinstance(args[1], Iter) else (args[1].items() if isinstance(args[1], (PySet, PyMap)) else args[1])
            if isinstance(other, list):
                a0.extend(other)
                return UNIT
            return self.unknown("extend with unknown iterable")
        if isinstance(a0, list) and fname == "repeat" and len(args) == 2 and isinstance(args[1], int) and "slice" in path:
            return list(a0) * args[1]
        if isinstance(a0, list) and fname == "insert" and len(args) == 3 and isinstance(args[1], int):
            if args[1] > len(a0):
                if self.panics:
                    raise Panic("Vec::insert out of bounds")
                return self.unknown("Vec::insert beyond the end (a panic)")
            a0.insert(args[1], args[2])
            return UNIT
        if isinstance(a0, list) and fname == "drain" and len(args) == 2 and "vec" in path.lower():
            r_ = args[1]
            lo_, hi_ = 0, len(a0)
            ok_ = isinstance(r_, Struct) and r_.adt.startswith("core::ops::range::Range")
            if ok_:
                st_, en_ = r_.fields.get("start"), r_.fields.get("end")
                if st_ is not None:
                    lo_ = st_
                if en_ is not None:
                    hi_ = en_ + 1 if isinstance(en_, int) and r_.adt.endswith("RangeInclusive") else en_
            if ok_ and isinstance(lo_, int) and isinstance(hi_, int) and 0 <= lo_ <= hi_ <= len(a0):
                out_ = a0[lo_:hi_]
                del a0[lo_:hi_]
                return Iter(out_)
        if isinstance(a0, list) and fname == "pop" and len(args) == 1:
            return some(a0.pop()) if a0 else NONE
        if isinstance(a0, list) and fname == "clear":
            del a0[:]
            return UNIT
        if fname == "chain" and len(args) == 2 and isinstance(args[1], Struct) and args[1].adt == "#Lazy" and isinstance(a0, (Iter, list)):
            head = a0.rest() if isinstance(a0, Iter) else list(a0)
            return Struct("#Lazy", {"head": head + list(args[1].fields["head"]), "gen": args[1].fields["gen"]})
        if isinstance(a0, Struct) and a0.adt == "#Lazy":
            def pull():
                if a0.fields["head"]:
                    return a0.fields["head"].pop(0)
                return self.apply(a0.fields["gen"], [], depth + 1)
            if fname == "next" and len(args) == 1:
                return some(pull())
            if fname in ("find", "find_map", "position") and len(args) == 2:
                for i_ in range(5000):
                    x_ = pull()
                    r_ = self.apply(args[1], [x_], depth + 1)
                    if fname == "find_map":
                        if not (isinstance(r_, Enum) and r_.adt == OPTION):
                            return self.unknown("find_map closure result")
                        if r_.variant == "Some":
                            return r_
                        continue
                    t_ = self.truth(r_)
                    if t_ is UNKNOWN:
                        return UNKNOWN
                    if t_:
                        return some(x_ if fname == "find" else i_)
                raise OutOfFuel()
            if fname == "take" and len(args) == 2 and isinstance(args[1], int):
                return Iter([pull() for _ in range(args[1])])
            if fname in ("map", "filter", "inspect") and len(args) == 2:
                src_, f_ = a0, args[1]
                if fname == "map":
                    return Struct("#Lazy", {"head": [], "gen": Native(lambda: self.apply(f_, [self.call_named("core::iter::traits::iterator::Iterator::next", "next", [src_], None, depth).fields.get("0")], depth + 1))})
                if fname == "filter":
                    def next_kept():
                        for _ in range(5000):
                            x_ = self.call_named("core::iter::traits::iterator::Iterator::next", "next", [src_], None, depth).fields.get("0")
                            t_ = self.truth(self.apply(f_, [x_], depth + 1))
                            if t_ is UNKNOWN:
                                return UNKNOWN
                            if t_:
                                return x_
                        raise OutOfFuel()
                    return Struct("#Lazy", {"head": [], "gen": Native(next_kept)})
            return self.unknown("unbounded sequence .%s" % fname)
        if isinstance(a0, Struct) and a0.adt == "#Repeat":
            import copy as _copy
            if fname == "take" and len(args) == 2 and isinstance(args[1], int):
                return Iter([_copy.deepcopy(a0.fields["v"]) for _ in range(args[1])])
            if fname == "next" and len(args) == 1:
                return some(_copy.deepcopy(a0.fields["v"]))
            return self.unknown("unbounded repeat(..).%s" % fname)
        if isinstance(a0, Struct) and a0.adt == "core::ops::range::RangeFrom" and isinstance(a0.fields.get("start"), int) and fname in ("map", "filter", "take", "next", "into_iter", "step_by", "skip") and "iter" in path:
            # an unbounded range under an adaptor: a lazy sequence counting upwards
            state_ = {"i": a0.fields["start"]}

            def count_(state_=state_):
                state_["i"] += 1
                return state_["i"] - 1
            lazy_ = Struct("#Lazy", {"head": [], "gen": Native(count_)})
            if fname == "into_iter":
                return lazy_
            return self.call_named(path, fname, [lazy_] + args[1:], node, depth)
        if isinstance(a0, Struct) and a0.adt == "core::ops::range::RangeFrom" and isinstance(a0.fields.get("start"), int) and fname in ("find", "position", "find_map") and len(args) == 2:
            # an unbounded range: search upwards (bounded by the evaluator's fuel)
            i_ = a0.fields["start"]
            while True:
                r = self.apply(args[1], [i_], depth + 1)
                if fname == "find_map":
                    if not (isinstance(r, Enum) and r.adt == OPTION):
                        return self.unknown("find_map closure result")
                    if r.variant == "Some":
                        return r
                else:
                    t_ = self.truth(r)
                    if t_ is UNKNOWN:
                        return UNKNOWN
                    if t_:
                        return some(i_ if fname == "find" else i_ - a0.fields["start"])
                i_ += 1
                if i_ - a0.fields["start"] > 5000:
                    raise OutOfFuel()
        if isinstance(a0, Struct) and a0.adt in ("core::ops::range::Range", "core::ops::range::RangeInclusive") and fname == "contains" and len(args) == 2 \
                and all(isinstance(v_, (int, float)) and not isinstance(v_, bool) for v_ in (a0.fields.get("start"), a0.fields.get("end"), args[1])) \
                and any(isinstance(v_, float) for v_ in (a0.fields.get("start"), a0.fields.get("end"), args[1])):
            lo_, hi_, x_ = float(a0.fields["start"]), float(a0.fields["end"]), float(args[1])
            return lo_ <= x_ <= hi_ if a0.adt.endswith("Inclusive") else lo_ <= x_ < hi_
        if isinstance(a0, Struct) and a0.adt.startswith("core::ops::range::Range") and isinstance(a0.fields.get("start"), int) and isinstance(a0.fields.get("end"), int):
            rng = list(range(a0.fields["start"], a0.fields["end"]))
            if fname in ITER_CALLS or fname in ("rev", "map", "for_each", "filter", "any", "all", "fold", "collect", "count", "len", "next", "is_empty", "contains"):
                if fname in ITER_CALLS:
                    return Iter(rng)
                if fname == "contains" and len(args) == 2 and isinstance(args[1], int):
                    return a0.fields["start"] <= args[1] < a0.fields["end"]
                return self.call_named(path, fname, [rng] + args[1:], node, depth)
        if fname in ITER_CALLS and len(args) == 1:
            if isinstance(a0, list):
                return Iter(a0)
            if isinstance(a0, Iter):
                return a0
            if isinstance(a0, Enum) and a0.adt == OPTION:
                return Iter([a0.fields.get("0", UNKNOWN)] if a0.variant == "Some" else [])
            return a0
        if fname == "to_string" and len(args) == 1 and isinstance(a0, float):
            from . import floatfmt
            return floatfmt.display(a0)
        if not args and path in ("alloc::string::String::new", "<alloc::string::String as core::default::Default>::default"):
            return ""
        if fname == "to_string" and len(args) == 1 and isinstance(a0, int) and not isinstance(a0, bool):
            # Display of an integer / a char: the static type of the receiver tells which
            t0 = ""
            if node is not None and node.get("args") and "t" in node["args"][0]:
                t0 = self.lib.ty_str(self.lib.strip_refs(node["args"][0]["t"]))
            if t0 == "char":
                return chr(a0)
            if re.fullmatch(r"[iu](8|16|32|64|128|size)", t0 or ""):
                return str(a0)
            return self.unknown("to_string of a scalar of unknown type")
        if fname in IDENTITY_CALLS and len(args) == 1:
            if fname in ("clone", "to_owned") and isinstance(a0, (Iter, PyMap, PySet)):
                import copy
                return copy.deepcopy(a0)
            return a0
        if isinstance(a0, Iter):
            if fname == "next" and len(args) == 1:
                if a0.i < len(a0.items):
                    a0.i += 1
                    return some(a0.items[a0.i - 1])
                return NONE
            if fname in ("peek", "peek_mut") and len(args) == 1:
                return some(a0.items[a0.i]) if a0.i < len(a0.items) else NONE
            if fname == "next_back" and len(args) == 1:
                if a0.i < len(a0.items):
                    return some(a0.items.pop())
                return NONE
            if fname == "next_if" and len(args) == 2:
                if a0.i < len(a0.items):
                    r = self.truth(self.apply(args[1], [a0.items[a0.i]], depth))
                    if r is UNKNOWN:
                        return UNKNOWN
                    if r:
                        a0.i += 1
                        return some(a0.items[a0.i - 1])
                return NONE
            if fname == "enumerate":
                return Iter([(i, x) for i, x in enumerate(a0.rest())])
            if fname == "skip" and len(args) == 2 and isinstance(args[1], int):
                return Iter(a0.rest()[args[1]:])
            if fname == "take" and len(args) == 2 and isinstance(args[1], int):
                return Iter(a0.rest()[:args[1]])
            if fname == "zip" and len(args) == 2 and isinstance(args[1], (Iter, list)):
                other = args[1].rest() if isinstance(args[1], Iter) else args[1]
                return Iter(list(zip(a0.rest(), other)))
            r = self.call_named(path, fname, [a0.rest()] + args[1:], node, depth)
            return Iter(r) if isinstance(r, list) and fname not in ("collect",) else r
        if fname == "into" and len(args) == 1 and node is None and isinstance(a0, (Struct, Enum)) and not a0.adt.startswith("#") and getattr(self, "_adaptor_t", ""):
            # `.map(Into::into)`: the target type is the one the adaptor produces; use the crate's `impl From<X> for T`
            suf = " as core::convert::From<%s>>::from" % a0.adt
            for k_, f_ in self.lib.fns.items():
                if k_.endswith(suf) and k_.startswith("<") and k_[1:].split(" as ")[0] in self._adaptor_t and thir.body_of(f_):
                    return self.call_fn(f_, [a0], depth + 1)
        if fname == "from" and len(args) == 1 and isinstance(a0, bool) and re.search(r"<impl core::convert::From<bool> for [iu](8|16|32|64|128|size)>", path):
            return int(a0)
        if fname in ("into", "from") and len(args) == 1:
            return a0
        if fname == "not" and isinstance(a0, bool):
            return not a0
        if fname in ("eq", "ne", "lt", "le", "gt", "ge") and len(args) == 2:
            return self.binop(fname.capitalize(), args[0], args[1])
        if fname == "cmp" and len(args) == 2 and (all(isinstance(x, int) for x in args) or all(isinstance(x, str) for x in args)):
            return ordering(args[0], args[1])
        if fname in ("index", "index_mut", "get") and len(args) == 2 and isinstance(a0, list) and isinstance(args[1], Struct) and args[1].adt.startswith("core::ops::range::"):
            # slicing: `v[a..b]`, `v[..b]`, `v[a..]`, `v[..]`, `v[a..=b]`
            rf = args[1].fields
            lo = rf.get("start", 0)
            hi = rf.get("end", len(a0))
            if args[1].adt.endswith("RangeInclusive") or args[1].adt.endswith("RangeToInclusive"):
                hi = hi + 1 if isinstance(hi, int) else hi
            if isinstance(lo, int) and isinstance(hi, int):
                if 0 <= lo <= hi <= len(a0):
                    return a0[lo:hi] if fname != "get" else some(a0[lo:hi])
                return NONE if fname == "get" else self.unknown("slice out of range")
        if fname == "index_mut" and len(args) == 2 and isinstance(a0, list) and isinstance(args[1], int) and "ops::index" in path:
            if not 0 <= args[1] < len(a0):
                return self.unknown("index out of range")
            x_ = a0[args[1]]
            return x_ if isinstance(x_, (Struct, Enum, list, PyMap, PySet)) else Ref(a0, args[1])
        if fname == "index" and len(args) == 2 and isinstance(a0, list) and isinstance(args[1], int) and "ops::index" in path:
            return a0[args[1]] if 0 <= args[1] < len(a0) else self.unknown("index out of range")
        if isinstance(a0, Enum) and a0.adt == RESULT:
            inner = a0.fields.get("0", UNKNOWN)
            if fname == "branch":
                return Enum(CONTROL_FLOW, "Continue", {"0": inner}) if a0.variant == "Ok" else Enum(CONTROL_FLOW, "Break", {"0": a0})
            if fname == "is_ok":
                return a0.variant == "Ok"
            if fname == "is_err":
                return a0.variant == "Err"
            if fname == "ok":
                return some(inner) if a0.variant == "Ok" else NONE
            if self.panics and fname in ("unwrap", "expect") and a0.variant == "Err":
                raise Panic("%s on Err" % fname)
            if fname in ("unwrap", "expect") and a0.variant == "Ok":
                return inner
            if fname == "map" and len(args) == 2:
                return Enum(RESULT, "Ok", {"0": self.apply(args[1], [inner], depth)}) if a0.variant == "Ok" else a0
            if fname == "map_err" and len(args) == 2:
                return a0 if a0.variant == "Ok" else Enum(RESULT, "Err", {"0": self.apply(args[1], [inner], depth)})
            if fname == "and_then" and len(args) == 2:
                return self.apply(args[1], [inner], depth) if a0.variant == "Ok" else a0
            if fname == "unwrap_or" and len(args) == 2:
                return inner if a0.variant == "Ok" else args[1]
            if fname == "unwrap_or_else" and len(args) == 2:
                return inner if a0.variant == "Ok" else self.apply(args[1], [inner], depth)
            if fname == "err":
                return some(inner) if a0.variant == "Err" else NONE
            if fname in ("is_ok_and", "is_err_and") and len(args) == 2:
                if a0.variant != ("Ok" if fname == "is_ok_and" else "Err"):
                    return False
                return self.truth(self.apply(args[1], [inner], depth))
            if fname in ("map_or", "map_or_else") and len(args) == 3:
                if a0.variant == "Ok":
                    return self.apply(args[2], [inner], depth)
                return args[1] if fname == "map_or" else self.apply(args[1], [inner], depth)
            if fname == "or_else" and len(args) == 2:
                return a0 if a0.variant == "Ok" else self.apply(args[1], [inner], depth)
            if fname in ("unwrap_err", "expect_err") and a0.variant == "Err":
                return inner
            if fname in ("iter", "into_iter"):
                return Iter([inner] if a0.variant == "Ok" else [])
            if fname == "unwrap_or_default" and a0.variant == "Ok":
                return inner
        if fname == "branch" and isinstance(a0, Enum) and a0.adt == OPTION:
            return Enum(CONTROL_FLOW, "Continue", {"0": a0.fields.get("0", UNKNOWN)}) if a0.variant == "Some" else Enum(CONTROL_FLOW, "Break", {"0": NONE})
        if fname == "from_residual" and len(args) == 1:
            return a0
        if isinstance(a0, list) and fname in ("sort", "sort_unstable") and len(args) == 1:
            try:
                a0.sort()
                return UNIT
            except TypeError:
                return self.unknown("sort of non-comparable values")
        if isinstance(a0, list) and fname in ("sort_by", "sort_unstable_by") and len(args) == 2:
            import functools
            bad = []

            def cmp_(x, y):
                r = self.apply(args[1], [x, y], depth)
                if isinstance(r, Enum) and r.adt == ORDERING:
                    return {"Less": -1, "Equal": 0, "Greater": 1}[r.variant]
                bad.append(1)
                return 0
            a0.sort(key=functools.cmp_to_key(cmp_))
            return self.unknown("sort_by comparator") if bad else UNIT
        if isinstance(a0, list) and fname in ("sort_by_key", "sort_unstable_by_key", "sort_by_cached_key") and len(args) == 2:
            try:
                a0.sort(key=lambda x: _sortable(self.apply(args[1], [x], depth)))
                return UNIT
            except TypeError:
                return self.unknown("sort key")
        if fname == "partial_cmp" and len(args) == 2 and all(isinstance(x, int) for x in args):
            return some(ordering(args[0], args[1]))
        if isinstance(a0, int) and not isinstance(a0, bool) and ("<impl f64>" in path or "<impl f32>" in path):
            a0 = float(a0)
        if isinstance(a0, float) and ("f64" in path or "f32" in path):
            import math
            if fname == "is_nan":
                return math.isnan(a0)
            if fname == "is_infinite":
                return math.isinf(a0)
            if fname == "is_finite":
                return math.isfinite(a0)
            if fname == "is_sign_negative":
                return math.copysign(1.0, a0) < 0
            if fname == "is_sign_positive":
                return math.copysign(1.0, a0) > 0
            if fname == "classify":
                cat = "Nan" if math.isnan(a0) else ("Infinite" if math.isinf(a0) else ("Zero" if a0 == 0 else "Normal"))
                return Enum("core::num::FpCategory", cat)
            if fname == "powi" and len(args) == 2 and isinstance(args[1], int):
                from . import floatfmt
                return floatfmt.powi(a0, args[1])
            if fname == "to_bits":
                import struct
                return struct.unpack("<Q", struct.pack("<d", a0))[0]
            if fname == "to_string":
                from . import floatfmt
                return floatfmt.display(a0)
            if fname in ("eq", "ne") and len(args) == 2 and isinstance(args[1], (int, float)) and not isinstance(args[1], bool):
                return (a0 == float(args[1])) if fname == "eq" else (a0 != float(args[1]))
            if fname == "signum" and not math.isnan(a0):
                return math.copysign(1.0, a0)
            if fname == "copysign" and len(args) == 2 and isinstance(args[1], float):
                return math.copysign(a0, args[1])
            if fname in ("powf", "sqrt", "exp", "ln", "log10", "log2") and all(isinstance(x, float) for x in args):
                from . import floatfmt
                r_ = floatfmt.libm(fname, *args)
                if r_ is not None:
                    return r_
            if fname in ("abs", "floor", "ceil", "trunc", "round") and not math.isfinite(a0):
                return abs(a0) if fname == "abs" else a0
            if fname == "fract" and not math.isfinite(a0):
                return math.nan
            if fname in ("abs", "floor", "ceil", "trunc", "fract", "round") and math.isfinite(a0):
                return {"abs": abs(a0), "floor": float(math.floor(a0)), "ceil": float(math.ceil(a0)), "trunc": float(math.trunc(a0)), "fract": a0 - math.trunc(a0), "round": float(round(a0))}[fname]
        if all(isinstance(x, int) and not isinstance(x, bool) for x in args) and args:
            a_, b_ = args[0], (args[1] if len(args) > 1 else None)
            if b_ is not None:
                if fname in ("saturating_add_signed", "saturating_add", "wrapping_add", "add"):
                    return max(a_ + b_, 0) if "saturating" in fname else a_ + b_
                if fname in ("saturating_sub", "wrapping_sub", "sub"):
                    return max(a_ - b_, 0) if "saturating" in fname else a_ - b_
                if fname in ("checked_add", "checked_add_signed"):
                    return some(a_ + b_) if a_ + b_ >= 0 else NONE
                if fname == "checked_sub":
                    return some(a_ - b_) if a_ - b_ >= 0 else NONE
            elif fname in ("abs", "unsigned_abs"):
                return abs(a_)
        if fname in ("max", "min") and len(args) == 2 and all(isinstance(x, int) and not isinstance(x, bool) for x in args):
            return max(args) if fname == "max" else min(args)
        if isinstance(a0, Enum) and a0.adt == OPTION:
            inner = a0.fields.get("0", UNKNOWN)
            if fname == "take" and len(args) == 1:
                old = Enum(a0.adt, a0.variant, a0.fields)
                a0.variant, a0.fields = "None", {}
                return old
            if a0 is NONE and fname in ("replace", "insert", "get_or_insert", "get_or_insert_with"):
                return self.unknown("in-place update of the shared None value (%s)" % fname)
            if fname == "replace" and len(args) == 2:
                old = Enum(a0.adt, a0.variant, a0.fields)
                a0.variant, a0.fields = "Some", {"0": args[1]}
                return old
            if fname == "insert" and len(args) == 2:
                a0.variant, a0.fields = "Some", {"0": args[1]}
                return args[1]
            if fname in ("get_or_insert", "get_or_insert_with") and len(args) == 2:
                if a0.variant == "None":
                    a0.variant, a0.fields = "Some", {"0": args[1] if fname == "get_or_insert" else self.apply(args[1], [], depth)}
                return a0.fields.get("0", UNKNOWN)
            if fname == "is_some":
                return a0.variant == "Some"
            if fname == "is_none":
                return a0.variant == "None"
            if self.panics and fname in ("unwrap", "expect") and a0.variant == "None":
                raise Panic("%s on None" % fname)
            if fname in ("unwrap", "expect", "unwrap_unchecked") and a0.variant == "Some":
                return inner
            if fname == "unwrap_or" and len(args) == 2:
                return inner if a0.variant == "Some" else args[1]
            if fname == "unwrap_or_default":
                return inner if a0.variant == "Some" else UNKNOWN
            if fname == "unwrap_or_else" and len(args) == 2:
                return inner if a0.variant == "Some" else self.apply(args[1], [], depth)
            if fname in ("map", "and_then") and len(args) == 2:
                if a0.variant == "None":
                    return NONE
                r = self.apply(args[1], [inner], depth)
                return some(r) if fname == "map" else r
            if fname in ("filter",) and len(args) == 2:
                if a0.variant == "None":
                    return NONE
                r = self.truth(self.apply(args[1], [inner], depth))
                return UNKNOWN if r is UNKNOWN else (a0 if r else NONE)
            if fname == "map_or_else" and len(args) == 3:
                return self.apply(args[2], [inner], depth) if a0.variant == "Some" else self.apply(args[1], [], depth)
            if fname in ("is_none_or",) and len(args) == 2:
                return True if a0.variant == "None" else self.truth(self.apply(args[1], [inner], depth))
            if fname == "inspect" and len(args) == 2:
                if a0.variant == "Some":
                    self.apply(args[1], [inner], depth)
                return a0
            if fname in ("iter", "into_iter", "iter_mut"):
                return Iter([inner] if a0.variant == "Some" else [])
            if fname == "map_or" and len(args) == 3:
                return args[1] if a0.variant == "None" else self.apply(args[2], [inner], depth)
            if fname == "is_some_and" and len(args) == 2:
                return False if a0.variant == "None" else self.truth(self.apply(args[1], [inner], depth))
            if fname == "flatten":
                return inner if a0.variant == "Some" else NONE
            if fname in ("or", ) and len(args) == 2:
                return a0 if a0.variant == "Some" else args[1]
            if fname == "or_else" and len(args) == 2:
                return a0 if a0.variant == "Some" else self.apply(args[1], [], depth)
            if fname == "and" and len(args) == 2:
                return args[1] if a0.variant == "Some" else NONE
            if fname == "xor" and len(args) == 2 and isinstance(args[1], Enum):
                return a0 if (a0.variant == "Some") != (args[1].variant == "Some") and a0.variant == "Some" else (args[1] if (a0.variant == "Some") != (args[1].variant == "Some") else NONE)
            if fname == "zip" and len(args) == 2 and isinstance(args[1], Enum) and args[1].adt == OPTION:
                return some((inner, args[1].fields.get("0", UNKNOWN))) if a0.variant == "Some" and args[1].variant == "Some" else NONE
            if fname in ("ok_or", "ok_or_else") and len(args) == 2:
                return ok(inner) if a0.variant == "Some" else err(args[1] if fname == "ok_or" else self.apply(args[1], [], depth))
            if fname in ("as_mut", "as_ref", "as_deref", "as_deref_mut", "copied", "cloned"):
                return a0
        if isinstance(a0, Enum) and a0.adt == ORDERING:
            if fname == "is_gt":
                return a0.variant == "Greater"
            if fname == "is_lt":
                return a0.variant == "Less"
            if fname == "is_ge":
                return a0.variant != "Less"
            if fname == "is_le":
                return a0.variant != "Greater"
            if fname == "is_eq":
                return a0.variant == "Equal"
            if fname == "is_ne":
                return a0.variant != "Equal"
            if fname == "reverse":
                return Enum(ORDERING, {"Less": "Greater", "Greater": "Less", "Equal": "Equal"}[a0.variant])
        if isinstance(a0, bool):
            if fname == "then_some" and len(args) == 2:
                return some(args[1]) if a0 else NONE
            if fname == "then" and len(args) == 2:
                return some(self.apply(args[1], [], depth)) if a0 else NONE
        if isinstance(a0, list):
            if fname == "is_empty":
                return len(a0) == 0
            if fname in ("len", "count"):
                return len(a0)
            if fname == "sum" and all(isinstance(x, int) and not isinstance(x, bool) for x in a0):
                return sum(a0)
            if fname in ("max", "min") and len(args) == 1 and a0 and all(isinstance(x, int) and not isinstance(x, bool) for x in a0):
                return some(max(a0) if fname == "max" else min(a0))
            if fname == "replace" and len(args) == 3 and all(isinstance(x, list) and all(isinstance(y, int) for y in x) for x in args) and args[1]:
                # bstr's ByteSlice::replace on byte strings
                data, old_, new_ = bytes(args[0]), bytes(args[1]), bytes(args[2])
                return list(data.replace(old_, new_))
            if fname in ("find_byte", "rfind_byte") and len(args) == 2 and isinstance(args[1], int) and all(isinstance(y, int) for y in a0):
                idx = [i_ for i_, y in enumerate(a0) if y == args[1]]
                return NONE if not idx else some(idx[0] if fname == "find_byte" else idx[-1])
            if fname in ("find", "contains_str") and len(args) == 2 and isinstance(args[1], list) and all(isinstance(y, int) for y in a0 + args[1]) and "bstr" in path:
                i = bytes(a0).find(bytes(args[1]))
                return (some(i) if i >= 0 else NONE) if fname == "find" else i >= 0
            if fname in ("first", "next", "first_mut"):
                return some(a0[0]) if a0 else NONE
            if fname in ("last", "last_mut"):
                return some(a0[-1]) if a0 else NONE
            if fname in ("get", "get_mut") and len(args) == 2 and isinstance(args[1], int):
                return some(a0[args[1]]) if 0 <= args[1] < len(a0) else NONE
            if fname == "remove" and len(args) == 2 and isinstance(args[1], int) and 0 <= args[1] < len(a0):
                return a0.pop(args[1])
            if fname == "truncate" and len(args) == 2 and isinstance(args[1], int):
                del a0[args[1]:]
                return UNIT
            if fname == "retain" and len(args) == 2:
                keep = []
                for x in list(a0):
                    r = self.truth(self.apply(args[1], [x], depth))
                    if r is UNKNOWN:
                        return self.unknown("retain predicate")
                    if r:
                        keep.append(x)
                a0[:] = keep
                return UNIT
            if fname == "contains" and len(args) == 2:
                if args[1] is UNKNOWN or any(x is UNKNOWN for x in a0):
                    return UNKNOWN
                return args[1] in a0
            if fname in ("find", "position") and len(args) == 2:
                for i, x in enumerate(a0):
                    r = self.truth(self.apply(args[1], [x], depth))
                    if r is UNKNOWN:
                        return UNKNOWN
                    if r:
                        return some(x if fname == "find" else i)
                return NONE
            if fname == "windows" and len(args) == 2 and isinstance(args[1], int) and args[1] > 0:
                return Iter([a0[i:i + args[1]] for i in range(0, len(a0) - args[1] + 1)])
            if fname in ("chunks",) and len(args) == 2 and isinstance(args[1], int) and args[1] > 0:
                return Iter([a0[i:i + args[1]] for i in range(0, len(a0), args[1])])
            if fname in ("take_while", "skip_while", "map_while") and len(args) == 2:
                out, i = [], 0
                for i, x in enumerate(a0):
                    r = self.apply(args[1], [x], depth)
                    if fname == "map_while":
                        if not (isinstance(r, Enum) and r.adt == OPTION):
                            return self.unknown("map_while closure result")
                        if r.variant == "None":
                            break
                        out.append(r.fields.get("0", UNKNOWN))
                        continue
                    r = self.truth(r)
                    if r is UNKNOWN:
                        return UNKNOWN
                    if not r:
                        return out if fname == "take_while" else a0[i:]
                    if fname == "take_while":
                        out.append(x)
                return out if fname in ("take_while", "map_while") else []
            if fname == "try_fold" and len(args) == 3:
                acc = args[1]
                for x in a0:
                    r = self.apply(args[2], [acc, x], depth)
                    if not (isinstance(r, Enum) and r.adt in (OPTION, RESULT, CONTROL_FLOW)):
                        return self.unknown("try_fold closure result")
                    if r.variant in ("None", "Err", "Break"):
                        return r
                    acc = r.fields.get("0", UNKNOWN)
                # success: wrap like the closure does (Some / Ok / Continue)
                return r.__class__(r.adt, r.variant, {"0": acc}) if a0 else self.unknown("try_fold on an empty sequence")
            if fname in ("split_first", "split_last", "split_first_mut", "split_last_mut") and len(args) == 1:
                if not a0:
                    return NONE
                def elem(i_):
                    x_ = a0[i_]
                    return x_ if isinstance(x_, (Struct, Enum, list, PyMap, PySet)) or not fname.endswith("_mut") else Ref(a0, i_ % len(a0))
                return some((elem(0), a0[1:])) if fname.startswith("split_first") else some((elem(-1), a0[:-1]))
            if fname in ("concat", "join") and all(isinstance(x, str) for x in a0):
                sep = args[1] if fname == "join" and len(args) == 2 and isinstance(args[1], str) else ""
                return sep.join(a0)
            if fname == "concat" and all(isinstance(x, list) for x in a0):
                return [y for x in a0 for y in x]
            if fname in ("step_by",) and len(args) == 2 and isinstance(args[1], int) and args[1] > 0:
                return a0[::args[1]]
            if fname == "nth" and len(args) == 2 and isinstance(args[1], int):
                return some(a0[args[1]]) if 0 <= args[1] < len(a0) else NONE
            if fname in ("min_by_key", "max_by_key") and len(args) == 2:
                if not a0:
                    return NONE
                try:
                    keyed = [(_sortable(self.apply(args[1], [x], depth)), x) for x in a0]
                    # std: min_by_key returns the first minimum, max_by_key the last maximum
                    if fname == "min_by_key":
                        return some(min(keyed, key=lambda kv: kv[0])[1])
                    return some(max(reversed(keyed), key=lambda kv: kv[0])[1])
                except TypeError:
                    return self.unknown("%s key" % fname)
            if fname == "find_map" and len(args) == 2:
                for x in a0:
                    r = self.apply(args[1], [x], depth)
                    if not (isinstance(r, Enum) and r.adt == OPTION):
                        return self.unknown("find_map closure result")
                    if r.variant == "Some":
                        return r
                return NONE
            if fname in ("rfind", "rposition") and len(args) == 2:
                for i in range(len(a0) - 1, -1, -1):
                    r = self.truth(self.apply(args[1], [a0[i]], depth))
                    if r is UNKNOWN:
                        return UNKNOWN
                    if r:
                        return some(a0[i] if fname == "rfind" else i)
                return NONE
            if fname in ("fold", "rfold") and len(args) == 3:
                acc = args[1]
                for x in (a0 if fname == "fold" else reversed(a0)):
                    acc = self.apply(args[2], [acc, x], depth)
                return acc
            if fname == "for_each" and len(args) == 2:
                for x in a0:
                    self.apply(args[1], [x], depth)
                return UNIT
            if fname == "inspect" and len(args) == 2:
                for x in a0:
                    self.apply(args[1], [x], depth)
                return a0
            if fname == "enumerate":
                return [(i, x) for i, x in enumerate(a0)]
            if fname == "zip" and len(args) == 2 and isinstance(args[1], (Iter, list)):
                other = args[1].rest() if isinstance(args[1], Iter) else args[1]
                return [(x, y) for x, y in zip(a0, other)]
            if fname == "skip" and len(args) == 2 and isinstance(args[1], int):
                return a0[args[1]:]
            if fname == "take" and len(args) == 2 and isinstance(args[1], int):
                return a0[:args[1]]
            if fname in ("any", "all") and len(args) == 2:
                unk = False
                for x in a0:
                    r = self.truth(self.apply(args[1], [x], depth))
                    if r is UNKNOWN:
                        unk = True
                    elif r is (fname == "any"):
                        return r
                return UNKNOWN if unk else (fname == "all")
            if fname == "rev":
                return list(reversed(a0))
            if fname == "chain" and len(args) == 2 and isinstance(args[1], (list, Iter)):
                return a0 + (args[1].rest() if isinstance(args[1], Iter) else args[1])
            if fname == "chain" and len(args) == 2 and isinstance(args[1], Enum) and args[1].adt == OPTION:
                return a0 + ([args[1].fields.get("0", UNKNOWN)] if args[1].variant == "Some" else [])
            if fname in ("map",) and len(args) == 2:
                return [self.apply(args[1], [x], depth) for x in a0]
            if fname == "flat_map" and len(args) == 2:
                out = []
                for x in a0:
                    r = self.apply(args[1], [x], depth)
                    r = r.rest() if isinstance(r, Iter) else r
                    if isinstance(r, Enum) and r.adt == OPTION:
                        r = [r.fields.get("0", UNKNOWN)] if r.variant == "Some" else []
                    if not isinstance(r, list):
                        return self.unknown("flat_map closure result")
                    out.extend(r)
                return out
            if fname == "filter_map" and len(args) == 2:
                out = []
                for x in a0:
                    r = self.apply(args[1], [x], depth)
                    if not (isinstance(r, Enum) and r.adt == OPTION):
                        return self.unknown("filter_map closure result")
                    if r.variant == "Some":
                        out.append(r.fields.get("0", UNKNOWN))
                return out
            if fname == "flatten":
                out = []
                for x in a0:
                    x = x.rest() if isinstance(x, Iter) else x
                    if isinstance(x, Enum) and x.adt == OPTION:
                        x = [x.fields.get("0", UNKNOWN)] if x.variant == "Some" else []
                    if not isinstance(x, list):
                        return self.unknown("flatten element")
                    out.extend(x)
                return out
            if fname in ("filter",) and len(args) == 2:
                out = []
                for x in a0:
                    r = self.truth(self.apply(args[1], [x], depth))
                    if r is UNKNOWN:
                        return UNKNOWN
                    if r:
                        out.append(x)
                return out
            if fname == "collect":
                return a0
        return self.unknown("call %s" % (path or fname))

    def format_one(self, arg, flags, width, prec):
        """Text of one `{}` placeholder for integers, chars, text and booleans (None: not modelled, e.g. floats)."""
        v, kind, ty = deref(arg.fields.get("v")), arg.fields.get("kind", "display"), arg.fields.get("ty", "")
        fill = chr(flags & 0x1FFFFF)
        align = (flags >> 29) & 3
        zero, plus, alt = bool(flags & (1 << 24)), bool(flags & (1 << 21)), bool(flags & (1 << 23))
        numeric = False
        if isinstance(v, bool):
            if kind not in ("display", "debug"):
                return None
            body = "true" if v else "false"
        elif isinstance(v, int):
            if ty == "char":
                if kind != "display":
                    return None
                body = chr(v)
            else:
                numeric = True
                neg, mag = v < 0, abs(v)
                if kind in ("display", "debug"):
                    digits, prefix = str(mag), ""
                elif kind == "lower_hex":
                    digits, prefix = "%x" % mag, "0x" if alt else ""
                elif kind == "upper_hex":
                    digits, prefix = "%X" % mag, "0x" if alt else ""
                elif kind == "binary":
                    digits, prefix = bin(mag)[2:], "0b" if alt else ""
                elif kind == "octal":
                    digits, prefix = oct(mag)[2:], "0o" if alt else ""
                else:
                    return None
                if neg and kind not in ("display", "debug"):
                    return None
                sign = "-" if neg else ("+" if plus else "")
                if zero and width is not None:
                    digits = digits.rjust(max(0, width - len(sign) - len(prefix)), "0")
                    return sign + prefix + digits
                body = sign + prefix + digits
        elif isinstance(v, float):
            from . import floatfmt
            if prec is not None:
                return None
            if kind == "display":
                body = floatfmt.display(v)
            elif kind in ("lower_exp", "upper_exp"):
                body = floatfmt.lower_exp(v, kind == "upper_exp")
            else:
                return None
            if plus and not body.startswith("-"):
                body = "+" + body
            numeric = True
        elif isinstance(v, str):
            if kind != "display":
                return None
            body = str(v)
            if prec is not None:
                body = body[:prec]
        else:
            return None
        if width is not None and len(body) < width:
            pad = width - len(body)
            if align == 3:
                align = 1 if numeric else 0
            if align == 0:
                body = body + fill * pad
            elif align == 1:
                body = fill * pad + body
            else:
                body = fill * (pad // 2) + body + fill * (pad - pad // 2)
        return body

    # ---- std::path (Unix), see sa/pathmodel.py -------------------------------------------------------
    def std_paths(self, path, fname, rargs, args, a0, node, depth):
        from . import pathmodel as pm
        PathV = pm.PathV
        COMP = "std::path::Component"

        def comp(c):
            return Enum(COMP, c[0], {"0": c[1]} if c[0] == "Normal" else {})

        def text_of(x):
            """text of a path-like argument (path, string, OsStr, Component), or None"""
            x = deref(x)
            if isinstance(x, str):
                return str(x)
            if isinstance(x, Enum) and x.adt == COMP:
                return {"RootDir": "/", "CurDir": ".", "ParentDir": ".."}.get(x.variant, x.fields.get("0") if isinstance(x.fields.get("0"), str) else None)
            if isinstance(x, Iter) and all(isinstance(c, Enum) and c.adt == COMP for c in x.rest()):
                # `Components` is AsRef<Path>: the path that is left to walk
                buf = ""
                for c in x.rest():
                    t = text_of(c)
                    if t is None:
                        return None
                    buf = pm.push(buf, t)
                return str(buf)
            return None

        def static_ty(i):
            if node is not None and node.get("args") and i < len(node["args"]) and "t" in node["args"][i]:
                return self.lib.ty_str(self.lib.strip_refs(node["args"][i]["t"]))
            return ""
        ret_t = self.lib.ty_str(self.lib.strip_refs(node["t"])) if node is not None and "t" in node else ""
        is_path_ty = lambda t: t in ("std::path::Path", "std::path::PathBuf")
        r0 = rargs[0] if rargs else None
        # Component values
        if isinstance(a0, Enum) and a0.adt == COMP:
            if fname in ("as_os_str", "as_ref") and len(args) == 1:
                t = text_of(a0)
                return t if t is not None else UNKNOWN
            return NotImplemented
        # comparisons where one side is statically a Path: component-wise
        if fname in ("eq", "ne") and len(args) == 2 and isinstance(a0, str) and isinstance(args[1], str) and \
                (is_path_ty(static_ty(0)) or is_path_ty(static_ty(1)) or isinstance(a0, PathV) or isinstance(args[1], PathV)) and \
                not ("os_str::OsStr" in static_ty(0) and "os_str::OsStr" in static_ty(1)):
            same = pm.components(a0) == pm.components(args[1])
            return same if fname == "eq" else not same
        # collecting pieces into an OsString: concatenation
        if fname in ("from_iter", "collect") and len(args) == 1 and ret_t == "std::ffi::os_str::OsString" and isinstance(a0, (list, Iter)):
            parts = [text_of(x) for x in (a0.rest() if isinstance(a0, Iter) else a0)]
            if any(t is None for t in parts):
                return self.unknown("OsString built from a value that is not text")
            return "".join(parts)
        # collecting components / names into a PathBuf
        if fname in ("from_iter", "collect") and len(args) == 1 and ret_t == "std::path::PathBuf" and isinstance(a0, (list, Iter)):
            buf = ""
            for x in (a0.rest() if isinstance(a0, Iter) else a0):
                t = text_of(x)
                if t is None:
                    return self.unknown("path built from a value that is not text")
                buf = pm.push(buf, t)
            return PathV(buf)
        if path.startswith("pathdiff::") and fname == "diff_paths" and len(args) == 2 and isinstance(a0, str) and isinstance(args[1], str):
            d = pm.diff_paths(a0, args[1])
            return some(d) if d is not None else NONE
        on_path = ("std::path::Path" in path or "std::path::PathBuf" in path or
                   (isinstance(a0, PathV) and ("std::path::" in path or "::" not in path or path.startswith("core::convert::"))))
        on_os = "ffi::os_str::" in path
        if not (on_path or on_os):
            return NotImplemented
        if fname == "new" and not args:
            return PathV("")
        if not isinstance(a0, str):
            return NotImplemented
        if on_os:
            # OsStr / OsString are text
            if fname in ("new", "from", "to_os_string", "to_owned", "into_os_string", "as_os_str", "as_ref", "to_string_lossy", "into_string", "as_encoded_bytes", "into"):
                if fname == "as_encoded_bytes":
                    return list(str(a0).encode("utf-8"))
                return str(a0) if fname != "into_string" else ok(str(a0))
            if fname == "to_str":
                return some(str(a0))
            if fname == "push" and isinstance(r0, Ref) and len(args) == 2 and text_of(args[1]) is not None:
                r0.set(str(a0) + text_of(args[1]))
                return UNIT
            if fname in ("len",):
                return len(a0.encode("utf-8"))
            if fname == "is_empty":
                return a0 == ""
            if fname in ("eq", "ne") and len(args) == 2 and isinstance(args[1], str):
                return (str(a0) == str(args[1])) if fname == "eq" else (str(a0) != str(args[1]))
            return NotImplemented
        # ---- Path / PathBuf ----
        if fname in ("new", "from", "to_path_buf", "as_path", "as_ref", "to_owned", "into_boxed_path", "into", "clone", "borrow", "deref", "into_path_buf", "as_mut_os_string"):
            return PathV(a0)
        if fname in ("as_os_str", "into_os_string", "to_string_lossy", "display", "as_mut_os_str"):
            return str(a0)
        if fname == "to_str":
            return some(str(a0))
        if fname in ("components", "iter"):
            cs = pm.components(a0)
            return Iter([comp(c) for c in cs] if fname == "components" else [pm.comp_text(c) for c in cs])
        if fname in ("has_root", "is_absolute"):
            return pm.has_root(a0)
        if fname == "is_relative":
            return not pm.has_root(a0)
        if fname == "parent":
            p_ = pm.parent(a0)
            return some(p_) if p_ is not None else NONE
        if fname == "ancestors":
            out, cur = [], PathV(a0)
            while cur is not None:
                out.append(cur)
                cur = pm.parent(cur)
            return Iter(out)
        if fname in ("file_name", "file_stem", "extension"):
            v = getattr(pm, fname)(a0)
            return some(v) if v is not None else NONE
        if len(args) == 2 and text_of(args[1]) is not None:
            x = text_of(args[1])
            if fname == "join":
                return pm.push(a0, x)
            if fname == "push" and isinstance(r0, Ref):
                r0.set(pm.push(a0, x))
                return UNIT
            if fname == "with_file_name":
                return pm.set_file_name(a0, x)
            if fname == "set_file_name" and isinstance(r0, Ref):
                r0.set(pm.set_file_name(a0, x))
                return UNIT
            if fname == "with_extension":
                return pm.set_extension(a0, x)[0]
            if fname == "set_extension" and isinstance(r0, Ref):
                new, changed = pm.set_extension(a0, x)
                r0.set(new)
                return changed
            if fname == "starts_with":
                return pm.starts_with(a0, x)
            if fname == "ends_with":
                return pm.ends_with(a0, x)
            if fname == "strip_prefix":
                rest = pm.strip_prefix(a0, x)
                return ok(rest) if rest is not None else err(Struct("#StripPrefixError", {}))
            if fname in ("eq", "ne"):
                same = pm.components(a0) == pm.components(x)
                return same if fname == "eq" else not same
        if fname == "pop" and isinstance(r0, Ref) and len(args) == 1:
            new, popped = pm.pop(a0)
            r0.set(new)
            return popped
        if fname == "extend" and isinstance(r0, Ref) and len(args) == 2 and isinstance(args[1], (list, Iter)):
            buf = a0
            for x in (args[1].rest() if isinstance(args[1], Iter) else args[1]):
                t = text_of(x)
                if t is None:
                    return self.unknown("path extended with a value that is not text")
                buf = pm.push(buf, t)
            r0.set(PathV(buf))
            return UNIT
        if fname == "clear" and isinstance(r0, Ref):
            r0.set(PathV(""))
            return UNIT
        if fname in ("exists", "is_file", "is_dir", "metadata", "canonicalize", "read_dir", "symlink_metadata", "read_link"):
            return self.unknown("file-system access %s" % fname)
        return NotImplemented

    # ---- strings, chars, maps, sets, ranges ---------------------------------------------------------
    def std_text_and_maps(self, path, fname, rargs, args, a0, node, depth):
        ret_t = self.lib.ty_str(self.lib.strip_refs(node["t"])) if node is not None and "t" in node else ""
        # constructors chosen by the static result type
        if fname in ("new", "default", "with_capacity", "with_hasher", "with_capacity_and_hasher") and (not args or not isinstance(a0, (PyMap, PySet, list, str))):
            if any(t in ret_t.split("<")[0] for t in MAP_TYPES) or any(t in path for t in MAP_TYPES):
                return PyMap(sorted_="btree" in (ret_t + path))
            if any(t in ret_t.split("<")[0] for t in SET_TYPES) or any(t in path for t in SET_TYPES):
                return PySet(sorted_="btree" in (ret_t + path))
            if ret_t == "alloc::string::String" or "string::String" in path:
                return ""
        if fname == "from" and len(args) == 1 and isinstance(a0, list) and "convert::From" in path:
            # `HashSet::from([a, b])`, `HashMap::from([(k, v)])`, `Vec::from([..])`: built from the array's elements
            head_ = ret_t.split("<")[0]
            if any(t in head_ for t in SET_TYPES):
                return PySet(list(a0), sorted_="btree" in ret_t)
            if any(t in head_ for t in MAP_TYPES) and all(isinstance(x, tuple) and len(x) == 2 for x in a0):
                m_ = PyMap(sorted_="btree" in ret_t)
                for k_, v_ in a0:
                    m_.d[k_] = v_
                return m_
            if head_ in ("alloc::vec::Vec", "alloc::collections::vec_deque::VecDeque"):
                return list(a0)
        if fname == "new" and "range::RangeInclusive" in path and len(args) == 2:
            return Struct(RANGE, {"start": args[0], "end": args[1] + 1 if isinstance(args[1], int) else UNKNOWN})
        # ---- char (code point) ------------------------------------------------------------------------
        if isinstance(a0, int) and not isinstance(a0, bool) and ("char" in path or "u8" in path or "ascii" in fname):
            c = a0
            table = {
                "is_ascii_digit": 48 <= c <= 57, "is_ascii_alphabetic": 65 <= c <= 90 or 97 <= c <= 122,
                "is_ascii_alphanumeric": 48 <= c <= 57 or 65 <= c <= 90 or 97 <= c <= 122, "is_ascii": c < 128,
                "is_ascii_lowercase": 97 <= c <= 122, "is_ascii_uppercase": 65 <= c <= 90, "is_ascii_graphic": 33 <= c <= 126,
                "is_ascii_whitespace": c in (32, 9, 10, 12, 13), "is_ascii_control": c < 32 or c == 127,
                "is_ascii_punctuation": (33 <= c <= 47) or (58 <= c <= 64) or (91 <= c <= 96) or (123 <= c <= 126),
                "is_ascii_hexdigit": chr(c) in "0123456789abcdefABCDEF" if c < 128 else False,
            }
            if fname in table and len(args) == 1:
                return table[fname]
            if fname == "to_digit" and len(args) == 2 and isinstance(args[1], int) and 2 <= args[1] <= 36 and "char" in path:
                ch_ = chr(c).lower() if c < 128 else ""
                d_ = "0123456789abcdefghijklmnopqrstuvwxyz".find(ch_) if ch_ else -1
                return some(d_) if 0 <= d_ < args[1] else NONE
            if fname == "is_digit" and len(args) == 2 and isinstance(args[1], int) and "char" in path:
                ch_ = chr(c).lower() if c < 128 else ""
                d_ = "0123456789abcdefghijklmnopqrstuvwxyz".find(ch_) if ch_ else -1
                return 0 <= d_ < args[1]
            if fname == "from_u32" and len(args) == 1 and "char" in path:
                return some(c) if 0 <= c <= 0x10FFFF and not 0xD800 <= c <= 0xDFFF else NONE
            if fname == "from_digit" and len(args) == 2 and isinstance(args[1], int) and "char" in path:
                return some(ord("0123456789abcdefghijklmnopqrstuvwxyz"[c])) if 0 <= c < args[1] <= 36 else NONE
            if fname == "encode_utf8" and "char" in path and 0 <= c <= 0x10FFFF and not 0xD800 <= c <= 0xDFFF:
                return chr(c)        # the encoded text (the buffer it is written to is not modelled)
            if fname == "len_utf8" and "char" in path:
                return len(chr(c).encode("utf-8")) if not 0xD800 <= c <= 0xDFFF else 3
            if c < 128:
                if fname == "is_digit" and len(args) == 2 and args[1] == 10:
                    return 48 <= c <= 57
                if fname == "is_numeric" and len(args) == 1:
                    return 48 <= c <= 57
                if fname == "is_alphabetic" and len(args) == 1:
                    return 65 <= c <= 90 or 97 <= c <= 122
                if fname == "is_alphanumeric" and len(args) == 1:
                    return 48 <= c <= 57 or 65 <= c <= 90 or 97 <= c <= 122
                if fname == "is_whitespace" and len(args) == 1:
                    return c in (32, 9, 10, 11, 12, 13)
                if fname == "is_lowercase" and len(args) == 1:
                    return 97 <= c <= 122
                if fname == "is_uppercase" and len(args) == 1:
                    return 65 <= c <= 90
                if fname == "is_control" and len(args) == 1:
                    return c < 32 or c == 127
                if fname in ("to_ascii_lowercase", "to_ascii_uppercase"):
                    return ord(chr(c).lower() if "lower" in fname else chr(c).upper())
        # ---- str / String -----------------------------------------------------------------------------
        if isinstance(a0, str):
            def txt(x):
                return chr(x) if isinstance(x, int) and not isinstance(x, bool) else x
            r0 = rargs[0] if rargs else None
            if fname in ("push_str", "push") and len(args) == 2 and isinstance(r0, Ref) and isinstance(txt(args[1]), str):
                r0.set(a0 + txt(args[1]))
                return UNIT
            if fname == "clear" and isinstance(r0, Ref):
                r0.set("")
                return UNIT
            if fname == "write_str" and isinstance(r0, Ref) and len(args) == 2 and isinstance(args[1], str):
                r0.set(a0 + args[1])
                return ok(UNIT)
            if fname == "write_char" and isinstance(r0, Ref) and len(args) == 2 and isinstance(args[1], int):
                r0.set(a0 + chr(args[1]))
                return ok(UNIT)
            if fname == "write_fmt" and isinstance(r0, Ref) and len(args) == 2 and isinstance(args[1], Struct) and args[1].adt == "#FmtArgs":
                txt = self.call_named("alloc::fmt::format", "format", [args[1]], None, depth)
                if isinstance(txt, str):
                    r0.set(a0 + txt)
                    return ok(UNIT)
                return self.unknown("write! with arguments that are not text")
            if fname == "extend" and isinstance(r0, Ref) and len(args) == 2:
                seq = args[1].rest() if isinstance(args[1], Iter) else args[1]
                if isinstance(seq, list) and all(isinstance(x, (int, str)) and not isinstance(x, bool) for x in seq):
                    r0.set(a0 + "".join(chr(x) if isinstance(x, int) else x for x in seq))
                    return UNIT
            if fname == "pop" and isinstance(r0, Ref) and len(args) == 1:
                if a0 == "":
                    return NONE
                r0.set(a0[:-1])
                return some(ord(a0[-1]))
            if fname == "truncate" and isinstance(r0, Ref) and len(args) == 2 and isinstance(args[1], int) and a0.isascii():
                r0.set(a0[:args[1]])
                return UNIT
            if fname == "insert_str" and isinstance(r0, Ref) and len(args) == 3 and isinstance(args[1], int) and isinstance(args[2], str) and a0.isascii():
                r0.set(a0[:args[1]] + args[2] + a0[args[1]:])
                return UNIT
            if fname == "insert" and isinstance(r0, Ref) and len(args) == 3 and isinstance(args[1], int) and isinstance(args[2], int) and a0.isascii():
                r0.set(a0[:args[1]] + chr(args[2]) + a0[args[1]:])
                return UNIT
            if fname == "len":
                return len(a0.encode("utf-8"))
            if fname == "is_empty":
                return a0 == ""
            if fname == "is_ascii":
                return a0.isascii()
            if fname == "chars":
                return Iter([ord(c) for c in a0])
            if fname == "char_indices":
                out, i = [], 0
                for c in a0:
                    out.append((i, ord(c)))
                    i += len(c.encode("utf-8"))
                return Iter(out)
            if fname in ("bytes", "as_bytes", "into_bytes"):
                b = list(a0.encode("utf-8"))
                return Iter(b) if fname == "bytes" else b
            if fname == "lines":
                return Iter(a0.splitlines())
            if fname in ("is_char_boundary",) and len(args) == 2 and isinstance(args[1], int):
                return True if a0.isascii() else self.unknown("char boundary in non-ASCII text")
            if fname in ("replace", "replacen") and len(args) >= 3 and isinstance(txt(args[1]), str) and isinstance(txt(args[2]), str) and txt(args[1]):
                if fname == "replacen" and len(args) == 4 and isinstance(args[3], int):
                    return a0.replace(txt(args[1]), txt(args[2]), args[3])
                return a0.replace(txt(args[1]), txt(args[2]))
            if len(args) == 2 and isinstance(txt(args[1]), str):
                x = txt(args[1])
                if fname == "starts_with":
                    return a0.startswith(x)
                if fname == "ends_with":
                    return a0.endswith(x)
                if fname == "contains":
                    return x in a0
                if fname == "strip_prefix":
                    return some(a0[len(x):]) if a0.startswith(x) else NONE
                if fname == "strip_suffix":
                    return some(a0[:len(a0) - len(x)]) if x and a0.endswith(x) else (some(a0) if not x else NONE)
                if fname == "trim_matches" and x:
                    while a0.startswith(x):
                        a0 = a0[len(x):]
                    while a0.endswith(x):
                        a0 = a0[:len(a0) - len(x)]
                    return a0
                if fname == "trim_start_matches" and x:
                    while a0.startswith(x):
                        a0 = a0[len(x):]
                    return a0
                if fname == "trim_end_matches" and x:
                    while a0.endswith(x):
                        a0 = a0[:len(a0) - len(x)]
                    return a0
                if fname == "find" and a0.isascii():
                    i = a0.find(x)
                    return some(i) if i >= 0 else NONE
                if fname == "rfind" and a0.isascii():
                    i = a0.rfind(x)
                    return some(i) if i >= 0 else NONE
                if fname == "split":
                    return Iter(a0.split(x)) if x else self.unknown("split on empty pattern")
                if fname == "matches":
                    return Iter([x] * a0.count(x)) if x else self.unknown("matches of empty pattern")
            if len(args) == 2 and (isinstance(args[1], (Closure, FnItem, Native)) or
                                   (isinstance(args[1], list) and args[1] and all(isinstance(c, int) and not isinstance(c, bool) for c in args[1]))):
                # a predicate / char-set pattern
                pat = args[1]
                def hit(ch, pat=pat):
                    if isinstance(pat, list):
                        return ord(ch) in pat
                    return self.apply(pat, [ord(ch)], depth + 1)
                def all_known(text):
                    res = [hit(ch) for ch in text]
                    return res if all(isinstance(r, bool) for r in res) else None
                res = all_known(a0)
                if res is None:
                    return self.unknown("pattern predicate is not decided on the text")
                if fname == "starts_with":
                    return bool(res) and res[0]
                if fname == "ends_with":
                    return bool(res) and res[-1]
                if fname == "contains":
                    return any(res)
                if fname in ("find", "rfind"):
                    idx = [i for i, r in enumerate(res) if r]
                    if not idx:
                        return NONE
                    i = idx[0] if fname == "find" else idx[-1]
                    return some(len(a0[:i].encode("utf-8")))
                if fname in ("trim_start_matches", "trim_matches", "trim_end_matches"):
                    lo, hi = 0, len(a0)
                    if fname != "trim_end_matches":
                        while lo < hi and res[lo]:
                            lo += 1
                    if fname != "trim_start_matches":
                        while hi > lo and res[hi - 1]:
                            hi -= 1
                    return a0[lo:hi]
                if fname == "strip_prefix":
                    return some(a0[1:]) if res and res[0] else NONE
                if fname == "strip_suffix":
                    return some(a0[:-1]) if res and res[-1] else NONE
                if fname == "split":
                    out, cur = [], ""
                    for ch, r in zip(a0, res):
                        if r:
                            out.append(cur)
                            cur = ""
                        else:
                            cur += ch
                    out.append(cur)
                    return Iter(out)
                if fname == "matches":
                    return Iter([ch for ch, r in zip(a0, res) if r])
            if fname == "parse" and len(args) == 1 and ret_t.startswith("core::result::Result<"):
                inner = ret_t[len("core::result::Result<"):].split(",")[0].strip()
                cand = self.lib.fn("<%s as core::str::traits::FromStr>::from_str" % inner)
                if cand is not None and thir.body_of(cand):
                    return self.call_fn(cand, [a0], depth + 1)
                if inner in ("f64", "f32"):
                    from . import floatfmt
                    v_ = floatfmt.parse_f64(a0)
                    return ok(v_) if v_ is not None else err(Struct("#ParseFloatError", {}))
                m_ = re.fullmatch(r"([iu])(8|16|32|64|128|size)", inner)
                if m_:
                    bits = 64 if m_.group(2) == "size" else int(m_.group(2))
                    signed = m_.group(1) == "i"
                    if re.fullmatch(r"[+-]?[0-9]+" if signed else r"\+?[0-9]+", a0):
                        v_ = int(a0)
                        lo_, hi_ = (-(1 << (bits - 1)), (1 << (bits - 1)) - 1) if signed else (0, (1 << bits) - 1)
                        if lo_ <= v_ <= hi_:
                            return ok(v_)
                    return err(Struct("#ParseIntError", {}))
            if fname == "trim":
                return a0.strip()
            if fname == "trim_start":
                return a0.lstrip()
            if fname == "trim_end":
                return a0.rstrip()
            if fname == "repeat" and len(args) == 2 and isinstance(args[1], int):
                return a0 * args[1]
            if fname in ("to_lowercase", "to_ascii_lowercase"):
                return a0.lower()
            if fname in ("to_uppercase", "to_ascii_uppercase"):
                return a0.upper()
            if fname == "get" and len(args) == 2 and isinstance(args[1], Struct) and args[1].adt.startswith("core::ops::range::") and a0.isascii():
                lo = args[1].fields.get("start", 0)
                hi = args[1].fields.get("end", len(a0))
                if isinstance(lo, int) and isinstance(hi, int):
                    return some(a0[lo:hi]) if 0 <= lo <= hi <= len(a0) else NONE
            if fname == "index" and len(args) == 2 and isinstance(args[1], Struct) and args[1].adt.startswith("core::ops::range::") and a0.isascii():
                lo = args[1].fields.get("start", 0)
                hi = args[1].fields.get("end", len(a0))
                if isinstance(lo, int) and isinstance(hi, int) and 0 <= lo <= hi <= len(a0):
                    return a0[lo:hi]
            if fname == "cmp" and len(args) == 2 and isinstance(args[1], str):
                return ordering(a0, args[1])
        if fname == "from_iter" and len(args) == 1 and isinstance(a0, (Iter, list, PyMap, PySet)):
            seq = a0.rest() if isinstance(a0, Iter) else (a0.items() if isinstance(a0, (PyMap, PySet)) else a0)
            tgt = ret_t.split("<")[0] if ret_t else path[1:].split(" as ")[0].split("<")[0]
            if any(t in tgt for t in MAP_TYPES) and all(isinstance(x, tuple) and len(x) == 2 for x in seq):
                return PyMap(seq, sorted_="btree" in tgt)
            if any(t in tgt for t in SET_TYPES):
                return PySet(seq, sorted_="btree" in tgt)
            if tgt == "alloc::string::String" and all(isinstance(x, (int, str)) and not isinstance(x, bool) for x in seq):
                return "".join(chr(x) if isinstance(x, int) else x for x in seq)
            return list(seq)
        if fname == "collect" and ret_t.split("<")[0] in self.lib.adts and isinstance(a0, (Iter, list)):
            # a local `impl FromIterator<..> for T`
            base = "<" + ret_t.split("<")[0]       # the impl may carry generic / lifetime parameters: `<T<'a> as FromIterator<..>>`
            cands = [f for k, f in self.lib.fns.items() if k.startswith(base) and k[len(base):len(base) + 1] in (" ", "<") and
                     " as core::iter::traits::collect::FromIterator<" in k and k.endswith(">::from_iter") and thir.body_of(f)]
            if cands:
                want = None
                seq = a0.rest() if isinstance(a0, Iter) else a0
                if len(cands) > 1 and seq:
                    x0 = seq[0]
                    for f in cands:
                        if isinstance(x0, (Struct, Enum)) and x0.adt in f["path"]:
                            want = f
                return self.call_fn(want or cands[0], [a0 if isinstance(a0, Iter) else Iter(a0)], depth + 1)
        if fname in ("collect", "from_iter") and ret_t.startswith(("core::result::Result<", "core::option::Option<")):
            seq = a0.rest() if isinstance(a0, Iter) else a0
            if isinstance(seq, list) and all(isinstance(x, Enum) and x.adt in (RESULT, OPTION) for x in seq):
                out = []
                for x in seq:
                    if x.variant in ("Err", "None"):
                        return x
                    out.append(x.fields.get("0", UNKNOWN))
                inner_t = ret_t.split("<", 1)[1]
                val = PySet(out) if any(t in inner_t.split("<")[0] for t in SET_TYPES) else out
                return ok(val) if ret_t.startswith("core::result::Result<") else some(val)
        # collecting chars / strings into a String
        if fname == "collect" and ret_t == "alloc::string::String":
            seq = a0.rest() if isinstance(a0, Iter) else a0
            if isinstance(seq, list) and all(isinstance(x, (int, str)) and not isinstance(x, bool) for x in seq):
                return "".join(chr(x) if isinstance(x, int) else x for x in seq)
        if fname in ("collect", "from_iter") and (any(t in ret_t.split("<")[0] for t in MAP_TYPES) or any(t in ret_t.split("<")[0] for t in SET_TYPES)):
            seq = a0.rest() if isinstance(a0, Iter) else (a0.items() if isinstance(a0, (PyMap, PySet)) else a0)
            if isinstance(seq, list):
                if any(t in ret_t.split("<")[0] for t in MAP_TYPES):
                    if all(isinstance(x, tuple) and len(x) == 2 for x in seq):
                        return PyMap(seq, sorted_="btree" in ret_t)
                else:
                    return PySet(seq, sorted_="btree" in ret_t)
        # ---- maps --------------------------------------------------------------------------------------
        if isinstance(a0, PyMap):
            d = a0.d
            key = args[1] if len(args) > 1 else None
            hashable = not isinstance(key, (list, PyMap, PySet)) and key is not UNKNOWN
            if fname in ("len",):
                return len(d)
            if fname == "is_empty":
                return not d
            if fname == "clear":
                d.clear()
                return UNIT
            if fname in ("iter", "iter_mut", "into_iter", "drain"):
                items = a0.items()
                if fname == "drain":
                    d.clear()
                return Iter(items)
            if fname in ("keys", "into_keys"):
                return Iter([k for k, _ in a0.items()])
            if fname in ("values", "values_mut", "into_values"):
                return Iter([v for _, v in a0.items()])
            if len(args) >= 2 and hashable:
                if fname == "insert" and len(args) == 3:
                    old = d.get(key, None)
                    had = key in d
                    d[key] = args[2]
                    return some(old) if had else NONE
                if fname in ("get", "get_mut"):
                    if key in d:
                        v = d[key]
                        return some(v if isinstance(v, (Struct, Enum, list, PyMap, PySet)) or fname == "get" else Ref(d, key))
                    return NONE
                if fname == "contains_key":
                    return key in d
                if fname in ("remove", "swap_remove", "shift_remove"):
                    return some(d.pop(key)) if key in d else NONE
                if fname == "entry":
                    h_ = Struct("#Entry", {"map": a0, "key": key})
                    adt_ = ret_t.split("<")[0] if ret_t.split("<")[0].endswith("::Entry") else "std::collections::hash::map::Entry"
                    return Enum(adt_, "Occupied" if key in d else "Vacant", {"0": h_})
            if fname == "extend" and len(args) == 2:
                seq = args[1].rest() if isinstance(args[1], Iter) else (args[1].items() if isinstance(args[1], PyMap) else args[1])
                if isinstance(seq, list) and all(isinstance(x, tuple) and len(x) == 2 for x in seq):
                    for k, v in seq:
                        d[k] = v
                    return UNIT
            if fname == "retain" and len(args) == 2:
                for k, v in list(d.items()):
                    r = self.truth(self.apply(args[1], [k, v], depth))
                    if r is UNKNOWN:
                        return self.unknown("retain predicate")
                    if not r:
                        del d[k]
                return UNIT
        if isinstance(a0, Enum) and a0.adt.endswith("::Entry") and isinstance(a0.fields.get("0"), Struct) and a0.fields["0"].adt == "#Entry":
            h_ = a0.fields["0"]
            if fname == "and_modify" and len(args) == 2:
                if h_.fields["key"] in h_.fields["map"].d:
                    v_ = h_.fields["map"].d[h_.fields["key"]]
                    self.apply(args[1], [v_ if isinstance(v_, (Struct, Enum, list, PyMap, PySet)) else Ref(h_.fields["map"].d, h_.fields["key"])], depth)
                return a0
            if fname == "key":
                return h_.fields["key"]
            a0 = h_         # or_insert & co. are defined on the entry
        if isinstance(a0, Struct) and a0.adt == "#Entry":
            m, key = a0.fields["map"], a0.fields["key"]
            if fname == "insert" and len(args) == 2:
                had, old_ = key in m.d, m.d.get(key)
                m.d[key] = args[1]
                if "Occupied" in path:
                    return old_ if had else UNKNOWN
                v_ = m.d[key]
                return v_ if isinstance(v_, (Struct, Enum, list, PyMap, PySet)) else Ref(m.d, key)
            if fname in ("get", "get_mut", "into_mut") and key in m.d:
                v_ = m.d[key]
                return v_ if isinstance(v_, (Struct, Enum, list, PyMap, PySet)) or fname == "get" else Ref(m.d, key)
            if fname in ("key", "into_key"):
                return key
            if fname in ("remove", "remove_entry") and key in m.d:
                v_ = m.d.pop(key)
                return v_ if fname == "remove" else (key, v_)
            if fname in ("or_default", "or_insert", "or_insert_with", "or_insert_with_key"):
                if key not in m.d:
                    if fname == "or_insert":
                        m.d[key] = args[1]
                    elif fname == "or_default":
                        t = ret_t
                        m.d[key] = PySet() if any(x in t for x in SET_TYPES) else (PyMap() if any(x in t for x in MAP_TYPES) else ([] if "Vec" in t else (0 if t in ("usize", "u32", "i32", "u64") else ("" if "String" in t else UNKNOWN))))
                    else:
                        m.d[key] = self.apply(args[1], [key] if fname.endswith("key") else [], depth)
                v = m.d[key]
                return v if isinstance(v, (Struct, Enum, list, PyMap, PySet)) else Ref(m.d, key)
        # ---- sets --------------------------------------------------------------------------------------
        if isinstance(a0, PySet):
            d = a0.d
            key = args[1] if len(args) > 1 else None
            if fname == "len":
                return len(d)
            if fname == "is_empty":
                return not d
            if fname == "clear":
                d.clear()
                return UNIT
            if fname in ("iter", "into_iter", "drain"):
                items = a0.items()
                if fname == "drain":
                    d.clear()
                return Iter(items)
            if len(args) == 2 and key is not UNKNOWN and not isinstance(key, (list, PyMap, PySet, Iter)):
                if fname == "insert":
                    had = key in d
                    d[key] = None
                    return not had
                if fname == "contains":
                    return key in d
                if fname in ("remove", "swap_remove", "shift_remove"):
                    had = key in d
                    d.pop(key, None)
                    return had
            if fname == "extend" and len(args) == 2:
                seq = args[1].rest() if isinstance(args[1], Iter) else (args[1].items() if isinstance(args[1], PySet) else args[1])
                if isinstance(seq, list):
                    for k in seq:
                        d[k] = None
                    return UNIT
        return NotImplemented

    def accessor_field(self, fn, recv):
        """Name of the receiver field a one-argument local function returns (directly or by reference), else None."""
        b = thir.body_of(fn)
        while b.get("k") == "Block" and not b["stmts"] and "tail" in b:
            b = b["tail"]
        self._accessor_copies = False
        while b.get("k") in PASS or (b.get("k") == "Call" and b.get("fname") in (IDENTITY_CALLS | ITER_CALLS) and len(b["args"]) == 1):
            if b.get("k") == "Call" and b.get("fname") in ITER_CALLS:
                return None  # not a plain accessor: evaluate the body (it builds an iterator)
            if b.get("k") == "Call" and b.get("fname") in ("clone", "to_owned", "to_vec"):
                self._accessor_copies = True
            b = b["e"] if b.get("k") in PASS else b["args"][0]
        if b.get("k") == "Field":
            base = b["e"]
            while base.get("k") in PASS:
                base = base["e"]
            if base.get("k") == "Var" and base.get("name") == "self":
                f = str(b.get("f", b.get("name")))
                if f in recv.fields:
                    return f
        return None

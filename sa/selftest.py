"""Thorough tier: seeded-fault self-tests on scratch copies of the repository."""
import importlib
import json
import os
import shutil
import subprocess
import sys
import time

from . import facts, report
from .ctx import Ctx

VERIF = facts.VERIF
sys.path.insert(0, VERIF)


def _copy_repo(dst):
    shutil.rmtree(dst, ignore_errors=True)
    os.makedirs(dst)
    for name in ("src", "benches", ".cargo"):
        s = os.path.join(facts.REPO, name)
        if os.path.isdir(s):
            shutil.copytree(s, os.path.join(dst, name))
    for name in ("Cargo.toml", "Cargo.lock"):
        shutil.copy(os.path.join(facts.REPO, name), dst)


def _violations(pid, repo):
    """Run property `pid` on `repo`; returns list of 'rule|key' strings of violated obligations (or raises)."""
    mod = importlib.import_module("sa.props." + pid.lower())
    R = report.Report(pid, "quick")
    ctx = Ctx(repo)
    mod.run(R, ctx)
    return [o["rule"] + "|" + o["key"] for o in R.obligations if not o["ok"]]


def run(R, ctx, pid):
    from selftest import specs
    muts = list(specs.M.get(pid, []))
    known_miss = []
    # kept seeded changes for this property
    seed_root = os.path.join(VERIF, "seeded")
    if os.path.isdir(seed_root):
        for d in sorted(os.listdir(seed_root)):
            meta = os.path.join(seed_root, d, "meta.json")
            if not os.path.exists(meta):
                continue
            mj = json.load(open(meta))
            if mj.get("property") != pid and not d.startswith(pid):
                continue
            if str(mj.get("caught_by", "")).startswith("MISSED"):
                known_miss.append(d)
                continue
            patch = os.path.join(seed_root, d, "patch_rebased.diff")
            if not os.path.exists(patch):
                patch = os.path.join(seed_root, d, "patch.diff")
            muts.append({"name": "seeded:" + d, "patch": patch, "expect": None, "caught_by": mj.get("caught_by")})
    # behaviour-preserving refactorings kept as fixtures: the checker must stay SILENT on them (false-alarm self-test)
    benign_root = os.path.join(VERIF, "benign")
    if os.path.isdir(benign_root):
        for d in sorted(os.listdir(benign_root)):
            if not d.startswith(pid):
                continue
            for f in sorted(os.listdir(os.path.join(benign_root, d))):
                if f.endswith(".diff"):
                    muts.append({"name": "benign:%s/%s" % (d, f), "patch": os.path.join(benign_root, d, f), "expect": None, "benign": True})
    baseline = set(o["rule"] + "|" + o["key"] for o in R.obligations if not o["ok"])
    results = []
    scratch = os.path.join(facts.WORK, "scratch", "%s-%d" % (pid, os.getpid()))
    t0 = time.time()
    try:
        for mu in muts:
            res = {"mutant": mu["name"], "expect": mu.get("expect")}
            _copy_repo(scratch)
            if "patch" in mu:
                r = subprocess.run(["patch", "-p1", "-s", "-f", "-i", mu["patch"]], cwd=scratch, capture_output=True, text=True)
                if r.returncode != 0:
                    res["status"] = "skipped (patch does not apply to the current tree)"
                    results.append(res)
                    continue
            else:
                p = os.path.join(scratch, mu["file"])
                s = open(p).read() if os.path.exists(p) else ""
                if mu["old"] not in s:
                    res["status"] = "skipped (anchor text no longer present)"
                    results.append(res)
                    continue
                s = s.replace(mu["old"], mu["new"], 1)
                for o2, n2 in mu.get("more", []):
                    s = s.replace(o2, n2, 1)
                open(p, "w").write(s)
            try:
                viol = _violations(pid, scratch)
            except facts.ExtractionError as e:
                res["status"] = "skipped (mutant does not build)"
                res["detail"] = str(e)[-300:]
                results.append(res)
                continue
            new = [v for v in viol if v not in baseline]
            if mu.get("benign"):
                res["status"] = "silent" if not new else "FALSE-ALARM"
                res["fired"] = new[:3]
                results.append(res)
                continue
            exp = mu.get("expect")
            hit = [v for v in new if exp is None or exp in v]
            res["status"] = "detected" if hit else "MISSED"
            res["fired"] = hit[:3] if hit else new[:3]
            results.append(res)
    finally:
        shutil.rmtree(scratch, ignore_errors=True)
        # facts of scratch copies are cached by content hash under .work/facts and garbage-collected there
    det = sum(1 for r in results if r["status"] == "detected")
    missed = [r for r in results if r["status"] == "MISSED"]
    R.meta["selftest_known_misses"] = known_miss
    R.meta["selftest"] = {"mutants": len(results), "detected": det, "missed": len(missed), "skipped": sum(1 for r in results if str(r["status"]).startswith("skipped")),
                          "wall_s": round(time.time() - t0, 1), "results": results}
    for r in results:
        R.info("selftest %s: %s %s" % (r["mutant"], r["status"], r.get("fired", "")))
    alarms = [r for r in results if r["status"] == "FALSE-ALARM"]
    R.meta["selftest"]["benign_silent"] = sum(1 for r in results if r["status"] == "silent")
    R.meta["selftest"]["benign_false_alarms"] = len(alarms)
    if alarms:
        R.fatal = "self-test: the checker raised a false alarm on behaviour-preserving fixture(s) %s: %s" % ([r["mutant"] for r in alarms], alarms[0].get("fired"))
    if missed:
        R.fatal = "self-test: the checker did not fire on seeded fault(s) %s -- the detector is not live, verdict withheld" % [r["mutant"] for r in missed]

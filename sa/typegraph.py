"""E1: the AST type graph derived from the ADT facts (no hand-written node list)."""

ROOT = "nodes::block::Block"
TOKEN = "nodes::token::Token"


class TypeGraph:
    def __init__(self, crate, root=ROOT):
        self.crate = crate
        self.root = root
        self.slots = {}  # adt -> list of (slot name, type id, [local adts in type])
        self.reach = []  # adts reachable from root in discovery order
        self._build()
        self._contains_memo = {}

    def _slots_of(self, adt_path):
        a = self.crate.adts[adt_path]
        out = []
        for v in a["variants"]:
            for f in v["fields"]:
                name = f["name"] if a["kind"] != "enum" else v["name"] + "." + f["name"]
                inner = [p for p in self.crate.adts_in(f["ty"]) if p in self.crate.adts]
                out.append((name, f["ty"], inner))
        return out

    def _build(self):
        seen = set()
        stack = [self.root]
        while stack:
            p = stack.pop()
            if p in seen or p not in self.crate.adts:
                continue
            seen.add(p)
            self.reach.append(p)
            sl = self._slots_of(p)
            self.slots[p] = sl
            for _, _, inner in sl:
                for q in inner:
                    if q not in seen:
                        stack.append(q)

    def contains(self, adt, targets):
        """Does `adt` (transitively through its fields) hold a value of a type in `targets`?
        `adt` itself counts when it is in targets."""
        key = (adt, frozenset(targets))
        memo = self._contains_memo
        if key in memo:
            return memo[key]
        # iterative reachability
        seen = set()
        stack = [adt]
        found = False
        while stack:
            p = stack.pop()
            if p in seen:
                continue
            seen.add(p)
            if p in targets:
                found = True
                break
            for _, _, inner in self.slots.get(p, []):
                stack.extend(inner)
        memo[key] = found
        return found

    def slots_holding(self, targets, stop=frozenset()):
        """All (adt, slot) in the graph whose slot type leads to one of `targets`.
        Types in `stop` are not looked through when deciding 'leads to' (but are themselves
        matched when in targets)."""
        out = []
        tg = frozenset(targets)
        for adt in self.reach:
            for name, ty, inner in self.slots[adt]:
                hit = False
                for q in inner:
                    if q in tg or (q not in stop and self.contains(q, tg)):
                        hit = True
                        break
                if hit:
                    out.append((adt, name, ty, inner))
        return out

"""T11: audit of iterations over unordered containers (HashMap/HashSet).

Each site is classified from its consumer chain; what cannot be classified automatically must be
in the reviewed table of the calling property module."""
from . import thir
from .thir import callee_of

ITER = {"iter", "iter_mut", "keys", "values", "values_mut", "into_iter", "drain", "into_keys", "into_values", "retain", "extract_if"}
HASH = ("std::collections::hash::map::HashMap", "std::collections::hash::set::HashSet")
ADAPTERS = {"map", "filter", "filter_map", "inspect", "cloned", "copied", "flat_map", "flatten", "chain", "by_ref", "into_iter", "iter", "rev", "peekable", "map_while"}
INSENSITIVE_SINKS = {"any", "all", "count", "sum", "product", "contains", "len", "is_empty", "min", "max", "for_each_insensitive"}
UNORDERED_TARGETS = HASH + ("alloc::collections::btree::map::BTreeMap", "alloc::collections::btree::set::BTreeSet")


def is_hash(crate, t):
    ty = crate.types[crate.strip_refs(t)]
    return "adt" in ty and ty["adt"] in HASH


def sites(crate):
    for f in crate.fn_list:
        b = thir.body_of(f)
        if not b:
            continue
        for c in thir.walk(b):
            if c.get("k") == "Call" and c.get("fname") in ITER and c["args"] and is_hash(crate, c["args"][0]["t"]):
                yield f, c


def classify(crate, an, f, c):
    """Returns (class, detail): class in insensitive | sorted | keyed-collect | review."""
    if c["fname"] == "retain":
        return "insensitive", "retain: per-element predicate"
    a = an.fa(f["path"]) if f["path"] in crate.fns and crate.fns[f["path"]] is f else None
    if a is None:
        return "review", "no analysis"
    node = c
    while True:
        par = a.parent.get(id(node))
        # skip transparent wrappers
        while par is not None and par.get("k") in ("Borrow", "Deref", "Coerce", "Cast", "Block") and (par.get("k") != "Block" or par.get("tail") is node):
            node = par
            par = a.parent.get(id(node))
        if par is None:
            return "review", "value escapes (returned iterator)"
        k = par.get("k")
        if k == "Call" and par["args"] and par["args"][0] is node:
            fname = par.get("fname")
            if fname in ADAPTERS:
                node = par
                continue
            if fname in INSENSITIVE_SINKS:
                return "insensitive", "consumed by `%s`" % fname
            if fname in ("min_by_key", "max_by_key") and _total_key(par["args"][1:], allow_first=True):
                return "sorted", "extreme element by a key that contains the (unique) first component of the element"
            if fname == "collect" or fname == "from_iter" or fname == "extend":
                ty = crate.types[crate.strip_refs(par["t"])]
                tgt = ty.get("adt")
                # Result<HashMap,..> etc.
                inner = crate.adts_in(par["t"])
                if any(x in UNORDERED_TARGETS for x in inner):
                    return "insensitive", "collected into an order-free/sorted container (%s)" % [x.split("::")[-1] for x in inner if x in UNORDERED_TARGETS][0]
                # collected into a Vec bound to a variable that is sorted afterwards?
                v = _bound_var(a, par)
                if v and _sorted_later(a, f, v):
                    return "sorted", "collected into `%s`, sorted before use" % v[1]
                if v:
                    return "review", "collected into `%s` (%s) and not sorted by a total key before use" % (v[1], crate.ty_str(par["t"])[:40])
                return "review", "collected into %s" % crate.ty_str(par["t"])[:60]
            return "review", "consumed by `%s`" % fname
        if k == "Match" and par.get("src", "").startswith("ForLoopDesugar"):
            return "review", "for-loop"
        if k == "Call":
            fname = par.get("fname")
            if fname == "into_iter":
                node = par
                continue
            if fname in ("extend",):
                recv_ty = crate.adts_in(par["args"][0]["t"])
                if any(x in UNORDERED_TARGETS for x in recv_ty):
                    return "insensitive", "extends an order-free container"
            return "review", "argument of `%s`" % fname
        return "review", "used in %s" % k


def _bound_var(a, node):
    par = a.parent.get(id(node))
    while par is not None and par.get("k") in ("Borrow", "Deref", "Coerce", "Cast", "Match", "Call", "Block") :
        if par.get("k") == "Match" and not str(par.get("src", "")).startswith("TryDesugar"):
            break
        if par.get("k") == "Call" and par.get("fname") not in ("branch", "from_residual"):
            break
        par = a.parent.get(id(par))
    if par is not None and par.get("k") == "LetStmt":
        bs = list(thir.pat_bindings(par["pat"]))
        if len(bs) == 1:
            return (bs[0][0], bs[0][1])
    return None


def _sorted_later(a, f, var):
    """Is `var` sorted later by a total order?  sort()/sort_unstable()/sort_by(cmp) are accepted; a
    sort_by_key / sort_by_cached_key is accepted only when the key closure uses every binding of its
    parameter (a partial key leaves ties in hash order)."""
    for n in thir.walk(thir.body_of(f)):
        if n.get("k") == "Call" and (n.get("fname") or "").startswith("sort") and n["args"]:
            hit = False
            for x in thir.walk(n["args"][0]):
                if x.get("k") == "Var" and x["var"] == var[0]:
                    hit = True
            if not hit:
                continue
            if "key" in n["fname"]:
                clo = [x for x in n["args"][1:] if x.get("k") == "Closure"]
                if not clo or not clo[0].get("body"):
                    return False
                params = clo[0]["body"].get("params", [])
                bound = [b for p in params if "pat" in p for b in thir.pat_bindings(p["pat"])]
                wild = any(_has_wild(p["pat"]) for p in params if "pat" in p)
                used = {x["var"] for x in thir.walk(clo[0]["body"]["body"]) if x.get("k") == "Var"}
                if wild or not all(b[0] in used for b in bound):
                    return False
            return True
    return False


def _total_key(args, allow_first=False):
    """Does the key closure use every binding of its parameter (no ties left to the iteration order)?  With `allow_first`, a
    tuple pattern may ignore components as long as its FIRST component (by convention the map key, which is unique) is used."""
    clo = [x for x in args if x.get("k") == "Closure"]
    if not clo or not clo[0].get("body"):
        return False
    params = [p for p in clo[0]["body"].get("params", []) if "pat" in p]
    bound = [b for p in params for b in thir.pat_bindings(p["pat"])]
    wild = any(_has_wild(p["pat"]) for p in params)
    used = {x["var"] for x in thir.walk(clo[0]["body"]["body"]) if x.get("k") == "Var"}
    if not wild and bound and all(b[0] in used for b in bound):
        return True
    if allow_first and params:
        pat = params[-1]["pat"]
        while pat.get("k") in ("Deref", "Bind") and "sub" in pat and pat["sub"] is not None and pat.get("k") != "Bind":
            pat = pat["sub"]
        subs = pat.get("subs") or []
        if subs:
            first = subs[0]["p"] if isinstance(subs[0], dict) and "p" in subs[0] else subs[0]
            fb = list(thir.pat_bindings(first))
            return bool(fb) and all(b[0] in used for b in fb)
    return False


def _has_wild(p):
    k = p.get("k")
    if k == "Wild":
        return True
    if "sub" in p and _has_wild(p["sub"]):
        return True
    for s in p.get("subs", []):
        if _has_wild(s["p"] if "p" in s else s):
            return True
    return False

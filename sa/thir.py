"""Typed-tree (THIR) helpers: traversal, origin analysis (which (ADT, field) slots an
expression's value derives from), accessor summaries, call collection."""

PAT_KEYS = ("pat", "sub", "subs")


def subexprs(e):
    """Direct sub-expressions of a THIR node, in source order."""
    k = e.get("k")
    out = []
    if k == "If":
        out.append(e["cond"]); out.append(e["then"])
        if "else" in e:
            out.append(e["else"])
    elif k == "Call":
        if "fun" in e:
            out.append(e["fun"])
        out.extend(e["args"])
    elif k in ("ByUse", "Deref", "Unary", "Cast", "Coerce", "Borrow", "RawBorrow", "Repeat", "Yield", "Become", "Binder", "Field"):
        out.append(e["e"])
    elif k in ("Binary", "Logical", "Assign", "AssignOp"):
        out.append(e["l"]); out.append(e["r"])
    elif k == "Index":
        out.append(e["e"]); out.append(e["i"])
    elif k == "Loop":
        out.append(e["body"])
    elif k == "Let":
        out.append(e["e"])
        out.extend(pat_exprs(e["pat"]))
    elif k == "Match":
        out.append(e["scrut"])
        for a in e["arms"]:
            out.extend(pat_exprs(a["pat"]))
            if "guard" in a:
                out.append(a["guard"])
            out.append(a["body"])
    elif k == "Block":
        out.extend(e["stmts"])
        if "tail" in e:
            out.append(e["tail"])
    elif k == "LetStmt":
        if "init" in e:
            out.append(e["init"])
        out.extend(e.get("else", []))
    elif k in ("Break", "Return"):
        if "e" in e:
            out.append(e["e"])
    elif k in ("Array", "Tuple"):
        out.extend(e["es"])
    elif k == "Adt":
        for f in e["fields"]:
            out.append(f["e"])
        if "base" in e:
            out.append(e["base"])
    elif k == "Closure":
        b = e.get("body")
        if b and b.get("body"):
            out.append(b["body"])
    return out


def pat_exprs(p):
    """Guard expressions embedded in patterns."""
    out = []
    if p.get("k") == "Guard":
        out.append(p["cond"])
        out.extend(pat_exprs(p["sub"]))
    elif "sub" in p:
        out.extend(pat_exprs(p["sub"]))
    for s in p.get("subs", []):
        out.extend(pat_exprs(s["p"] if "p" in s else s))
    return out


def walk(e):
    """Pre-order iterator over all expression nodes (closures inlined)."""
    stack = [e]
    while stack:
        n = stack.pop()
        yield n
        ch = subexprs(n)
        stack.extend(reversed(ch))


def body_of(fn):
    t = fn.get("thir")
    if not t:
        return None
    return t.get("body")


def callee_of(call):
    """Best resolved callee path of a Call/Zst node (impl method when the trait call resolved)."""
    return call.get("resolved") or call.get("fn")


def calls(fn_or_expr):
    e = body_of(fn_or_expr) if "thir" in fn_or_expr or "path" in fn_or_expr and "k" not in fn_or_expr else fn_or_expr
    if e is None:
        return
    for n in walk(e):
        if n.get("k") == "Call" and "fn" in n:
            yield n


def fn_refs(fn_or_expr):
    """Calls plus function items used as values (Zst nodes naming a fn)."""
    e = body_of(fn_or_expr) if "k" not in fn_or_expr else fn_or_expr
    if e is None:
        return
    for n in walk(e):
        if n.get("k") in ("Call", "Zst") and "fn" in n:
            yield n


def pat_bindings(p, prefix=()):
    """Yields (var_id, name, prefix-of-(adt,slot), type) for every binding in pattern p."""
    k = p.get("k")
    if k == "Bind":
        yield (p["var"], p["name"], prefix, p.get("t"))
        if "sub" in p:
            yield from pat_bindings(p["sub"], prefix)
    elif k == "Variant":
        for s in p["subs"]:
            yield from pat_bindings(s["p"], prefix + ((p["adt"], p["variant"] + "." + s["f"]),))
    elif k == "Leaf":
        for s in p["subs"]:
            if "adt" in p:
                yield from pat_bindings(s["p"], prefix + ((p["adt"], s["f"]),))
            else:
                yield from pat_bindings(s["p"], prefix)
    elif k in ("Deref", "Guard"):
        yield from pat_bindings(p["sub"], prefix)
    elif k in ("Or", "Slice"):
        for s in p["subs"]:
            yield from pat_bindings(s, prefix)


def const_str(v):
    """Decode the printed value of a constant pattern: '"abc"' or 'Branch([97_u8, ..]): str' -> 'abc'; else None."""
    import re
    if v.startswith('"') and v.endswith('"'):
        return v[1:-1]
    m = re.match(r"Branch\(\[(.*)\]\): str$", v)
    if m:
        try:
            return bytes(int(x.strip().split("_")[0]) for x in m.group(1).split(",") if x.strip()).decode("utf8", "replace")
        except ValueError:
            return None
    return None


def pat_strings(p, out=None):
    """All string constants mentioned by pattern p."""
    out = [] if out is None else out
    if p.get("k") == "Const":
        s = const_str(p["v"])
        if s is not None:
            out.append(s)
    if "sub" in p:
        pat_strings(p["sub"], out)
    for s in p.get("subs", []):
        pat_strings(s["p"] if "p" in s else s, out)
    return out


def lit_str(e):
    """String literal value of a Lit node (through to_owned/into/borrow wrappers), else None."""
    for n in walk(e):
        if n.get("k") == "Lit" and n["v"].startswith('"'):
            import ast as _ast
            import re as _re
            raw = n["v"]
            # Rust's escape_debug writes `\u{7}`; Python's literal syntax wants `\u0007` / `\U00010000`
            py = _re.sub(r"\\u\{([0-9a-fA-F]{1,6})\}", lambda m: "\\U%08x" % int(m.group(1), 16), raw)
            try:
                return _ast.literal_eval(py)
            except Exception:
                return raw[1:-1]
    return None


def pat_variants(p):
    """Set of (adt, variant) mentioned at the top of pattern p (through Or/Deref/Bind)."""
    k = p.get("k")
    if k == "Variant":
        return {(p["adt"], p["variant"])}
    if k in ("Deref", "Guard"):
        return pat_variants(p["sub"])
    if k == "Bind" and "sub" in p:
        return pat_variants(p["sub"])
    if k == "Or":
        s = set()
        for x in p["subs"]:
            s |= pat_variants(x)
        return s
    return set()


def pat_is_catchall(p):
    k = p.get("k")
    if k == "Wild":
        return True
    if k == "Bind":
        return "sub" not in p or pat_is_catchall(p["sub"])
    if k in ("Deref",):
        return pat_is_catchall(p["sub"])
    if k == "Or":
        return any(pat_is_catchall(x) for x in p["subs"])
    return False


class Analyzer:
    """Origin analysis over one crate's functions (memoised, interprocedural via summaries)."""

    def __init__(self, crate):
        self.crate = crate
        self._fa = {}
        self._summary = {}
        self._summary_busy = set()
        self._fields_in = {}

    def fa(self, path):
        if path not in self._fa:
            fn = self.crate.fns.get(path)
            self._fa[path] = FnAnalysis(self, fn) if fn and body_of(fn) else None
        return self._fa[path]

    def summary(self, path):
        """(ADT, field) origins of the value returned by local function `path`."""
        if path in self._summary:
            return self._summary[path]
        if path in self._summary_busy:
            return frozenset()
        a = self.fa(path)
        if a is None:
            self._summary[path] = frozenset()
            return self._summary[path]
        self._summary_busy.add(path)
        try:
            s = set()
            body = body_of(a.fn)
            s |= a.origins(body)
            for n in walk(body):
                if n.get("k") == "Return" and "e" in n and not a.in_closure(n):
                    s |= a.origins(n["e"])
            s = frozenset(x for x in s if x[0] != "#param")
        finally:
            self._summary_busy.discard(path)
        self._summary[path] = s
        return s

    def deep_source_calls(self, fa, e, depth=3):
        """source_calls of e, descending into the return values of local callees (bounded depth)."""
        out = []
        seen = set()
        work = [(fa, c, depth) for c in fa.source_calls(e)]
        while work:
            a, c, d = work.pop()
            if id(c) in seen:
                continue
            seen.add(id(c))
            out.append(c)
            cal = callee_of(c)
            if d > 0 and cal in self.crate.fns:
                ca = self.fa(cal)
                if ca is None:
                    continue
                body = body_of(ca.fn)
                rets = [body] + [n["e"] for n in walk(body) if n.get("k") == "Return" and "e" in n]
                for r in rets:
                    for c2 in ca.source_calls(r):
                        work.append((ca, c2, d - 1))
        return out

    def fields_in(self, path):
        """All (ADT, field) projections occurring in the body of local function `path`."""
        if path not in self._fields_in:
            fn = self.crate.fns.get(path)
            s = set()
            b = body_of(fn) if fn else None
            if b:
                for n in walk(b):
                    if n.get("k") == "Field" and "adt" in n:
                        s.add((n["adt"], n["f"]))
                    if n.get("k") == "Call" and "fn" in n:
                        c = callee_of(n)
                        if c in self.crate.fns and c != path:
                            s |= self.summary(c)
            self._fields_in[path] = frozenset(s)
        return self._fields_in[path]


class FnAnalysis:
    def __init__(self, an, fn):
        self.an = an
        self.fn = fn
        self.env = {}  # var id -> list of (source expr or special, prefix tuple)
        self._memo = {}
        self._busy = set()
        self._closure_nodes = set()
        self.parent = {}
        self._build()

    def in_closure(self, node):
        n = node
        while id(n) in self.parent:
            n = self.parent[id(n)]
            if n.get("k") == "Closure":
                return True
        return False

    def _bind(self, pat, src, prefix=()):
        for var, name, pre, ty in pat_bindings(pat, prefix):
            self.env.setdefault(var, []).append((src, pre))

    def _build(self):
        t = self.fn["thir"]
        for i, p in enumerate(t.get("params", [])):
            if "pat" in p:
                self._bind(p["pat"], {"k": "#param", "i": i, "t": p["t"]})
        body = t["body"]
        stack = [body]
        while stack:
            n = stack.pop()
            k = n.get("k")
            ch = subexprs(n)
            for c in ch:
                self.parent[id(c)] = n
            stack.extend(ch)
            if k == "LetStmt":
                if "init" in n:
                    self._bind(n["pat"], n["init"])
                else:
                    self._bind(n["pat"], {"k": "#none"})
            elif k == "Let":
                self._bind(n["pat"], n["e"])
            elif k == "Match":
                for a in n["arms"]:
                    self._bind(a["pat"], n["scrut"])
            elif k == "Assign":
                # x = expr : the variable may now derive from expr
                l = n["l"]
                while l.get("k") in ("Deref", "Field", "Index"):
                    l = l["e"]
                if l.get("k") == "Var":
                    self.env.setdefault(l["var"], []).append((n["r"], ()))
            elif k == "Call":
                for idx, a in enumerate(n["args"]):
                    c = a
                    while c.get("k") in ("Borrow", "Coerce", "Cast", "Deref"):
                        c = c["e"]
                    if c.get("k") == "Closure" and c.get("body"):
                        for p in c["body"].get("params", []):
                            if "pat" in p:
                                self._bind(p["pat"], {"k": "#closure_arg", "call": n, "skip": idx})

    def origins(self, e):
        key = id(e)
        if key in self._memo:
            return self._memo[key]
        if key in self._busy:
            return frozenset()
        self._busy.add(key)
        try:
            r = frozenset(self._origins(e))
        finally:
            self._busy.discard(key)
        self._memo[key] = r
        return r

    def _origins(self, e):
        k = e.get("k")
        s = set()
        if k == "Var":
            for src, pre in self.env.get(e["var"], []):
                s |= self.origins(src)
                s |= set(pre)
        elif k == "#param":
            s.add(("#param", e["i"]))
        elif k == "#none":
            pass
        elif k == "#closure_arg":
            call = e["call"]
            for idx, a in enumerate(call["args"]):
                if idx != e["skip"]:
                    s |= self.origins(a)
            c = callee_of(call)
            if c in self.an.crate.fns:
                s |= self.an.fields_in(c)
        elif k == "Field":
            if "adt" in e:
                s.add((e["adt"], e["f"]))
            s |= self.origins(e["e"])
        elif k == "Call":
            c = callee_of(e)
            for a in e["args"]:
                if a.get("k") != "Closure":
                    s |= self.origins(a)
                elif c not in self.an.crate.fns and a.get("body") and a["body"].get("body"):
                    # closure handed to a std adapter (map / flat_map / and_then / filter_map ...):
                    # the adapter's result derives from what the closure returns
                    s |= self.origins(a["body"]["body"])
            if c and c in self.an.crate.fns:
                s |= self.an.summary(c)
        elif k in ("Deref", "Borrow", "RawBorrow", "Cast", "Coerce", "ByUse", "Unary", "Binder"):
            s |= self.origins(e["e"])
        elif k == "Zst":
            # a function item used as a value (`.flat_map(Node::mutate_x)`): contributes its summary
            c = callee_of(e) if "fn" in e else None
            if c and c in self.an.crate.fns:
                s |= self.an.summary(c)
        elif k == "Index":
            s |= self.origins(e["e"])
        elif k == "If":
            s |= self.origins(e["then"])
            if "else" in e:
                s |= self.origins(e["else"])
        elif k == "Match":
            for a in e["arms"]:
                s |= self.origins(a["body"])
        elif k == "Block":
            if "tail" in e:
                s |= self.origins(e["tail"])
        elif k == "Adt":
            for f in e["fields"]:
                s |= self.origins(f["e"])
        elif k in ("Tuple", "Array"):
            for x in e["es"]:
                s |= self.origins(x)
        return s

    def source_calls(self, e, _seen=None):
        """All Call nodes from which the value of expression `e` may derive, following local variable
        bindings transitively (for `for x in a.b()` -> the `b` call, etc.)."""
        out = []
        seen = _seen if _seen is not None else set()
        stack = [e]
        while stack:
            n = stack.pop()
            if id(n) in seen:
                continue
            seen.add(id(n))
            k = n.get("k")
            if k is None or k.startswith("#"):
                if k == "#closure_arg":
                    call = n["call"]
                    for idx, a in enumerate(call["args"]):
                        if idx != n["skip"]:
                            stack.append(a)
                continue
            if k == "Call":
                out.append(n)
            if k == "Var":
                for src, pre in self.env.get(n["var"], []):
                    stack.append(src)
                continue
            if k == "Closure":
                continue
            stack.extend(subexprs(n))
        return out

    def touches(self, qualifies):
        """For every call whose callee satisfies qualifies(call) -> list of (call, origins of its non-closure args)."""
        out = []
        for n in walk(self.fn["thir"]["body"]):
            if n.get("k") == "Call" and "fn" in n and qualifies(n):
                s = set()
                for a in n["args"]:
                    if a.get("k") != "Closure":
                        s |= self.origins(a)
                out.append((n, frozenset(s)))
            elif n.get("k") == "Zst" and "fn" in n and qualifies(n):
                # function item passed as a value, e.g. .for_each(Token::clear_comments):
                # its argument derives from the enclosing call's other args
                par = self.parent.get(id(n))
                while par is not None and par.get("k") in ("Borrow", "Coerce", "Cast"):
                    par = self.parent.get(id(par))
                s = set()
                if par is not None and par.get("k") == "Call":
                    for a in par["args"]:
                        if a is not n and a.get("k") not in ("Closure", "Zst"):
                            s |= self.origins(a)
                out.append((n, frozenset(s)))
        return out

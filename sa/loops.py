"""Sibling rule on loops that remove container elements by index."""
from . import thir


def index_removal_sites(ctx):
    """Yields (fn, remove call, reversed?) for every loop/closure over collected indexes whose body removes by that index."""
    lib = ctx.lib
    for f in lib.fn_list:
        b = thir.body_of(f)
        if not b or "::test" in f["path"]:
            continue
        fa = None
        for m in thir.walk(b):
            k = m.get("k")
            if k == "Match" and str(m.get("src", "")).startswith("ForLoopDesugar"):
                loopvars = set()
                for n in thir.walk(m):
                    if n.get("k") == "Match" and n is not m:
                        for a in n["arms"]:
                            for v in thir.pat_bindings(a["pat"]):
                                loopvars.add(v[0])
                        break
                src = m["scrut"]
                body = m
            elif k == "Call" and m.get("fname") in ("for_each", "filter_map", "map", "flat_map") and any(a.get("k") == "Closure" for a in m["args"]):
                clo = [a for a in m["args"] if a.get("k") == "Closure"][0]
                if not clo.get("body"):
                    continue
                loopvars = set()
                for p in clo["body"].get("params", []):
                    if "pat" in p:
                        for v in thir.pat_bindings(p["pat"]):
                            loopvars.add(v[0])
                src = m["args"][0]
                body = clo["body"]["body"]
            else:
                continue
            for c in thir.walk(body):
                if c.get("k") == "Call" and (c.get("fname") or "").startswith(("remove", "swap_remove")) and len(c["args"]) >= 2 \
                        and lib.ty_str(lib.strip_refs(c["args"][1]["t"])) == "usize":
                    if {x["var"] for x in thir.walk(c["args"][1]) if x.get("k") == "Var"} & loopvars:
                        if fa is None:
                            fa = ctx.an.fa(f["path"])
                        chain = [y.get("fname") for y in fa.source_calls(src)] + [src.get("fname")]
                        yield f, c, ("rev" in chain or "rfold" in chain)


def index_removal_rule(R, ctx, rid, floor=2):
    R.rule(rid, "every loop (or iterator closure) that removes elements of a container by an index taken from a collected list of indexes walks "
                "that list in reverse: removing in ascending order shifts the later indexes and the wrong elements are removed (sibling rule, "
                "all sites of the library)")
    n = 0
    for f, c, rev in index_removal_sites(ctx):
        n += 1
        R.ob(rid, "%s|%s@%d" % (f["path"].split("::")[-1], c["fname"], n), rev, ctx.where(f, c.get("ln")),
             "indexes are consumed in %s order" % ("reverse" if rev else "ASCENDING: after the first removal every later index points one element too far"))
    R.require(rid, "floor", n >= floor, "", "%d index-removal sites (floor %d)" % (n, floor))

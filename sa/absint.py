"""A small abstract path enumerator over THIR bodies.

Conditions are evaluated over *atoms* (recognised calls such as `list.is_empty()`); every other
condition forks.  Along each path the recognised *events* (calls of interest) are collected
together with the boolean the path returns (when it is a literal / atom formula).
Used for decision-table style rules (T4) on small guard functions; no concrete data is executed.
"""
from . import thir

MAX_PATHS = 256


class Path:
    def __init__(self, assign=None, events=None, ret=None, done=False):
        self.assign = dict(assign or {})
        self.events = list(events or [])
        self.ret = ret
        self.done = done

    def fork(self):
        return Path(self.assign, self.events, self.ret, self.done)


class Interp:
    def __init__(self, atom, event, fixed=None, default=None, select=None, inline=None):
        """atom(expr) -> hashable key or None; event(call) -> label or None; fixed: {atom: bool} preset.
        Opt-in precision (used by decision-table rules that evaluate a whole function body):
          default(atom) -> bool|None  value of atoms not in `fixed`
          select(match) -> [arm]|None arms of a `match` that can be taken under the scenario being evaluated
          inline(call)  -> body|None  evaluate a call to a small local predicate through its body
        With `select` set, boolean `let` bindings are tracked and `match`/`if` are evaluated as values."""
        self.atom = atom
        self.event = event
        self.fixed = fixed or {}
        self.default = default
        self.select = select
        self.inline = inline
        self.precise = select is not None

    def arms_for(self, m, path):
        """[(arm, path)] alternatives of a match, honouring guards.  When `select` names the arms whose pattern
        can match (in order), the first unguarded one ends the search; otherwise every arm is an alternative."""
        arms = self.select(m) if self.select else None
        out = []
        if arms is None:
            for arm in m["arms"]:
                q = path.fork()
                if "guard" in arm:
                    out.extend((arm, pp) for v, pp in self.cond(arm["guard"], q) if v)
                else:
                    out.append((arm, q))
            return out
        live = [path]
        for arm in arms:
            if not live:
                break
            if "guard" in arm:
                nxt = []
                for p in live:
                    for v, pp in self.cond(arm["guard"], p):
                        (out.append((arm, pp)) if v else nxt.append(pp))
                live = nxt
            else:
                out.extend((arm, p) for p in live)
                live = []
        return out

    # ---- boolean evaluation ---------------------------------------------
    def cond(self, e, path):
        """Returns list of (bool value, path) alternatives."""
        k = e.get("k")
        while k in ("Block",) and not e["stmts"] and "tail" in e:
            e = e["tail"]; k = e.get("k")
        if k == "Lit" and e.get("v") in ("true", "false"):
            return [(e["v"] == "true", path)]
        if k == "Unary" and e.get("op") == "Not":
            return [(not v, p) for v, p in self.cond(e["e"], path)]
        if k == "Logical":
            out = []
            for lv, lp in self.cond(e["l"], path):
                if e["op"] == "And" and not lv:
                    out.append((False, lp))
                elif e["op"] == "Or" and lv:
                    out.append((True, lp))
                else:
                    out.extend(self.cond(e["r"], lp))
            return out
        if self.precise:
            if k == "Var" and ("var", e.get("var")) in path.assign:
                return [(path.assign[("var", e["var"])], path)]
            if k in ("Scope", "Use", "NeverToAny") and "e" in e:
                return self.cond(e["e"], path)
            if k == "Block" and "tail" in e:
                out = []
                ps = [path]
                for st in e["stmts"]:
                    ps = self.exec(st, ps)
                for pp in ps:
                    if pp.done:
                        out.append((pp.ret, pp))
                    else:
                        out.extend(self.cond(e["tail"], pp))
                return out
            if k == "If" and "else" in e:
                out = []
                for v, pp in self.cond(e["cond"], path):
                    out.extend(self.cond(e["then"] if v else e["else"], pp))
                return out
            if k == "Match" and not str(e.get("src", "")).startswith(("TryDesugar", "ForLoopDesugar")):
                out = []
                for arm, pp in self.arms_for(e, path):
                    out.extend(self.cond(arm["body"], pp))
                return out
            if k == "Call" and self.inline and self.atom(e) is None:
                body = self.inline(e)
                if body is not None:
                    return self.cond(body, path)
        if k == "Let":
            # `if let PAT = expr`: unknown unless atom
            a = self.atom(e)
            if a is None:
                p2 = path.fork()
                return [(True, path), (False, p2)]
        a = self.atom(e)
        if a is not None:
            neg = False
            if isinstance(a, tuple) and a and a[0] == "not":
                neg, a = True, a[1]
            if a in self.fixed:
                v = self.fixed[a]
                return [((not v) if neg else v, path)]
            if self.default is not None and self.default(a) is not None:
                v = self.default(a)
                return [((not v) if neg else v, path)]
            if a in path.assign:
                v = path.assign[a]
                return [((not v) if neg else v, path)]
            p1, p2 = path, path.fork()
            p1.assign[a] = True
            p2.assign[a] = False
            return [((not True) if neg else True, p1), ((not False) if neg else False, p2)]
        # events inside an unknown condition still happen
        self.scan_events(e, path)
        p2 = path.fork()
        return [(True, path), (False, p2)]

    def scan_events(self, e, path):
        for n in thir.walk(e):
            if n.get("k") == "Call":
                lab = self.event(n)
                if lab is not None:
                    path.events.append(lab)

    # ---- execution ---------------------------------------------------------
    def run(self, body):
        paths = self.exec(body, [Path()])
        return paths

    def exec(self, e, paths):
        out = []
        for p in paths:
            if p.done:
                out.append(p)
            else:
                out.extend(self._exec1(e, p))
            if len(out) > MAX_PATHS:
                raise RuntimeError("too many paths")
        return out

    def _exec1(self, e, p):
        k = e.get("k")
        if k == "Block":
            ps = [p]
            for st in e["stmts"]:
                ps = self.exec(st, ps)
            if "tail" in e:
                ps = self.exec_value(e["tail"], ps)
            return ps
        if k == "LetStmt":
            if "init" in e:
                if self.precise and e["pat"].get("k") == "Bind" and "sub" not in e["pat"] and e["init"].get("k") in ("Match", "If", "Logical", "Unary", "Lit", "Var", "Block"):
                    out = []
                    for v, pp in self.cond(e["init"], p):
                        if isinstance(v, bool) and not pp.done:
                            pp.assign[("var", e["pat"]["var"])] = v
                        out.append(pp)
                    return out
                return self.exec(e["init"], [p])
            return [p]
        if k == "If":
            out = []
            for v, pp in self.cond(e["cond"], p):
                if v:
                    out.extend(self.exec(e["then"], [pp]))
                elif "else" in e:
                    out.extend(self.exec(e["else"], [pp]))
                else:
                    out.append(pp)
            return out
        if k == "Return":
            if "e" in e:
                ps = self.exec_value(e["e"], [p])
            else:
                ps = [p]
            for x in ps:
                x.done = True
            return ps
        if k == "Match":
            src = str(e.get("src", ""))
            if src.startswith("TryDesugar"):
                # `expr?`: follow the success path only
                return self.exec(e["scrut"], [p])
            if src.startswith("ForLoopDesugar"):
                ps = self.exec(e["scrut"], [p])
                if len(e["arms"]) == 1:
                    # outer `match into_iter(..) { mut iter => loop {..} }`
                    return self.exec(e["arms"][0]["body"], ps)
                # inner `match next(iter) { None => break, Some(x) => body }`:
                # loop body once (represents >=1 iteration) and zero times
                out = []
                for pp in ps:
                    zero = pp.fork()
                    out.append(zero)
                    out.extend(self.exec(e["arms"][-1]["body"], [pp]))
                return out
            ps = self.exec(e["scrut"], [p])
            out = []
            for pp in ps:
                for i, arm in enumerate(e["arms"]):
                    q = pp.fork() if i < len(e["arms"]) - 1 else pp
                    out.extend(self.exec(arm["body"], [q]))
            return out
        if k == "Loop":
            # body once; Break ends it
            ps = self.exec(e["body"], [p])
            return ps
        if k in ("Break", "Continue"):
            return [p]
        if k == "Call":
            ps = [p]
            for a in e["args"]:
                if a.get("k") == "Closure":
                    continue
                ps = self.exec(a, ps)
            lab = self.event(e)
            if lab is not None:
                for x in ps:
                    if not x.done:
                        x.events.append(lab)
            # closures passed to the call: their events may happen
            for a in e["args"]:
                if a.get("k") == "Closure" and a.get("body") and a["body"].get("body"):
                    for x in ps:
                        if not x.done:
                            self.scan_events(a["body"]["body"], x)
            return ps
        if k == "Closure":
            return [p]
        ps = [p]
        for ch in thir.subexprs(e):
            ps = self.exec(ch, ps)
        return ps

    def exec_value(self, e, paths):
        """Execute e as the value of the enclosing function/block; records boolean result when decidable."""
        out = []
        for p in paths:
            if p.done:
                out.append(p); continue
            k = e.get("k")
            if k in ("Lit", "Unary", "Logical") or self.atom(e) is not None or (self.precise and k in ("Var", "Match", "Call", "If")):
                for v, pp in self.cond(e, p):
                    pp.ret = v
                    out.append(pp)
            elif k == "If":
                for v, pp in self.cond(e["cond"], p):
                    if v:
                        out.extend(self.exec_value(e["then"], [pp]))
                    elif "else" in e:
                        out.extend(self.exec_value(e["else"], [pp]))
                    else:
                        out.append(pp)
            elif k == "Block":
                ps = [p]
                for st in e["stmts"]:
                    ps = self.exec(st, ps)
                if "tail" in e:
                    ps = self.exec_value(e["tail"], ps)
                out.extend(ps)
            else:
                out.extend(self._exec1(e, p))
        return out

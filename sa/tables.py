"""T4: decision tables extracted from `match` expressions over enum values."""
from . import thir


def classify_body(e):
    """Result class of a match arm body: 'true' / 'false' / 'None' / 'Some' / 'int:<n>' / 'variant:<V>' / 'expr'."""
    k = e.get("k")
    while k == "Block" and not e["stmts"] and "tail" in e:
        e = e["tail"]; k = e.get("k")
    if k == "Lit":
        v = e["v"]
        if v in ("true", "false"):
            return v
        if v.lstrip("-").isdigit():
            return "int:" + v
        return "lit:" + v
    if k == "Adt" and "variant" in e and not e["fields"]:
        return e["variant"] if e["variant"] in ("None",) else "variant:" + e["variant"]
    if k == "Adt" and e.get("variant") == "Some":
        return "Some"
    return "expr"


def matches_on(crate, body, enum):
    """Match nodes in `body` whose scrutinee is a value of `enum` (through refs/Box)."""
    out = []
    for n in thir.walk(body):
        if n.get("k") != "Match":
            continue
        t = crate.types[crate.strip_refs(n["scrut"]["t"])]
        if t.get("adt") == enum:
            out.append(n)
        elif any(v[0] == enum for a in n["arms"] for v in thir.pat_variants(a["pat"])):
            out.append(n)
    return out


def variant_table(crate, match, enum):
    """{variant: [(class, guarded?, arm)]} for a Match over `enum`; wildcard arms are expanded."""
    names = [v["name"] for v in crate.adts[enum]["variants"]] if enum in crate.adts else []
    tbl = {}
    decided = set()  # variants fully decided by an unguarded earlier arm
    for arm in match["arms"]:
        vs = {v for a, v in thir.pat_variants(arm["pat"]) if a == enum}
        catch = thir.pat_is_catchall(arm["pat"])
        cls = classify_body(arm["body"])
        guarded = "guard" in arm
        targets = vs if vs else (set(names) - decided if catch else set())
        for v in targets:
            if v in decided:
                continue
            tbl.setdefault(v, []).append((cls, guarded, arm))
            if not guarded:
                decided.add(v)
    return tbl


def guard_variant_sets(crate, body, enum):
    """For `matches!(x, A | B | ..)`-shaped matches (two arms true/false) over `enum`: list of (match node, variant set)."""
    out = []
    for m in matches_on(crate, body, enum):
        if len(m["arms"]) == 2:
            c0, c1 = classify_body(m["arms"][0]["body"]), classify_body(m["arms"][1]["body"])
            if c0 == "true" and c1 == "false":
                vs = {v for a, v in thir.pat_variants(m["arms"][0]["pat"]) if a == enum}
                out.append((m, vs))
    return out

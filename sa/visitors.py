"""T2/T3 for the four sibling visitors: every AST slot that leads to a visitable node is
handed to a visit_* function; every visit_K calls process_K on its node; overrides agree with
the defaults."""
from . import coverage, thir
from .thir import callee_of

VISITORS = [
    (coverage.NODE_VISITOR, "process::visitors::DefaultVisitor"),
    (coverage.NODE_VISITOR, "process::scope_visitor::ScopeVisitor"),
    (coverage.NODE_POST_VISITOR, "process::post_visitor::DefaultPostVisitor"),
    (coverage.NODE_POST_VISITOR, "process::scope_visitor::ScopePostVisitor"),
]

IDENT = "nodes::identifier::Identifier"

_GP = "generic parameter *declarations* hold only declared names (type variables and generic pack names, no nested " \
      "type, expression or attribute), so no rule construct can occur below this slot; remove_types clears the slot as a whole"
# Reviewed slots that lead to a visitable type but are deliberately not descended into. (adt, slot) -> reason.
VISIT_EXEMPT_ALL = {
    ("nodes::types::function::FunctionType", "generic_parameters"): _GP,
    ("nodes::expressions::function::FunctionExpression", "generic_parameters"): _GP,
    ("nodes::statements::type_function::TypeFunctionStatement", "generic_parameters"): _GP,
    ("nodes::statements::local_function::FunctionAssignment", "generic_parameters"): _GP,
    ("nodes::statements::function::FunctionStatement", "generic_parameters"): _GP,
    ("nodes::types::generics::GenericParameters", "generic_type_packs"): _GP,
    ("nodes::types::string_type::StringType", "value"):
        "a singleton string *type* `\"lit\"`: the literal is part of a type, no rule targets string literals inside types "
        "(remove_types deletes the whole type); its tokens are covered by StringType's own token walkers",
}
_ATTR = "function attributes are not descended into by the scope-tracking visitors; attribute arguments are literals only, and " \
        "no rule driven by a scope visitor targets literals (C07.slots checks, per rule, that the construct cannot sit below an exempt slot)"
VISIT_EXEMPT_SCOPE = {
    ("nodes::expressions::function::FunctionExpression", "attributes"): _ATTR,
    ("nodes::statements::local_function::FunctionAssignment", "attributes"): _ATTR,
    ("nodes::statements::function::FunctionStatement", "attributes"): _ATTR,
}

VISITABLE_FLOOR = 50
SLOT_FLOOR = 190


def visitable_types(lib, trait):
    """{visit fn name: ADT path of its node parameter}, derived from the visit_* signatures."""
    out = {}
    for p in coverage.trait_methods(lib, trait):
        fn = lib.fns.get(p)
        if not fn:
            continue
        inner = lib.strip_refs(fn["sig"]["inputs"][0])
        ty = lib.types[inner]
        if "adt" in ty:
            out[p.split("::")[-1]] = ty["adt"]
    return out


def exempt_for(visitor_self):
    ex = dict(VISIT_EXEMPT_ALL)
    if "scope_visitor" in visitor_self:
        ex.update(VISIT_EXEMPT_SCOPE)
    return ex


def visitor_family(ctx, trait, vself):
    return ctx.family(trait, vself, None)


def visitor_touched(ctx, trait, vself):
    fam = visitor_family(ctx, trait, vself)
    sc = set(fam.scope)

    def q(c, n):
        return c in fam.vis_methods or c in fam.proc_methods or (c in sc and (n.get("fname") or "").startswith("visit_"))

    key = ("touched", trait, vself)
    if not hasattr(ctx, "_vt"):
        ctx._vt = {}
    if key not in ctx._vt:
        ctx._vt[key] = fam.touched(q)
    return fam, ctx._vt[key]


def visit_cover(R, ctx, rid):
    lib, tg = ctx.lib, ctx.tg
    R.rule(rid, "for each of the four visitors: every AST slot whose type leads to a node kind that has a visit_* function "
                "is handed (through accessors, pattern bindings, loops, closures) to a visit_*/process_* call of that visitor")
    stats = {}
    for trait, vself in VISITORS:
        vt = visitable_types(lib, trait)
        R.require(rid, "floor:visitable:" + vself, len(vt) >= VISITABLE_FLOOR, "", "%d visit_* functions with an ADT parameter" % len(vt))
        targets = set(vt.values()) - {IDENT}
        slots = tg.slots_holding(targets)
        R.require(rid, "floor:slots:" + vself, len(slots) >= SLOT_FLOOR, "", "%d slots lead to a visitable node (floor %d)" % (len(slots), SLOT_FLOOR))
        fam, touched = visitor_touched(ctx, trait, vself)
        ex = exempt_for(vself)
        short = vself.split("::")[-1]
        n_ok = 0
        for adt, slot, ty, inner in slots:
            if (adt, slot) in ex:
                R.ob(rid, "%s|exempt-still-unvisited|%s.%s" % (short, adt, slot), True, ctx.adt_where(adt), "exempt: " + ex[(adt, slot)], nontrivial=False)
                continue
            hit = touched.get((adt, slot))
            n_ok += bool(hit)
            R.ob(rid, "%s|%s.%s" % (short, adt, slot), bool(hit), ctx.adt_where(adt),
                 ("visited via %s (line %s) in %s" % (hit[0][1].split("::")[-1], hit[0][2], hit[0][0])) if hit else
                 "slot `%s` of `%s` (type %s) can hold nested nodes but %s never passes it to a visit_* function: "
                 "occurrences nested there are invisible to every rule driven by this visitor" % (slot, adt, lib.ty_str(ty), short))
        # exemptions must still name existing slots (positive floor)
        slot_set = {(a, s) for a, s, _, _ in slots}
        for (a, s) in ex:
            R.require(rid, "%s|exempt-exists|%s.%s" % (short, a, s), (a, s) in slot_set, "", "exempted slot no longer exists in the type graph")
        stats[short] = {"visitable_kinds": len(vt), "slots": len(slots), "visited": n_ok, "exempt": len(ex), "overrides": len(fam.vis_over), "scope_functions": len(fam.scope)}
    R.meta["visitors"] = stats


def visit_calls_process(R, ctx, rid):
    """(b): every visit_K hands its node to the processor before descending (and the post visitors
    call process_after_K last)."""
    lib = ctx.lib
    R.rule(rid, "every visit_K of every visitor calls NodeProcessor::process_* on its node parameter (so a rule's callback sees "
                "every visited node), and the node is re-inspected after the callback (match/accessor calls come after process_*)")
    # node kinds that have a processor callback at all (derived from NodeProcessor's signatures)
    proc_kinds = set()
    for p in coverage.trait_methods(lib, coverage.NODE_PROCESSOR):
        fn = lib.fns.get(p)
        if fn and len(fn["sig"]["inputs"]) >= 2:
            ty = lib.types[lib.strip_refs(fn["sig"]["inputs"][1])]
            if "adt" in ty:
                proc_kinds.add(ty["adt"])
    R.require(rid, "floor:processor-kinds", len(proc_kinds) >= 50, "", "%d node kinds have a NodeProcessor callback" % len(proc_kinds))
    for trait, vself in VISITORS:
        vt = visitable_types(lib, trait)
        fam = visitor_family(ctx, trait, vself)
        short = vself.split("::")[-1]
        n = 0
        for tm in fam.vis_methods:
            p = fam.bind(tm)
            fn = lib.fns.get(p)
            if not fn or not thir.body_of(fn):
                continue
            name = tm.split("::")[-1]
            seq = []
            for c in thir.walk(thir.body_of(fn)):
                if c.get("k") == "Call" and "fn" in c:
                    cal = callee_of(c)
                    if c["fn"] in fam.proc_methods:
                        seq.append(("process", c["fn"].split("::")[-1], c))
                    elif c["fn"] in fam.vis_methods or (cal in lib.fns and (c.get("fname") or "").startswith("visit_")):
                        seq.append(("visit", c.get("fname"), c))
            procs = [s for s in seq if s[0] == "process"]
            if vt.get(name) not in proc_kinds:
                # pure dispatcher: NodeProcessor has no callback for this node kind
                R.ob(rid, "%s|%s|dispatcher" % (short, name), True, ctx.where(fn), "dispatcher: no NodeProcessor callback exists for %s" % vt.get(name), nontrivial=False)
                continue
            if not procs:
                # the callback may be issued by an inherent helper (ScopeVisitor::visit_block -> visit_block_without_push)
                for kind, nm, c in seq:
                    cal = callee_of(c)
                    if kind == "visit" and c["fn"] not in fam.vis_methods and cal in lib.fns:
                        for c2 in thir.walk(thir.body_of(lib.fns[cal])):
                            if c2.get("k") == "Call" and c2.get("fn") in fam.proc_methods:
                                procs.append(("process", c2["fn"].split("::")[-1], c2))
                                if seq[0][2] is c:
                                    seq[0] = ("process", c2["fn"].split("::")[-1], c2)
                                break
            n += 1
            ok = bool(procs)
            first_is_process = bool(seq) and seq[0][0] == "process"
            R.ob(rid, "%s|%s|calls-process" % (short, name), ok, ctx.where(fn),
                 "visit function never hands its node to the processor" if not ok else "calls %s" % procs[0][1])
            if ok:
                R.ob(rid, "%s|%s|process-first" % (short, name), first_is_process or name in PROCESS_NOT_FIRST, ctx.where(fn),
                     "first callback/visit event is %s %s (children are visited before the processor saw the node: replacements made by the rule would not be descended into)" % (seq[0][0], seq[0][1]))
            if trait == coverage.NODE_POST_VISITOR and ok:
                afters = [s for s in procs if s[1].startswith("process_after_")]
                last_is_after = bool(afters) and seq[-1][0] == "process" and seq[-1][1].startswith("process_after_")
                if afters:
                    R.ob(rid, "%s|%s|after-last" % (short, name), last_is_after, ctx.where(fn),
                         "process_after_* must be the last event of the visit function, found %s %s last" % (seq[-1][0], seq[-1][1]))
        R.meta.setdefault("visit_fns_checked", {})[short] = n


# scope visitors must insert/push before handing out the node in some callbacks: reviewed
PROCESS_NOT_FIRST = {}

"""Abstract darklua syntax trees for the evaluator (sa/peval.py) and an independent reference semantics for them.

`Builder` makes Block / Statement / Expression values out of the crate's own ADT metadata (found by path suffix, so a
moved module does not matter).  `run_skeleton` is a small reference interpreter of the *control skeleton* of such a
tree: calls to free names are observable marks, free identifiers used as conditions are decided by an oracle (a finite
bit string), locals and assigned names hold booleans.  Two trees are observationally equal on a bit string when they
produce the same trace of marks and oracle questions.  It is written from the Lua 5.1 / Luau reference manual, not
from darklua: it is the specification side of rules that evaluate a whole rewriting rule on enumerated programs.
"""
from .peval import make, Enum, Struct, UNKNOWN, OPTION
from sa.peval import none as peval_none

from .peval import NONE        # one shared constant: values built from it get a None of their own (peval._own_nones)


def some(v):
    return Enum(OPTION, "Some", {"0": v})


class Builder:
    SFX = {
        "BLOCK": "nodes::block::Block", "STMT": "nodes::statements::Statement", "LAST": "statements::last_statement::LastStatement",
        "EXPR": "nodes::expressions::Expression", "WHILE": "while_statement::WhileStatement", "REPEAT": "repeat_statement::RepeatStatement",
        "NUMFOR": "numeric_for::NumericForStatement", "GENFOR": "generic_for::GenericForStatement", "IF": "if_statement::IfStatement",
        "BRANCH": "if_statement::IfBranch", "DO": "do_statement::DoStatement", "CALL": "function_call::FunctionCall",
        "PREFIX": "expressions::prefix::Prefix", "ARGS": "nodes::arguments::Arguments", "TUPLE": "nodes::arguments::TupleArguments",
        "IDENT": "nodes::identifier::Identifier", "TYPED": "typed_identifier::TypedIdentifier", "LOCALFN": "local_function::FunctionAssignment",
        "FNEXPR": "expressions::function::FunctionExpression", "LOCAL": "local_assign::VariableAssignment", "RETURN": "last_statement::ReturnStatement",
        "NUMBER": "expressions::number::NumberExpression", "DECIMAL": "expressions::number::DecimalNumber",
    }

    def __init__(self, lib):
        self.lib = lib
        self.missing = []
        for k, sfx in self.SFX.items():
            c = [a for a in lib.adts if a == sfx or a.endswith("::" + sfx)]
            setattr(self, k, c[0] if len(c) == 1 else None)
            if len(c) != 1:
                self.missing.append(sfx)

    def mk(self, adt, **over):
        return make(self.lib, adt, over)

    # ---- expressions
    def ident(self, name):
        return self.mk(self.IDENT, name=name, token=NONE)

    def var(self, name):
        return Enum(self.EXPR, "Identifier", {"0": self.ident(name)})

    def true(self):
        return Enum(self.EXPR, "True", {"0": NONE})

    def function_expr(self, block):
        return Enum(self.EXPR, "Function", {"0": self.mk(self.FNEXPR, block=block, parameters=[], is_variadic=False, tokens=NONE)})

    # ---- statements
    def block(self, stmts=(), last=None):
        return self.mk(self.BLOCK, statements=list(stmts), last_statement=some(last) if last is not None else NONE, tokens=NONE)

    def stmt(self, variant, node):
        return Enum(self.STMT, variant, {"0": node})

    def mark(self, name):
        call = self.mk(self.CALL, prefix=Enum(self.PREFIX, "Identifier", {"0": self.ident(name)}),
                       arguments=Enum(self.ARGS, "Tuple", {"0": self.mk(self.TUPLE, values=[], tokens=NONE)}), method=NONE, tokens=NONE)
        return self.stmt("Call", call)

    def while_(self, cond, block):
        return self.stmt("While", self.mk(self.WHILE, block=block, condition=self.var(cond), tokens=NONE))

    def repeat(self, cond, block):
        return self.stmt("Repeat", self.mk(self.REPEAT, block=block, condition=self.var(cond), tokens=NONE))

    def numfor(self, cond, block):
        # `for i = a<cond>, b<cond> do`: how many iterations run is the oracle's business (see run_skeleton)
        t = self.mk(self.TYPED, name=self.ident("i_" + cond), token=NONE)
        t.fields["type"] = peval_none()
        return self.stmt("NumericFor", self.mk(self.NUMFOR, identifier=t, start=self.var("a_" + cond), end=self.var("b_" + cond), step=NONE, block=block, tokens=NONE))

    def genfor(self, cond, block):
        t = self.mk(self.TYPED, name=self.ident("k_" + cond), token=NONE)
        t.fields["type"] = peval_none()
        return self.stmt("GenericFor", self.mk(self.GENFOR, identifiers=[t], expressions=[self.var("it_" + cond)], block=block, tokens=NONE))

    def loop(self, kind, cond, block):
        return {"while": self.while_, "repeat": self.repeat, "numfor": self.numfor, "genfor": self.genfor}[kind](cond, block)

    def if_(self, cond, block, else_block=None):
        br = self.mk(self.BRANCH, condition=self.var(cond), block=block, tokens=NONE)
        return self.stmt("If", self.mk(self.IF, branches=[br], else_block=some(else_block) if else_block is not None else NONE, tokens=NONE))

    def do(self, block):
        return self.stmt("Do", self.mk(self.DO, block=block, tokens=NONE))

    def local_function(self, name, block):
        return self.stmt("LocalFunction", self.mk(self.LOCALFN, identifier=self.ident(name), block=block, parameters=[], is_variadic=False,
                                                  variadic_type=NONE, return_type=NONE, generic_parameters=NONE, tokens=NONE))

    def local_value(self, name, expr):
        t = self.mk(self.TYPED, name=self.ident(name), token=NONE)
        t.fields["type"] = peval_none()
        return self.stmt("LocalAssign", self.mk(self.LOCAL, variables=[t], values=[expr], tokens=NONE))

    def cont(self):
        return Enum(self.LAST, "Continue", {"0": NONE})

    def ret(self):
        return Enum(self.LAST, "Return", {"0": self.mk(self.RETURN, expressions=[], tokens=NONE)})

    def brk(self):
        return Enum(self.LAST, "Break", {"0": NONE})


# ------------------------------------------------------------------------------------------------------------------
class _Break(Exception):
    pass


class _Continue(Exception):
    pass


class _Return(Exception):
    pass


class Stuck(Exception):
    """the tree has a shape the reference semantics does not cover, or is not a valid program"""


def _unbox(v):
    while isinstance(v, Enum) and v.adt == OPTION and v.variant == "Some":
        v = v.fields["0"]
    return v


def name_of(v):
    """the identifier name held by an Identifier / TypedIdentifier / Variable::Identifier / Prefix::Identifier / Expression::Identifier value"""
    for _ in range(6):
        if isinstance(v, Struct):
            n = v.fields.get("name")
            if isinstance(n, str):
                return n
            v = n if n is not None else v.fields.get("identifier")
        elif isinstance(v, Enum) and v.variant == "Identifier":
            v = v.fields.get("0")
        else:
            return None
    return None


class _Run:
    def __init__(self, bits, max_steps):
        self.bits, self.i, self.trace, self.env, self.steps, self.max_steps = bits, 0, [], {}, 0, max_steps

    def ask(self, label, exhausted):
        """an oracle question: the answer is the next bit; once the bits are used up the answer is the one that ends loops"""
        self.trace.append("?" + label)
        if self.i < len(self.bits):
            b = self.bits[self.i]
            self.i += 1
            return b
        return exhausted

    def expr(self, e, exhausted=False):
        e = _unbox(e)
        if not isinstance(e, Enum):
            raise Stuck("expression %r" % (e,))
        if e.variant in ("True", "False"):
            return e.variant == "True"
        if e.variant == "Identifier":
            n = name_of(e)
            if n in self.env:
                return self.env[n]
            return self.ask(n, exhausted)
        if e.variant == "Unary":
            u = _unbox(e.fields["0"])
            op = u.fields.get("operator")
            if isinstance(op, Enum) and op.variant == "Not":
                return not self.expr(u.fields["expression"], not exhausted)
        if e.variant == "Parenthese":
            inner = _unbox(e.fields["0"])
            return self.expr(inner.fields.get("expression"), exhausted)
        if e.variant == "Function":
            self.function(_unbox(e.fields["0"]).fields["block"])
            return True
        raise Stuck("expression variant %s" % e.variant)

    def function(self, block):
        # reference semantics of a function *definition* in this model: its body is observed once, on the spot, in a
        # context of its own (a `break` / `continue` cannot leave it)
        self.trace.append("<fn")
        try:
            self.block(block)
        except _Return:
            pass
        except (_Break, _Continue) as x:
            raise Stuck("`%s` leaves a function body" % type(x).__name__[1:].lower())
        self.trace.append("fn>")

    def block(self, b):
        b = _unbox(b)
        for s in b.fields["statements"]:
            self.stmt(s)
        last = b.fields.get("last_statement")
        if isinstance(last, Enum) and last.variant == "Some":
            ls = last.fields["0"]
            if ls.variant == "Break":
                raise _Break()
            if ls.variant == "Continue":
                raise _Continue()
            if ls.variant == "Return":
                raise _Return()
            raise Stuck("last statement %s" % ls.variant)

    def body(self, b):
        """one iteration of a loop body: True to go on with the loop, False when it was left with `break`"""
        try:
            self.block(b)
        except _Continue:
            return True
        except _Break:
            return False
        return True

    def stmt(self, s):
        self.steps += 1
        if self.steps > self.max_steps:
            raise Stuck("step bound")
        v, n = s.variant, _unbox(s.fields["0"])
        f = n.fields if isinstance(n, Struct) else {}
        if v == "Call":
            self.trace.append("!" + str(name_of(f.get("prefix"))))
        elif v == "Do":
            self.block(f["block"])
        elif v == "If":
            for br in f["branches"]:
                if self.expr(br.fields["condition"]):
                    self.block(br.fields["block"])
                    return
            eb = f.get("else_block")
            if isinstance(eb, Enum) and eb.variant == "Some":
                self.block(eb.fields["0"])
        elif v == "While":
            while self.expr(f["condition"], False):
                if not self.body(f["block"]):
                    break
        elif v == "Repeat":
            while True:
                # Luau: `continue` in a repeat body goes to the evaluation of the `until` condition
                if not self.body(f["block"]):
                    break
                if self.expr(f["condition"], True):
                    break
        elif v in ("NumericFor", "GenericFor"):
            label = name_of(f.get("identifier")) if v == "NumericFor" else name_of((f.get("identifiers") or [None])[0])
            while self.ask("next:" + str(label), False):
                if not self.body(f["block"]):
                    break
        elif v == "LocalAssign":
            vals = [self.expr(x) for x in f.get("values", [])]
            for i, t in enumerate(f.get("variables", [])):
                self.env[name_of(t)] = vals[i] if i < len(vals) else False
        elif v == "Assign":
            vals = [self.expr(x) for x in f.get("values", [])]
            for i, t in enumerate(f.get("variables", [])):
                nm = name_of(t)
                if nm is None:
                    raise Stuck("assignment target")
                self.env[nm] = vals[i] if i < len(vals) else False
        elif v in ("LocalFunction", "Function"):
            self.function(f["block"])
        else:
            raise Stuck("statement variant %s" % v)


def run_skeleton(block, bits, max_steps=400):
    """trace of the control skeleton of `block` under the oracle `bits`; raises Stuck for shapes outside the model"""
    r = _Run(list(bits), max_steps)
    try:
        r.block(block)
    except _Return:
        r.trace.append("return")
    except _Break:
        raise Stuck("`break` outside a loop")
    except _Continue:
        raise Stuck("`continue` outside a loop")
    return r.trace


def has_continue(v):
    """whether a `continue` is left anywhere in the tree"""
    if isinstance(v, Enum):
        if v.variant == "Continue" and v.adt.endswith("LastStatement"):
            return True
        return any(has_continue(x) for x in v.fields.values())
    if isinstance(v, Struct):
        return any(has_continue(x) for x in v.fields.values())
    if isinstance(v, list):
        return any(has_continue(x) for x in v)
    return False


def show(v, ind=0, out=None):
    """compact rendering of a tree for violation messages"""
    out = [] if out is None else out
    v = _unbox(v)
    if isinstance(v, Struct) and "statements" in v.fields:
        for s in v.fields["statements"]:
            show(s, ind, out)
        ls = v.fields.get("last_statement")
        if isinstance(ls, Enum) and ls.variant == "Some":
            out.append(" " * ind + ls.fields["0"].variant.lower())
    elif isinstance(v, Enum) and v.adt.endswith("Statement"):
        n = _unbox(v.fields["0"])
        f = n.fields if isinstance(n, Struct) else {}
        if v.variant == "Call":
            out.append(" " * ind + "%s()" % name_of(f.get("prefix")))
        elif v.variant in ("LocalAssign", "Assign"):
            out.append(" " * ind + "%s%s = %s" % ("local " if v.variant == "LocalAssign" else "", ",".join(str(name_of(t)) for t in f.get("variables", [])),
                                                  ",".join(expr_text(x) for x in f.get("values", []))))
        else:
            head = {"If": "if %s" % ",".join(expr_text(b.fields["condition"]) for b in f.get("branches", [])) if v.variant == "If" else ""}.get(v.variant) or \
                   (v.variant.lower() + (" " + expr_text(f["condition"]) if "condition" in f else ""))
            out.append(" " * ind + head)
            for b in ([br.fields["block"] for br in f.get("branches", [])] if v.variant == "If" else [f.get("block")]):
                if b is not None:
                    show(b, ind + 2, out)
            eb = f.get("else_block")
            if isinstance(eb, Enum) and eb.variant == "Some":
                out.append(" " * ind + "else")
                show(eb.fields["0"], ind + 2, out)
    return out


def expr_text(e):
    e = _unbox(e)
    if isinstance(e, Enum):
        if e.variant in ("True", "False"):
            return e.variant.lower()
        if e.variant == "Identifier":
            return str(name_of(e))
        if e.variant == "Unary":
            u = _unbox(e.fields["0"])
            return "not " + expr_text(u.fields.get("expression"))
        if e.variant == "Function":
            return "function() " + "; ".join(x.strip() for x in show(_unbox(e.fields["0"]).fields["block"])) + " end"
        return e.variant
    return "?"


# ------------------------------------------------------------------------------------------------------------------
def build(B, items, counter):
    """Block for a body specification: a tuple of items, an item being 'M' (a call), 'A' (`if c then continue end`), 'B' (`if d then
    break end`), 'T' (`if e then return end`), ('L', kind, body) a loop, ('F', body) a local function, ('FE', body) a function value,
    ('D', body) a do block, ('I', body) `if c then body end`, ('IE', body, body) if/else; the body may end with 'C' / 'K' / 'R'
    (continue / break / return as its last statement). Condition and call names are numbered in source order."""
    def fresh(p):
        counter[0] += 1
        return "%s%d" % (p, counter[0])
    stmts, last = [], None
    for it in items:
        if it == "C":
            last = B.cont()
        elif it == "K":
            last = B.brk()
        elif it == "R":
            last = B.ret()
        elif it == "A":
            stmts.append(B.if_(fresh("c"), B.block([], B.cont())))
        elif it == "B":
            stmts.append(B.if_(fresh("d"), B.block([], B.brk())))
        elif it == "T":
            stmts.append(B.if_(fresh("e"), B.block([], B.ret())))
        elif it == "M":
            stmts.append(B.mark(fresh("m")))
        elif it[0] == "L":
            stmts.append(B.loop(it[1], fresh("w"), build(B, it[2], counter)))
        elif it[0] == "F":
            stmts.append(B.local_function(fresh("f"), build(B, it[1], counter)))
        elif it[0] == "FE":
            stmts.append(B.local_value(fresh("g"), B.function_expr(build(B, it[1], counter))))
        elif it[0] == "D":
            stmts.append(B.do(build(B, it[1], counter)))
        elif it[0] == "I":
            stmts.append(B.if_(fresh("c"), build(B, it[1], counter)))
        elif it[0] == "IE":
            stmts.append(B.if_(fresh("c"), build(B, it[1], counter), build(B, it[2], counter)))
        else:
            raise ValueError(it)
    return B.block(stmts, last)


_JOB = {}


def configure(**kw):
    """settings of `rule_chunk` (module state, so that forked pool workers see it): ctx, fn (the rule's process function),
    rule (its ADT), bits, no_continue"""
    _JOB.clear()
    _JOB.update(kw)


def rule_chunk(specs):
    """evaluates the configured rule on each program specification and compares the traces of the program before and after;
    returns [(spec, None | reason, whether the rule changed the program)]"""
    import copy
    import itertools
    from . import peval
    from .peval import Ref
    ctx, fn, rule_adt, nbits = _JOB["ctx"], _JOB["fn"], _JOB["rule"], _JOB["bits"]
    lib = ctx.lib
    B = Builder(lib)
    out = []
    for spec in specs:
        prog = build(B, spec, [0])
        before = copy.deepcopy(prog)
        pe = peval.PEval(lib, ctx.an, fuel=20000000, max_depth=120)
        cell = {"v": prog}
        why = None
        try:
            pe.call_fn(fn, [peval.make(lib, rule_adt), Ref(cell, "v"), peval.UNKNOWN])
        except peval.OutOfFuel:
            why = "not established: no termination"
        after = cell["v"]
        if why is None and _JOB.get("no_continue") and has_continue(after):
            why = "a `continue` is left in the rewritten program"
        if why is None:
            for bits in itertools.product((True, False), repeat=nbits):
                try:
                    t0 = run_skeleton(before, bits)
                except Stuck as x:
                    why = "reference semantics stuck on the INPUT (%s)" % x
                    break
                try:
                    t1 = run_skeleton(after, bits)
                except Stuck as x:
                    t1 = ["stuck: %s" % x]
                if t0 != t1:
                    k = next((i for i, (a, b) in enumerate(zip(t0, t1)) if a != b), min(len(t0), len(t1)))
                    why = "oracle %s: the program does [%s], the rewritten one [%s] (step %d)" % (
                        "".join("T" if b else "F" for b in bits), " ".join(t0[max(0, k - 2):k + 2]), " ".join(t1[max(0, k - 2):k + 2]), k)
                    break
        if why is not None:
            why += " | input: " + "; ".join(x.strip() for x in show(before))[:300] + " | rewritten: " + "; ".join(x.strip() for x in show(after))[:400]
        out.append((spec, why, show(before) != show(after)))
    return out

"""Small interprocedural helpers: the *scope* of a function (itself + the local helper functions it calls)
and taint-following call search, so that rules survive `extract helper` / `inline helper` refactorings."""
from . import thir
from .thir import callee_of


def local_callees(lib, fn):
    for c in thir.fn_refs(fn):
        q = lib.fn(callee_of(c) or "")
        if q is not None and thir.body_of(q):
            yield c, q


def scope(lib, fn, depth=3, same_module=True):
    """fn plus local functions reachable through calls (depth-bounded).  With same_module, only functions defined in
    the same source file are followed (private helpers), which keeps the scope from swallowing the whole crate."""
    out, todo = {fn["path"]: fn}, [(fn, 0)]
    while todo:
        f, d = todo.pop()
        if d >= depth:
            continue
        for c, q in local_callees(lib, f):
            if q["path"] in out:
                continue
            if same_module and q.get("file") != fn.get("file"):
                continue
            out[q["path"]] = q
            todo.append((q, d + 1))
    return list(out.values())


def scope_calls(lib, fn, depth=3):
    """(function, call) for every call in the scope of fn."""
    for f in scope(lib, fn, depth):
        for c in thir.calls(f):
            yield f, c


def tainted_calls(ctx, fn, tainted, pred, depth=3, _seen=None):
    """Yields (function, call, arg index) for calls satisfying pred with an argument deriving from one of the
    `tainted` parameter indexes of fn -- following local callees that receive a tainted argument."""
    lib = ctx.lib
    seen = _seen if _seen is not None else set()
    key = (fn["path"], frozenset(tainted))
    if key in seen:
        return
    seen.add(key)
    fa = ctx.an.fa(fn["path"])
    if fa is None:
        return
    for c in thir.calls(fn):
        hit = []
        for i, a in enumerate(c["args"]):
            if a.get("k") == "Closure":
                continue
            o = fa.origins(a)
            if any(("#param", t) in o for t in tainted):
                hit.append(i)
        if not hit:
            continue
        if pred(c):
            yield fn, c, hit[0]
        if depth > 0:
            q = lib.fn(callee_of(c) or "")
            if q is not None and thir.body_of(q):
                yield from tainted_calls(ctx, q, set(hit), pred, depth - 1, seen)


def linear_events(ctx, fn, classify, derive, depth=3, _tainted=frozenset(), _stack=()):
    """Source-order sequence of labelled events of `fn` with local helper functions expanded in place.

    classify(node, fa, tainted) -> label or None, for any node (calls, loops, ...);
    derive(arg_expr, fa, tainted) -> bool: does this call argument carry the fact tracked by `tainted`
    (e.g. `derives from token.read(..)`)?  Parameters of a helper that receive such an argument are tainted in it."""
    lib = ctx.lib
    fa = ctx.an.fa(fn["path"])
    out = []
    if fa is None or fn["path"] in _stack:
        return out

    def visit(n):
        lab = classify(n, fa, _tainted)
        if lab is not None:
            out.append((lab, fn, n))
        if n.get("k") == "Call" and depth > 0 and lab is None:
            q = lib.fn(callee_of(n) or "")
            if q is not None and thir.body_of(q) and q.get("file") == fn.get("file"):
                t2 = frozenset(i for i, a in enumerate(n["args"]) if a.get("k") != "Closure" and derive(a, fa, _tainted))
                for ch in thir.subexprs(n):
                    visit(ch)
                out.extend(linear_events(ctx, q, classify, derive, depth - 1, t2, _stack + (fn["path"],)))
                return
        for ch in thir.subexprs(n):
            visit(ch)
    visit(thir.body_of(fn))
    return out


def reaches(lib, node, pred, depth=2):
    """does `node` (an expression, e.g. a match arm's body) contain a node satisfying pred, or call -- directly or through local
    helpers of the same crate, depth-bounded -- a function whose body does?"""
    from . import thir as _t
    for n in _t.walk(node):
        if pred(n):
            return True
    if depth <= 0:
        return False
    for n in _t.walk(node):
        if n.get("k") == "Call" and "fn" in n:
            q = lib.fns.get(_t.callee_of(n) or n.get("fn") or "")
            if q is not None and _t.body_of(q) is not None and reaches(lib, _t.body_of(q), pred, depth - 1):
                return True
    return False


def key_arms(fn):
    """{string: arm body} of the matches on string keys in fn"""
    from . import thir as _t
    out = {}
    for n in _t.walk(_t.body_of(fn)):
        if n.get("k") == "Match":
            for a in n["arms"]:
                for sv in _t.pat_strings(a["pat"]):
                    out.setdefault(sv, a["body"])
    return out

"""Obligation bookkeeping, known findings, evidence + replay files."""
import json
import os
import time

VERIF = os.path.dirname(os.path.dirname(os.path.abspath(__file__)))
EVID = os.path.join(VERIF, "evidence")
KNOWN = os.path.join(VERIF, "known_findings.json")


class Report:
    def __init__(self, pid, tier, seed=0):
        self.pid = pid
        self.tier = tier
        self.seed = seed
        self.t0 = time.time()
        self.obligations = []  # dicts
        self.infos = []
        self.samples = []
        self.meta = {}
        self.assumptions = []
        self.explanation = ""
        self.rules = {}
        self.fatal = None

    # ------------------------------------------------------------------
    def rule(self, rid, text):
        self.rules[rid] = text

    def ob(self, rule, key, ok, where="", detail="", nontrivial=True):
        """Record one obligation. key: line-free instance key; where: file:line for humans."""
        self.obligations.append(
            {"rule": rule, "key": key, "ok": bool(ok), "where": where, "detail": detail, "nontrivial": nontrivial}
        )
        return ok

    def require(self, rule, key, cond, where="", detail=""):
        """Anchor / floor obligation: fail closed when a hand-confirmed anchor or count is missing."""
        return self.ob(rule, key, cond, where, detail)

    def info(self, msg):
        self.infos.append(msg)

    def sample(self, s):
        if len(self.samples) < 12:
            self.samples.append(s)

    # ------------------------------------------------------------------
    def finish(self):
        known = {"findings": [], "fixed": []}
        if os.path.exists(KNOWN):
            with open(KNOWN) as fh:
                known = json.load(fh)
        known_keys = {(k["property"], k["key"]): k for k in known.get("findings", [])}
        viol = [o for o in self.obligations if not o["ok"]]
        new_viol, known_hit = [], []
        for v in viol:
            k = (self.pid, v["rule"] + "|" + v["key"])
            if k in known_keys:
                known_hit.append((v, known_keys[k]))
            else:
                new_viol.append(v)
        os.makedirs(os.path.join(EVID, "replay"), exist_ok=True)
        # remove stale replay files of this property
        for f in os.listdir(os.path.join(EVID, "replay")):
            if f.startswith(self.pid + "-"):
                os.remove(os.path.join(EVID, "replay", f))
        lines = []
        for v, kf in known_hit:
            lines.append("KNOWN-FINDING: property=%s %s [%s|%s at %s]" % (self.pid, kf.get("what", ""), v["rule"], v["key"], v["where"]))
        for n, v in enumerate(new_viol):
            rp = os.path.join(EVID, "replay", "%s-%d.json" % (self.pid, n))
            with open(rp, "w") as fh:
                json.dump(
                    {
                        "property": self.pid,
                        "rule": v["rule"],
                        "rule_text": self.rules.get(v["rule"], ""),
                        "instance_key": v["rule"] + "|" + v["key"],
                        "where": v["where"],
                        "detail": v["detail"],
                    },
                    fh, indent=1,
                )
            lines.append("VIOLATION property=%s replay=%s" % (self.pid, rp))
            lines.append("  rule %s: %s" % (v["rule"], self.rules.get(v["rule"], "")))
            lines.append("  instance %s at %s: %s" % (v["key"], v["where"], v["detail"]))
        if self.fatal:
            rp = os.path.join(EVID, "replay", "%s-fatal.json" % self.pid)
            with open(rp, "w") as fh:
                json.dump({"property": self.pid, "fatal": self.fatal}, fh, indent=1)
            lines.append("VIOLATION property=%s replay=%s" % (self.pid, rp))
            lines.append("  " + self.fatal)
        total = len(self.obligations)
        ok = sum(1 for o in self.obligations if o["ok"])
        distinct = len({(o["rule"], o["key"]) for o in self.obligations if o["nontrivial"]})
        per_rule = {}
        for o in self.obligations:
            r = per_rule.setdefault(o["rule"], {"obligations": 0, "discharged": 0})
            r["obligations"] += 1
            r["discharged"] += 1 if o["ok"] else 0
        samples = list(self.samples)
        if not samples:
            for o in self.obligations[:: max(1, total // 8 or 1)][:8]:
                samples.append({"rule": o["rule"], "instance": o["key"], "where": o["where"], "verdict": "ok" if o["ok"] else "VIOLATED", "detail": o["detail"][:200]})
        cov = {
            "explanation": self.explanation or "static structural obligations; see rules",
            "obligations": total,
            "discharged": ok,
            "evaluations": total,
            "distinct_nontrivial": distinct,
            "rule": "one evaluation = one rule instance (rule id + line-free instance key) decided on facts extracted from the current /repo tree; "
                    "non-trivial = the instance's scope contained at least one slot/site/path to check; distinct = distinct (rule,key)",
            "samples": samples or [{"note": "no instances"}],
            "checker_cmd": "./check %s --tier %s" % (self.pid, self.tier),
            "trusted_base": ["rustc nightly THIR/MIR/typeck for the crate's default cfg", "the dlfacts driver", "the Python rule code in /verif/sa", "reviewed tables in /verif/sa/props"],
            "rules": {k: {"text": v, **per_rule.get(k, {"obligations": 0, "discharged": 0})} for k, v in self.rules.items()},
            "known_findings": [{"key": v["rule"] + "|" + v["key"], "where": v["where"]} for v, _ in known_hit],
            "new_violations": [{"key": v["rule"] + "|" + v["key"], "where": v["where"], "detail": v["detail"][:300]} for v in new_viol],
            "info": self.infos[:60],
        }
        cov.update(self.meta)
        ev = {
            "property_id": self.pid,
            "tier": self.tier,
            "seed": self.seed,
            "level": "other",
            "coverage": cov,
            "assumptions": self.assumptions,
            "wall_s": round(time.time() - self.t0, 3),
            "violations": len(new_viol) + (1 if self.fatal else 0),
        }
        with open(os.path.join(EVID, "%s.json" % self.pid), "w") as fh:
            json.dump(ev, fh, indent=1)
        for l in lines:
            print(l)
        print("%s [%s]: %d obligations, %d discharged, %d known findings, %d new violations (%.1fs)" % (
            self.pid, self.tier, total, ok, len(known_hit), len(new_viol) + (1 if self.fatal else 0), time.time() - self.t0))
        return 1 if (new_viol or self.fatal) else 0

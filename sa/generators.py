"""Families of functions around the three LuaGenerator implementations."""
from . import coverage, thir
from .thir import callee_of

LUA_GENERATOR = "generator::LuaGenerator"
GENERATORS = {
    "token_based": "generator::token_based::TokenBasedLuaGenerator",
    "dense": "generator::dense::DenseLuaGenerator",
    "readable": "generator::readable::ReadableLuaGenerator",
}


class GenFamily(coverage.Family):
    def __init__(self, crate, an, self_ty):
        self.crate = crate
        self.an = an
        self.self_ty = self_ty
        self.over = coverage.impl_methods(crate, LUA_GENERATOR, self_ty)
        self.trait_methods = coverage.trait_methods(crate, LUA_GENERATOR)
        self.inherent = [p for p, f in crate.fns.items() if f.get("self_tys", "").split("<")[0] == self_ty and "impl_trait" not in f]
        self.vis_methods, self.proc_methods, self.vis_over, self.proc_over = {}, {}, {}, {}
        self.roots = sorted(self.over.values()) + sorted(self.inherent)
        self.scope = self._closure()
        self.scope_set = set(self.scope)

    def bind(self, callee):
        return self.over.get(callee, callee)

    def is_generator_fn(self, c):
        return c in self.scope_set and (c.startswith("generator::") or c.startswith("<generator::"))

    def touched_by_writers(self):
        return self.touched(lambda c, n: self.is_generator_fn(c))


def gen_family(ctx, name):
    key = ("gen", name)
    if key not in ctx._families:
        ctx._families[key] = GenFamily(ctx.lib, ctx.an, GENERATORS[name])
    return ctx._families[key]

"""C07 Each Luau-lowering rule removes every occurrence of its construct.

Structural induction: (a) the visitor a rule instantiates hands every nested node to a visit_*
function [C07.visit], (b) every visit_K calls process_K first, so the rule's callback sees the node
before its (possibly replaced) children are descended into [C07.process], (c) for each rule, every
slot of the AST type graph where the construct can sit is handled by the rule's processor
[C07.slots], (d) processors that keep a stack balance push/pop per node kind [C07.pair],
(e) every Luau-only construct of the AST has a lowering rule [C07.registry].
"""
from .. import visitors, coverage, thir
from ..thir import callee_of

N = "nodes::"
EXPR = N + "expressions::Expression"
PREFIX = N + "expressions::prefix::Prefix"
STMT = N + "statements::Statement"
LAST = N + "statements::last_statement::LastStatement"
BINOP = N + "expressions::binary::BinaryOperator"
COMPOP = N + "statements::compound_assign::CompoundOperator"
NUMBER = N + "expressions::number::NumberExpression"
ATTRS = N + "attributes::Attributes"
AKIND = N + "statements::local_assign::AssignmentKind"

# rule -> processor + the construct, as (enum, variant) pairs and/or slot types. Reviewed table;
# its completeness w.r.t. the type graph is checked by C07.registry.
RULES = {
    "remove_compound_assignment": {"proc": "rules::remove_compound_assign::Processor", "variants": [(STMT, "CompoundAssign")]},
    "remove_continue": {"proc": "rules::remove_continue::Processor", "variants": [(LAST, "Continue")]},
    "remove_if_expression": {"proc": "rules::remove_if_expression::Processor", "variants": [(EXPR, "If")]},
    "remove_interpolated_string": {"proc": "rules::remove_interpolated_string::RemoveInterpolatedStringProcessor", "variants": [(EXPR, "InterpolatedString")]},
    "remove_floor_division": {"proc": "rules::remove_floor_division::RemoveFloorDivisionProcessor", "variants": [(BINOP, "DoubleSlash"), (COMPOP, "DoubleSlash")]},
    "convert_luau_number": {"proc": "rules::convert_luau_number::Processor", "slot_types": [NUMBER]},
    "make_assignment_local": {"proc": "rules::make_assignment_local::Processor", "slot_types": [AKIND], "written": True},
    "remove_attribute": {"proc": "rules::remove_attribute::RemoveAttributeProcessor", "slot_types": [ATTRS], "written": True},
    "remove_types": {"proc": "rules::remove_types::RemoveTypesProcessor", "types": True},
}

# Luau-only constructs of the AST and the rule that lowers each (C07.registry).  Every variant of
# the listed enums must be classified: a new variant fails the check until it is classified.
LUA51 = "lua5.1"
CLASSIFY = {
    STMT: {"Assign": LUA51, "Do": LUA51, "Call": LUA51, "CompoundAssign": "remove_compound_assignment", "Function": LUA51,
           "GenericFor": LUA51, "If": LUA51, "LocalAssign": LUA51, "LocalFunction": LUA51, "NumericFor": LUA51,
           "Repeat": LUA51, "While": LUA51, "TypeDeclaration": "remove_types", "TypeFunction": "remove_types"},
    LAST: {"Break": LUA51, "Continue": "remove_continue", "Return": LUA51},
    EXPR: {"Binary": LUA51, "Call": LUA51, "False": LUA51, "Field": LUA51, "Function": LUA51, "Identifier": LUA51,
           "If": "remove_if_expression", "Index": LUA51, "Nil": LUA51, "Number": LUA51, "Parenthese": LUA51, "String": LUA51,
           "InterpolatedString": "remove_interpolated_string", "Table": LUA51, "True": LUA51, "Unary": LUA51,
           "VariableArguments": LUA51, "TypeCast": "remove_types", "TypeInstantiation": "remove_types"},
    PREFIX: {"Call": LUA51, "Field": LUA51, "Identifier": LUA51, "Index": LUA51, "Parenthese": LUA51, "TypeInstantiation": "remove_types"},
    BINOP: {"DoubleSlash": "remove_floor_division"},
    COMPOP: {"DoubleSlash": "remove_floor_division"},
    AKIND: {"Local": LUA51, "Const": "make_assignment_local"},
}
OPERATOR_ENUMS = (BINOP, COMPOP)  # all other variants are Lua 5.1 operators (compound ones vanish with remove_compound_assignment)


def direct_holders(tg, target):
    return [(a, n) for a in tg.reach for n, ty, inner in tg.slots[a] if target in inner]


def scope_mentions_variant(lib, scope, enum, variant):
    """[(fn path, line)] where a pattern or a constructed value names enum::variant."""
    out = []
    for p in scope:
        b = thir.body_of(lib.fns[p])
        for n in thir.walk(b):
            k = n.get("k")
            pats = []
            if k == "Match":
                pats = [a["pat"] for a in n["arms"]]
            elif k in ("Let", "LetStmt"):
                pats = [n["pat"]]
            for pat in pats:
                if _pat_mentions(pat, enum, variant):
                    out.append((p, n.get("ln")))
            if k == "Adt" and n.get("adt") == enum and n.get("variant") == variant:
                out.append((p, n.get("ln")))
    return out


def _pat_mentions(p, enum, variant):
    k = p.get("k")
    if k == "Variant" and p["adt"] == enum and p["variant"] == variant:
        return True
    if "sub" in p and _pat_mentions(p["sub"], enum, variant):
        return True
    for s in p.get("subs", []):
        if _pat_mentions(s["p"] if "p" in s else s, enum, variant):
            return True
    return False


def callback_kinds(lib, fam):
    """{trait item path: ADT of the node parameter} for the processor's overridden callbacks."""
    out = {}
    for ti, impl_fn in fam.proc_over.items():
        fn = lib.fns.get(impl_fn)
        if fn and len(fn["sig"]["inputs"]) >= 2:
            ty = lib.types[lib.strip_refs(fn["sig"]["inputs"][1])]
            if "adt" in ty:
                out[ti] = ty["adt"]
    return out


def ensure_seen(ctx, fam_v, touched_v, vt_by_type, E, Nk, depth=0, trail=()):
    """Is every value of type E inside a value of kind Nk that the visitor hands to visit_<Nk>?
    Returns list of problems (empty = ok)."""
    tg = ctx.tg
    if depth > 4:
        return ["containment chain too deep for %s" % E]
    if E == Nk:
        probs = []
        visit_names = {n for n, t in vt_by_type.items() if t == Nk}
        for a, s in direct_holders(tg, Nk):
            hits = touched_v.get((a, s), [])
            if not any((h[1] or "").split("::")[-1] in visit_names or (h[1] or "").split("::")[-1].startswith("process_") for h in hits):
                if (a, s) in visitors.exempt_for(fam_v.visitor_self):
                    probs.append("slot %s.%s holds a %s but is exempt from visiting" % (a, s, Nk))
                else:
                    probs.append("slot %s.%s holds a %s that is not handed to %s" % (a, s, Nk, sorted(visit_names)))
        return probs
    probs = []
    for a, s in direct_holders(tg, E):
        if a == Nk:
            continue
        probs += ensure_seen(ctx, fam_v, touched_v, vt_by_type, a, Nk, depth + 1)
    if not probs:
        probs += ensure_seen(ctx, fam_v, touched_v, vt_by_type, Nk, Nk, depth + 1)
    return probs


def slots(R, ctx):
    rid = "C07.slots"
    lib, tg = ctx.lib, ctx.tg
    R.rule(rid, "per lowering rule: it is driven by a visitor (resolved generic argument of its visit_block call) whose coverage "
                "reaches every slot that can hold the construct; its processor has a callback for a node kind that contains every "
                "such slot and that callback (transitively) names/handles the construct; slot-valued constructs are written")
    drivers = ctx.drivers()
    for rule, spec in RULES.items():
        proc = spec["proc"]
        drv = [d for d in drivers if d["processor"] == proc]
        if not R.require(rid, "%s|anchor:driver" % rule, len(drv) == 1, "", "expected exactly one visit_block driver for %s, found %d" % (proc, len(drv))):
            continue
        d = drv[0]
        trait, vself = d["trait"], d["visitor"]
        fam = ctx.family(trait, vself, proc)
        fam_v, touched_v = visitors.visitor_touched(ctx, trait, vself)
        fam_v.visitor_self = vself
        vt = visitors.visitable_types(lib, trait)
        cb = callback_kinds(lib, fam)
        R.require(rid, "%s|anchor:callbacks" % rule, len(cb) >= 1, ctx.where(d["caller"], d["line"]), "%s overrides no NodeProcessor callback" % proc)
        scope = fam.proc_scope()
        R.sample({"rule": rule, "processor": proc, "visitor": vself.split("::")[-1], "callbacks": sorted(x.split("::")[-1] for x in cb)})
        # constructs given as enum variants
        for enum, variant in spec.get("variants", []):
            key = "%s|%s::%s" % (rule, enum.split("::")[-1], variant)
            handlers = []
            for ti, kind in cb.items():
                sc = fam.callback_scope(ti)
                if scope_mentions_variant(lib, sc, enum, variant):
                    handlers.append((ti, kind))
            R.ob(rid, key + "|handled", bool(handlers), ctx.where(d["caller"], d["line"]),
                 "no callback of %s names %s::%s" % (proc, enum, variant) if not handlers else
                 "handled in %s" % [h[0].split("::")[-1] for h in handlers])
            best = None
            for ti, kind in handlers:
                probs = ensure_seen(ctx, fam_v, touched_v, vt, enum, kind)
                if best is None or len(probs) < len(best[1]):
                    best = (ti, probs)
            if best is not None:
                R.ob(rid, key + "|every-position-seen", not best[1], ctx.where(lib.fns[fam.proc_over[best[0]]]),
                     "; ".join(best[1][:4]) if best[1] else "every %s lies inside a node handed to %s by %s" % (enum.split("::")[-1], best[0].split("::")[-1], vself.split("::")[-1]))
        # constructs given as the type of a slot
        for st in spec.get("slot_types", []):
            holders = direct_holders(tg, st)
            R.require(rid, "%s|anchor:holders:%s" % (rule, st.split("::")[-1]), len(holders) >= 1, "", "no slot of type %s in the AST graph" % st)
            written = fam.written() if spec.get("written") else {}
            own = [ti for ti, kind in cb.items() if kind == st]
            for a, s in holders:
                key = "%s|%s.%s" % (rule, a, s)
                if own:
                    # the processor has a callback for the slot's own type: the visitor must hand the slot to it
                    probs = ensure_seen(ctx, fam_v, touched_v, vt, st, st)
                    probs = [p for p in probs if ("%s.%s " % (a, s)) in p]
                    R.ob(rid, key + "|visited", not probs, ctx.adt_where(a), "; ".join(probs) if probs else "handed to %s" % own[0].split("::")[-1])
                else:
                    w = written.get((a, s))
                    R.ob(rid, key + "|written", bool(w), ctx.adt_where(a),
                         ("written in %s" % w[0][0]) if w else "%s never writes slot `%s` of `%s` (type %s): the construct survives there" % (proc, s, a, st))
                    # and the holder node kind must be one of the processor's callbacks, seen everywhere
                    kinds = [ti for ti, kind in cb.items() if kind == a]
                    R.ob(rid, key + "|holder-callback", bool(kinds), ctx.adt_where(a), "no callback of %s takes a %s" % (proc, a) if not kinds else kinds[0].split("::")[-1])
                    if kinds:
                        probs = ensure_seen(ctx, fam_v, touched_v, vt, a, a)
                        R.ob(rid, key + "|holder-seen", not probs, ctx.adt_where(a), "; ".join(probs[:3]) if probs else "every %s is visited" % a.split("::")[-1])
        if spec.get("types"):
            remove_types_slots(R, ctx, rid, rule, fam, fam_v, touched_v, vt, cb, d)


def remove_types_slots(R, ctx, rid, rule, fam, fam_v, touched_v, vt, cb, d):
    lib, tg = ctx.lib, ctx.tg
    type_nodes = {p for p in tg.reach if p.startswith("nodes::types::")}
    wholesale = {
        N + "statements::type_declaration::TypeDeclarationStatement", N + "statements::type_function::TypeFunctionStatement",
        N + "expressions::type_cast::TypeCastExpression", N + "expressions::type_instantiation::TypeInstantiationExpression",
    }
    R.require(rid, "%s|floor:type-nodes" % rule, len(type_nodes) >= 40, "", "%d type node ADTs" % len(type_nodes))
    written = fam.written()
    scope = fam.proc_scope()
    n = 0
    for adt in tg.reach:
        if adt in type_nodes or adt in wholesale:
            continue
        a = lib.adts[adt]
        for name, ty, inner in tg.slots[adt]:
            if not any(q in type_nodes or q in wholesale for q in inner):
                continue
            n += 1
            key = "%s|%s.%s" % (rule, adt, name)
            if a["kind"] == "enum":
                variant = name.split(".")[0]
                m = scope_mentions_variant(lib, scope, adt, variant)
                R.ob(rid, key + "|variant-handled", bool(m), ctx.adt_where(adt),
                     ("matched in %s" % m[0][0]) if m else "remove_types never matches %s::%s: the type syntax node survives" % (adt, variant))
                kinds = [ti for ti, kind in cb.items() if kind == adt or (adt == STMT and kind == N + "block::Block")]
                R.ob(rid, key + "|callback", bool(kinds), ctx.adt_where(adt), "no callback of the processor takes %s" % adt if not kinds else kinds[0].split("::")[-1])
            else:
                w = written.get((adt, name))
                R.ob(rid, key + "|cleared", bool(w), ctx.adt_where(adt),
                     ("cleared in %s" % w[0][0]) if w else "type-syntax slot `%s` of `%s` (type %s) is never cleared by remove_types" % (name, adt, lib.ty_str(ty)))
                # the struct must be reachable from a callback of its own kind or be cleared through its holder
    R.require(rid, "%s|floor:type-syntax-slots" % rule, n >= 12, "", "%d type-syntax slots outside type nodes (floor 12)" % n)


def pair(R, ctx):
    rid = "C07.pair"
    lib = ctx.lib
    R.rule(rid, "a processor implementing NodeProcessor and NodePostProcessor that pushes onto one of its own Vec fields when "
                "entering a node kind pops the same field when leaving exactly the same node kinds (otherwise a stale entry "
                "mis-attributes later constructs, e.g. a `continue` to the wrong loop)")
    both = {}
    for im in lib.impls:
        if im.get("trait") in (coverage.NODE_PROCESSOR, coverage.NODE_POST_PROCESSOR):
            both.setdefault(im["selfs"].split("<")[0], {})[im["trait"]] = im
    n = 0
    for selfs, tr in sorted(both.items()):
        if len(tr) != 2:
            continue
        an = ctx.an
        pushes, pops = {}, {}
        for trait, store, names in ((coverage.NODE_PROCESSOR, pushes, ("push",)), (coverage.NODE_POST_PROCESSOR, pops, ("pop", "truncate"))):
            for it in tr[trait]["items"]:
                fn = lib.fns.get(it["path"])
                if not fn or not thir.body_of(fn) or len(fn["sig"]["inputs"]) < 2:
                    continue
                kind_ty = lib.types[lib.strip_refs(fn["sig"]["inputs"][1])]
                if "adt" not in kind_ty:
                    continue
                for field, node_kind in _stack_ops(ctx, selfs, fn, names, kind_ty["adt"]):
                    store.setdefault(field, {}).setdefault(node_kind, []).append(fn)
        for field in sorted(set(pushes) | set(pops)):
            pk, qk = set(pushes.get(field, {})), set(pops.get(field, {}))
            if not pk or not qk:
                continue  # not a paired stack (e.g. only collected)
            n += 1
            for k in sorted(pk | qk):
                ok = k in pk and k in qk
                fn = (pushes.get(field, {}).get(k) or pops.get(field, {}).get(k))[0]
                R.ob(rid, "%s|%s|%s" % (selfs, field[1], k), ok, ctx.where(fn),
                     "field `%s` of %s is %s for node kind %s" % (field[1], selfs, "pushed on entry and popped on exit" if ok else
                                                                   ("pushed on entry but never popped on exit" if k in pk else "popped on exit but never pushed on entry"), k))
    R.require(rid, "floor:paired-stacks", n >= 1, "", "%d paired stacks found (remove_continue's loop_stack expected)" % n)


def _stack_ops(ctx, selfs, fn, names, param_kind):
    """Yields ((adt, field), node kind) for every std push/pop on a field of the processor's own type that is
    reachable from callback `fn`; when the operation sits in a match arm on the node parameter's enum, the node
    kind is the payload type of that variant."""
    lib, an = ctx.lib, ctx.an
    seen = set()
    stack = [(fn["path"], None)]
    while stack:
        p, arm_kind = stack.pop()
        if (p, arm_kind) in seen:
            continue
        seen.add((p, arm_kind))
        f = lib.fns.get(p)
        if not f or not thir.body_of(f):
            continue
        a = an.fa(p)
        for n in thir.walk(thir.body_of(f)):
            if n.get("k") != "Call" or "fn" not in n:
                continue
            c = callee_of(n)
            kind = arm_kind
            if p == fn["path"]:
                kind = _enclosing_variant_payload(ctx, a, n, param_kind) or param_kind
            if c in lib.fns:
                if lib.fns[c].get("self_tys", "").split("<")[0] == selfs:
                    stack.append((c, kind))
            elif n.get("fname") in names and n["args"]:
                for o in a.origins(n["args"][0]):
                    if o[0] == selfs:
                        yield o, kind


def _enclosing_variant_payload(ctx, a, node, enum):
    lib = ctx.lib
    child = node
    p = a.parent.get(id(node))
    while p is not None:
        if p.get("k") == "Match":
            for arm in p["arms"]:
                if arm["body"] is child or any(x is child for x in thir.walk(arm["body"])):
                    vs = [v for v in thir.pat_variants(arm["pat"]) if v[0] == enum]
                    if len(vs) == 1:
                        ad = lib.adts.get(enum)
                        for v in ad["variants"]:
                            if v["name"] == vs[0][1] and v["fields"]:
                                inner = [q for q in lib.adts_in(v["fields"][0]["ty"]) if q in lib.adts]
                                if inner:
                                    return inner[0]
                    break
        child = p
        p = a.parent.get(id(p))
    return None


def registry(R, ctx):
    rid = "C07.registry"
    lib = ctx.lib
    R.rule(rid, "every variant of the statement/expression/prefix/operator enums of the AST is classified as Lua 5.1 or as a "
                "Luau-only construct with the rule that lowers it, and that rule's table (C07.slots) names it")
    for enum, table in CLASSIFY.items():
        ad = lib.adts.get(enum)
        if not R.require(rid, "anchor:" + enum, ad is not None, "", "enum not found"):
            continue
        names = [v["name"] for v in ad["variants"]]
        for v in names:
            if enum in OPERATOR_ENUMS and v not in table:
                continue
            R.ob(rid, "%s::%s|classified" % (enum, v), v in table, ctx.adt_where(enum),
                 "variant is not classified as Lua 5.1 or Luau-only(+lowering rule): a new construct without a lowering rule" if v not in table else table[v])
        for v, cls in table.items():
            R.require(rid, "%s::%s|exists" % (enum, v), v in names, ctx.adt_where(enum), "classified variant no longer exists")
            if cls != LUA51:
                R.ob(rid, "%s::%s|rule-known" % (enum, v), cls in RULES, "", "lowering rule %s has no entry in RULES" % cls)
    # the set of node kinds with a visit function must cover every enum payload of Statement/Expression
    # (a new variant without visit function would be invisible): derived check
    vt = set(visitors.visitable_types(lib, coverage.NODE_VISITOR).values())
    for enum in (STMT, EXPR, PREFIX):
        ad = lib.adts[enum]
        for v in ad["variants"]:
            for f in v["fields"]:
                inner = [q for q in lib.adts_in(f["ty"]) if q in lib.adts]
                if not inner or inner[0] == "nodes::token::Token":
                    continue
                R.ob(rid, "%s::%s|payload-visitable" % (enum, v["name"]), inner[0] in vt, ctx.adt_where(enum),
                     "payload type %s has %s visit_* function" % (inner[0], "a" if inner[0] in vt else "NO"))


ALWAYS_EXEMPT = {
    "<rules::shift_token_line::ShiftTokenLine as rules::FlawlessRule>::flawless_process": "a shift by 0 lines is skipped: no-op",
}


def always(R, ctx):
    rid = "C07.always"
    lib = ctx.lib
    R.rule(rid, "every rule that walks the tree reaches its visitor traversal on every non-error path of its process function (MIR must-pass): "
                "no early return can skip the walk (e.g. a shortcut keyed on the *text* of the entry file, which says nothing about bundled modules)")
    from .. import mir
    n = 0
    for f in lib.fn_list:
        if not (f["path"].endswith("::flawless_process") or f["path"].endswith("as rules::Rule>::process")) or not f.get("mir"):
            continue
        cfg = mir.Cfg(lib, f)
        dr = [i for i, t in cfg.calls() if t.get("fname") == "visit_block"]
        if not dr:
            continue
        n += 1
        if f["path"] in ALWAYS_EXEMPT:
            R.ob(rid, "exempt|" + f["path"].split("::")[-3 if "as rules" in f["path"] else -1], True, ctx.where(f), ALWAYS_EXEMPT[f["path"]], nontrivial=False)
            continue
        succ = cfg.without_error_edges()
        reach = cfg.reachable_from(0, avoid=set(dr), edges=succ)
        bad = [r for r in cfg.returns() if r in reach]
        name = f["path"].split(" as ")[0].split("::")[-1]
        R.ob(rid, name, not bad, ctx.where(f), "a return is reachable without any traversal: occurrences are left in place on that path" if bad else "every path walks the tree (%d driver call(s))" % len(dr))
    R.require(rid, "floor", n >= 26, "", "%d rules with a traversal (floor 26)" % n)


def numbers_lowered(R, ctx):
    """After the number-lowering rule no generator writes a Luau-only number form -- from tokens either."""
    import itertools
    import re as _re
    from .. import peval
    from ..peval import make, Enum, NONE, some
    from . import c13
    rid = "C07.numbers"
    lib = ctx.lib
    R.rule(rid, "every rule processor that overrides process_number_expression (convert_luau_number), evaluated from its typed tree on binary, "
                "hexadecimal and decimal literals with and without a stored token (token text with underscores, `0b`/`0B` prefixes, comments "
                "or spaces attached); the node it leaves is then written by each generator (also evaluated): the text is a Lua 5.1 number "
                "(no `0b`, no `_`) with the literal's value -- a token kept from the replaced literal would carry the Luau spelling into "
                "the token-based output although the tree holds no Luau-only node any more")
    NUM, T = "nodes::expressions::number::", "nodes::token::"
    procs = [f for k, f in lib.fns.items() if k.startswith("<rules::") and k.endswith(" as process::node_processor::NodeProcessor>::process_number_expression") and thir.body_of(f)]
    from .. import guards
    # the lowering processors: those that can REPLACE the number node (token walkers only call methods on it)
    procs = [f for f in procs if list(guards.node_param_assignments(ctx.an.fa(f["path"]), f))]
    if not R.require(rid, "anchor:processors", len(procs) >= 1, "", "no rule processor replaces a number in process_number_expression"):
        return
    gens = c13.generators(ctx)

    def trivia(text, kind):
        return make(lib, T + "Trivia", {"position": Enum(T + "Position", "Any", {"content": text}), "kind": Enum(T + "TriviaKind", kind, {})})

    def tok(text, lead=(), trail=()):
        return some(make(lib, T + "Token", {"position": Enum(T + "Position", "Any", {"content": text}), "leading_trivia": [trivia(*t) for t in lead], "trailing_trivia": [trivia(*t) for t in trail]}))
    TRIVIA = [((), ()), ((), (("--[[c]]", "Comment"),)), ((("--[[c]]", "Comment"),), ()), ((), ((" ", "Whitespace"),))]

    def literals():
        for text, value in (("0b101", 5), ("0B1_01", 5), ("0b1111_0000", 240)):
            for lt in [None] + TRIVIA:
                t = NONE if lt is None else tok(text, *lt)
                yield text if lt is not None else "%s (no token)" % text, float(value), Enum(NUM + "NumberExpression", "Binary", {"0": make(lib, NUM + "BinaryNumber", {"value": value, "is_b_uppercase": "B" in text, "token": t})})
        for text, value in (("0xFF", 255), ("0xF_F", 255), ("0X_ff", 255)):
            for lt in [None] + TRIVIA:
                t = NONE if lt is None else tok(text, *lt)
                yield text if lt is not None else "%s (no token)" % text, float(value), Enum(NUM + "NumberExpression", "Hex", {"0": make(lib, NUM + "HexNumber", {"integer": value, "exponent": NONE, "is_x_uppercase": "X" in text, "token": t})})
        for text, value in (("1_000", 1000.0), ("1_0.5_0", 10.5), ("12", 12.0)):
            for lt in [None] + TRIVIA:
                t = NONE if lt is None else tok(text, *lt)
                yield text if lt is not None else "%s (no token)" % text, value, Enum(NUM + "NumberExpression", "Decimal", {"0": make(lib, NUM + "DecimalNumber", {"float": value, "exponent": NONE, "token": t})})
    for pf in procs:
        owner = pf["path"][1:].split(" as ")[0].split("<")[0]
        bad, n = [], 0
        for label, value, node in literals():
            pe = peval.PEval(lib, ctx.an)
            try:
                proc = make(lib, owner, {f["name"]: "" for f in lib.adts[owner]["variants"][0]["fields"] if f["tys"].endswith("str")}) if owner in lib.adts else None
                pe.call_fn(pf, [proc, node])
            except peval.OutOfFuel:
                bad.append((label, "no termination"))
                continue
            for G, new, nargs in gens:
                we, fin = c13.trait_fn(lib, G, "write_expression"), c13.trait_fn(lib, G, "into_string")
                pe2 = peval.PEval(lib, ctx.an)
                try:
                    gen = pe2.call_fn(new, list(nargs))
                    import copy as _copy
                    pe2.call_fn(we, [gen, Enum(c13.EXPR, "Number", {"0": _copy.deepcopy(node)})])
                    text = pe2.call_fn(fin, [gen])
                except peval.OutOfFuel:
                    text = None
                n += 1
                if not isinstance(text, str):
                    bad.append((label, "%s: not established %s" % (G.split("::")[-1], (pe.unknown_reasons + pe2.unknown_reasons)[:2])))
                    continue
                body = _re.sub(r"--\[\[c\]\]", "", text).strip()
                m_ = _re.fullmatch(r"0[xX][0-9a-fA-F]+|(?:\d+\.?\d*|\.\d+)(?:[eE][+-]?\d+)?", body)
                if not m_:
                    bad.append((label, "%s writes %r, which is not a Lua 5.1 number" % (G.split("::")[-1], text.strip())))
                    continue
                got = float(int(body, 16)) if body[:2].lower() == "0x" else float(body)
                if got != value:
                    bad.append((label, "%s writes %r (= %r), the literal is %r" % (G.split("::")[-1], text.strip(), got, value)))
        R.ob(rid, "%s|lua51-numbers" % owner.split("::")[-2], not bad, ctx.where(pf), "%d (literal, generator) cells" % n if not bad else "literal %s: %s" % bad[0])
        R.require(rid, "%s|floor" % owner.split("::")[-2], n >= 100, "", "%d cells" % n)


def run(R, ctx):
    R.explanation = (
        "Structural induction over the AST type graph: visitor child-coverage for all four visitors, callback-before-descent "
        "order, per-rule construct slots vs. the processor's callbacks and writes, push/pop balance of stack-keeping post "
        "processors, and completeness of the Luau-construct classification. Decides that no occurrence can be skipped because of "
        "where it is nested; does not decide that a hand-built replacement is itself free of the construct."
    )
    R.assumptions += [
        "slot coverage is decided per (ADT, slot) over the whole visitor (not path-sensitive)",
        "reviewed tables: visitors.VISIT_EXEMPT_*, c07.RULES, c07.CLASSIFY (completeness of each is itself an obligation)",
    ]
    visitors.visit_cover(R, ctx, "C07.visit")
    visitors.visit_calls_process(R, ctx, "C07.process")
    slots(R, ctx)
    pair(R, ctx)
    registry(R, ctx)
    always(R, ctx)
    numbers_lowered(R, ctx)
    # the replacement written for an interpolated string is never itself an interpolated string (evaluation shared with C06.tostring)
    from . import c06 as _c06
    _c06.format_specifier(R, ctx, rid="C07.replacement.tostring-cells", rid_removed="C07.replacement")

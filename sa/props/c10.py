"""C10 Incremental reprocessing equals processing from scratch (small structural part).

Histories are not a shape; decided are necessary conditions of the mechanism:
  C10.hash      in WorkerTree::process, has_configuration_changed is consulted before any work and
                reset() lies on its true edge; the fingerprint is serde_json::to_vec of the whole
                Configuration (so C19.keys / C19.filters are necessary for C10 as well)          [T6]
  C10.notify    source_changed / add_source / remove_source all pass update_external_dependencies
                on every path; both arms of remove_source queue the output for deletion unless the
                item is in place                                                               [T6/T3]
  C10.clean     every successful return of process() passes clean_files (queued deletions are
                never postponed to a later pass)                                                 [T6]
  C10.unlink    every graph.remove_node(x) is preceded by restart_work(x) (which unlinks x from
                external_dependencies): no stale node index can be restarted later (panic)       [T6]
  C10.links     who may shrink external_dependencies: only reset() clears the map; restart_work
                removes single indexes from the inner sets                                        [T5]
  C10.deps      dependencies recorded by a rule reach the work item on success *and* on failure
                (extend(context.into_dependencies()) precedes the `?` on the rule result)         [T6]
Not decided: equality of output trees over histories, dependency completeness of the bundler.
"""
from .. import thir, mir, interproc, guards
from ..thir import callee_of
from ..facts import norm_path

WT = "frontend::worker_tree::WorkerTree"
PUBLIC_NOTIFIERS = ("source_changed", "add_source", "remove_source")   # public API of the watcher: stable names


class Roles:
    """Private items of WorkerTree found by what they are (types) and what they do, never by name."""
    def __init__(self, ctx):
        lib = ctx.lib
        self.ctx = ctx
        a = lib.adts.get(WT)
        self.fields = {}
        for f in (a["variants"][0]["fields"] if a else []):
            t = f.get("tys", "")
            is_map = any(m in t.split("<")[0] for m in ("HashMap", "BTreeMap", "IndexMap"))
            if is_map and ("Set<" in t) and "NodeIndex" in t:
                self.fields["extmap"] = f["name"]
            elif is_map and t.rstrip(">").endswith("NodeIndex") and "Set<" not in t:
                self.fields["node_map"] = f["name"]
            elif t == "core::option::Option<u64>":
                self.fields["last_hash"] = f["name"]
            elif "StableGraph" in t or "Graph<" in t:
                self.fields["graph"] = f["name"]
        self.methods = [f for f in lib.fn_list if f.get("self_tys", "").startswith(WT) and thir.body_of(f)]
        self.fa = {f["path"]: ctx.an.fa(f["path"]) for f in self.methods}
        # classify the operations every method performs on the external-dependency map / its inner sets
        self.map_ops, self.set_ops = {}, {}
        ext = self.fields.get("extmap")
        for f in self.methods:
            fa = self.fa[f["path"]]
            for c in thir.calls(f):
                if not c["args"] or callee_of(c) in lib.fns:
                    continue
                recv = c["args"][0]
                ts = lib.ty_str(lib.strip_refs(recv["t"]))
                o = {x for x in fa.origins(recv) if x[0] != "#param"}
                if (WT, ext) in o and "Map<" in ts and "Set<" in ts:
                    self.map_ops.setdefault(f["path"], []).append(c)
                elif (WT, ext) in o and "Set<" in ts.split("<")[0] + "<":
                    self.set_ops.setdefault(f["path"], []).append(c)
        self.unlinkers = {p for p, cs in self.set_ops.items() if any(c.get("fname") in ("remove", "retain", "take", "swap_remove", "shift_remove") for c in cs)}
        # functions that look the map up and restart what they find (transitively call an unlinker)
        self.calls_unlinker = set(self.unlinkers)
        changed = True
        while changed:
            changed = False
            for f in self.methods:
                if f["path"] in self.calls_unlinker:
                    continue
                if any((lib.fn(callee_of(c) or "") or {}).get("path") in self.calls_unlinker for c in thir.calls(f)):
                    self.calls_unlinker.add(f["path"])
                    changed = True
        self.ext_readers = {p for p, cs in self.map_ops.items() if any(c.get("fname") in ("get", "get_mut", "iter", "iter_mut", "values", "contains_key") for c in cs)} & self.calls_unlinker
        # the cleaner: hands paths to Resources::remove; the deletion queue is where those paths come from
        self.cleaners, self.queue = [], set()
        for f in self.methods:
            fa = self.fa[f["path"]]
            for c in thir.calls(f):
                if c.get("fname") == "remove" and "Resources" in (c.get("fn") or "") + (callee_of(c) or ""):
                    self.cleaners.append(f)
                    for a_ in c["args"][1:]:
                        self.queue |= {o[1] for o in fa.origins(a_) if o[0] == WT}
        self.queue -= set(self.fields.values())

    def method(self, name):
        return self.ctx.lib.fn("%s::%s" % (WT, name))


def hash_rule(R, ctx, roles):
    rid = "C10.hash"
    lib = ctx.lib
    R.rule(rid, "WorkerTree::process (private helpers found by role, not by name): the configuration of this pass is serialised with serde_json "
                "and hashed; that computation precedes every advance_work on every path, the stored fingerprint is replaced on every pass, and "
                "reset() is called after it and only conditionally (on the `changed` outcome)")
    fn = roles.method("process")
    if not R.require(rid, "anchor:process", fn is not None and fn.get("mir"), "", "not found"):
        return
    ser = lambda c: c.get("fname") in ("to_vec", "to_string", "to_writer", "to_value") and "serde_json" in (c.get("fn") or "")
    CONFIG = "frontend::configuration::Configuration"
    hits = [(f, c, 0) for f, c in interproc.scope_calls(lib, fn) if ser(c) and c["args"] and lib.ty_str(lib.strip_refs(c["args"][0]["t"])) == CONFIG]
    R.ob(rid, "fingerprint|whole-configuration", bool(hits), ctx.where(fn), "the configuration reaching process() is serialised as a whole with serde_json: %s" % bool(hits))
    if not hits:
        return
    fp_fns = {f["path"] for f, c, i in hits}
    # every function of the scope from which the serialisation is reached (the helper may itself sit behind another helper)
    sc_fns = interproc.scope(lib, fn)
    grew = True
    while grew:
        grew = False
        for f in sc_fns:
            if f["path"] in fp_fns:
                continue
            if any((lib.fn(callee_of(c) or "") or {}).get("path") in fp_fns for c in thir.calls(f)):
                fp_fns.add(f["path"])
                grew = True
    sc = [(f, c) for f in [lib.fns[p] for p in fp_fns] for c in thir.calls(f)]
    hx = [c for f, c in sc if "xxh" in (c.get("fname") or "") or "hash" in (c.get("fname") or "")]
    R.ob(rid, "fingerprint|hashed", bool(hx), ctx.where(fn), "hash function applied to the serialised configuration")
    lh = roles.fields.get("last_hash")
    stores = []
    for p in fp_fns | {fn["path"]}:
        f = lib.fns[p]
        fa = ctx.an.fa(p)
        for c in thir.calls(f):
            if c.get("fname") in ("replace", "insert") and c["args"] and (WT, lh) in fa.origins(c["args"][0]):
                stores.append(c)
        for n in thir.walk(thir.body_of(f)):
            if n.get("k") == "Assign" and (WT, lh) in fa.origins(n["l"]):
                stores.append(n)
    R.ob(rid, "fingerprint|stored", bool(stores) and lh is not None, ctx.where(fn), "the new fingerprint replaces the stored one on every pass (Option::replace / assignment to the Option<u64> field): %s" % bool(stores))
    cfg = mir.Cfg(lib, fn)
    # fingerprint points of process' own MIR: the serde call itself, or the call of a helper that contains it
    fpb = [i for i, t in cfg.calls() if ser({"fname": t.get("fname"), "fn": (cfg.callee(t) or "") + (t.get("fn") or "")}) or (lib.fn(cfg.callee(t) or "") or {}).get("path") in (fp_fns - {fn["path"]})]
    adv = [i for i, t in cfg.calls() if t.get("fname") == "advance_work"]
    rst = [i for i, t in cfg.calls() if t.get("fname") == "reset" and WT in (cfg.callee(t) or "")]
    R.require(rid, "anchor:calls", bool(fpb) and bool(adv) and bool(rst), ctx.where(fn), "fingerprint/advance_work/reset points in process: %d/%d/%d" % (len(fpb), len(adv), len(rst)))
    for a_ in adv:
        R.ob(rid, "process|hash-before-work", cfg.must_pass(fpb, a_), ctx.where(fn, cfg.line(a_)), "configuration fingerprint computed before any work")
    for r in rst:
        after = cfg.must_pass(fpb, r)
        conditional = any(a_ in cfg.reachable_from(0, avoid={r}) for a_ in adv)
        R.ob(rid, "process|reset-on-change", after and conditional, ctx.where(fn, cfg.line(r)),
             "reset() follows the fingerprint comparison (%s) and is not unconditional (%s)" % (after, conditional))


def notify(R, ctx, roles):
    rid = "C10.notify"
    lib = ctx.lib
    R.rule(rid, "source_changed, add_source and remove_source reach every return through a function that looks the changed path up in the "
                "external-dependency map and restarts the dependents; each arm of remove_source that drops a node queues its output for the "
                "cleaner unless the item is processed in place")
    readers = roles.ext_readers
    R.require(rid, "anchor:dependency-lookup", len(readers) >= 1, "", "functions that look up the external-dependency map and restart dependents: %s" % sorted(x.split("::")[-1] for x in readers))
    for name in PUBLIC_NOTIFIERS:
        fn = roles.method(name)
        if not R.require(rid, "anchor:" + name, fn is not None and fn.get("mir"), "", "not found"):
            continue
        cfg = mir.Cfg(lib, fn)
        upd = [i for i, t in cfg.calls() if (lib.fn(cfg.callee(t) or "") or {}).get("path") in readers]
        if fn["path"] in readers:
            upd = upd or [0]
        ok = bool(upd) and all(cfg.must_pass(upd, r) for r in cfg.returns())
        R.ob(rid, "%s|updates-dependents" % name, ok, ctx.where(fn), "every return passes the dependency lookup: %s" % ok)
    fn = roles.method("remove_source")
    if fn is not None and R.require(rid, "anchor:cleaner", len(roles.cleaners) >= 1 and len(roles.queue) >= 1, "", "cleaner %s drains %s" % ([f["path"].split("::")[-1] for f in roles.cleaners], sorted(roles.queue))):
        a = ctx.an.fa(fn["path"])
        M = guards.Mentions(ctx.an)
        removes = [c for c in thir.calls(fn) if c.get("fname") == "remove_node"]
        R.require(rid, "remove_source|anchor:remove_node", len(removes) >= 1, ctx.where(fn), "%d remove_node calls" % len(removes))
        pushes = [c for c in thir.calls(fn) if c.get("fname") in ("push", "extend", "insert", "push_back", "append") and c["args"]
                  and any(o[0] == WT and o[1] in roles.queue for o in a.origins(c["args"][0]))]
        R.ob(rid, "remove_source|queues-output-in-each-arm", len(pushes) >= len(removes) and len(pushes) >= 1, ctx.where(fn),
             "%d pushes onto the deletion queue %s for %d node removals" % (len(pushes), sorted(roles.queue), len(removes)))
        inplace = guards.is_call_named("is_in_place")
        for c in pushes:
            guarded = M.guarded(a, c, inplace) or any(M.mentions(a, x, inplace) for x in c["args"][1:])
            R.ob(rid, "remove_source|queue-unless-in-place", guarded, ctx.where(fn, c.get("ln")), "queued output depends on is_in_place(): %s" % guarded)


def clean(R, ctx, roles):
    rid = "C10.clean"
    lib = ctx.lib
    R.rule(rid, "in WorkerTree::process every non-error return is preceded by clean_files (deletions queued by remove_source are executed by "
                "the very next pass, also when no work item is left)")
    fn = lib.fn(WT + "::process")
    if not R.require(rid, "anchor:process", fn is not None and fn.get("mir"), "", "not found"):
        return
    cfg = mir.Cfg(lib, fn)
    cleaner_paths = {f["path"] for f in roles.cleaners}
    cl = [i for i, t in cfg.calls() if (lib.fn(cfg.callee(t) or "") or {}).get("path") in cleaner_paths]
    R.require(rid, "anchor:clean_files", bool(cl), ctx.where(fn), "no call of the cleaner (the function that hands queued paths to Resources::remove)")
    succ = cfg.without_error_edges()
    reach = cfg.reachable_from(0, avoid=set(cl), edges=succ)
    # explicit `return Err(..)` (cyclic work) is also an error exit: exclude returns only reachable through an Err aggregate
    bad = []
    for r in cfg.returns():
        if r in reach:
            # is this return reachable (avoiding clean) without building an Err value?
            err_blocks = {i for i, b in enumerate(cfg.blocks) for st in b["s"] if st.get("rv") == "adt" and st.get("variant") == "Err"}
            reach2 = cfg.reachable_from(0, avoid=set(cl) | err_blocks, edges=succ)
            if r in reach2:
                bad.append(r)
    R.ob(rid, "process|clean-before-success-return", bool(cl) and not bad, ctx.where(fn),
         "a successful return can be reached without clean_files (e.g. the early return when nothing is left to do)" if bad else "every success return passes clean_files")


def unlink(R, ctx, roles):
    rid = "C10.unlink"
    lib = ctx.lib
    R.rule(rid, "every StableGraph::remove_node(x) in WorkerTree is preceded, in an enclosing block, by a call on the same node variable of a "
                "function that removes node indexes from the inner sets of the external-dependency map (the unlinker, found by role); "
                "otherwise a later change of a file x had read restarts a dead index and panics")
    R.require(rid, "anchor:unlinker", len(roles.unlinkers) >= 1, "", "functions removing indexes from the inner sets: %s" % sorted(x.split("::")[-1] for x in roles.unlinkers))
    n = 0
    for f in roles.methods:
        a = roles.fa[f["path"]]
        order = [id(x) for x in thir.walk(thir.body_of(f))]
        for c in thir.calls(f):
            if c.get("fname") != "remove_node":
                continue
            n += 1
            vars_ = {x["var"] for x in thir.walk(c["args"][1]) if x.get("k") == "Var"}
            ok = False
            for r in thir.calls(f):
                q = lib.fn(callee_of(r) or "")
                if q is not None and q["path"] in roles.calls_unlinker and order.index(id(r)) < order.index(id(c)) and len(r["args"]) > 1:
                    rv = {x["var"] for x in thir.walk(r["args"][1]) if x.get("k") == "Var"}
                    if rv & vars_:
                        pr = a.parent.get(id(r))
                        while pr is not None and pr.get("k") != "Block":
                            pr = a.parent.get(id(pr))
                        if pr is not None and any(y is c for y in thir.walk(pr)):
                            ok = True
            R.ob(rid, "%s|remove_node-after-restart_work" % norm_path(f["path"]).split("::")[-1] + "@%d" % n, ok, ctx.where(f, c.get("ln")),
                 "remove_node(x) %s by the unlinker on x" % ("preceded" if ok else "NOT preceded: x stays in the external-dependency map"))
    R.require(rid, "floor:remove_node", n >= 1, "", "%d remove_node calls" % n)


def links(R, ctx, roles):
    rid = "C10.links"
    lib = ctx.lib
    R.rule(rid, "who may shrink the external-dependency map (policy by operation, whatever the functions are called): entries are added with "
                "entry()/insert, looked up with get/iter; the whole map is cleared only by a function that also restarts every work item; no "
                "function removes or retains whole path entries (other dependents' links would be lost); node indexes are inserted into / "
                "removed from the inner sets one at a time")
    READ = {"get", "get_mut", "iter", "iter_mut", "keys", "values", "values_mut", "contains_key", "len", "is_empty"}
    GROW = {"entry", "insert", "extend"}
    n = 0
    for p, cs in sorted(roles.map_ops.items()):
        f = lib.fns[p]
        short = norm_path(p).split("::")[-1]
        for c in cs:
            op = c.get("fname")
            n += 1
            if op in READ or op in GROW:
                ok, why = True, "lookup / growth"
            elif op == "clear":
                resets_all = any(x.get("fname") in ("node_weights_mut", "node_indices", "node_weights") for x in thir.calls(f))
                ok, why = resets_all, "cleared together with a restart of every work item" if resets_all else "the map is cleared but the work items are not all restarted"
            else:
                ok, why = False, "operation `%s` drops whole path entries of the external-dependency map: links of other dependents are lost" % op
            R.ob(rid, "map|%s" % op if ok else "map|%s|%s" % (short, op), ok, ctx.where(f, c.get("ln")), why, nontrivial=not ok or op == "clear")
    for p, cs in sorted(roles.set_ops.items()):
        f = lib.fns[p]
        for c in cs:
            op = c.get("fname")
            ok = op in ("insert", "remove", "contains", "is_empty", "iter", "len", "copied", "cloned")
            R.ob(rid, "set|%s" % op, ok, ctx.where(f, c.get("ln")), "inner-set operation" if ok else "inner set is changed wholesale with `%s`" % op, nontrivial=not ok)
    R.require(rid, "floor:map-operations", n >= 3, "", "%d operations on the external-dependency map" % n)
    grows = any(c.get("fname") in GROW for cs in roles.map_ops.values() for c in cs)
    R.require(rid, "map|exists|grow", grows, "", "the map is filled somewhere")


def deps(R, ctx):
    rid = "C10.deps"
    lib = ctx.lib
    R.rule(rid, "in Worker::apply_rules and Worker::bundle, `external_file_dependencies.extend(context.into_dependencies())` lies on every path "
                "from the rule's process call to the `?` on its result (dependencies of a failed rule are still recorded, so fixing the "
                "dependency restarts the item)")
    for name, callee in (("apply_rules", "rules::Rule::process"), ("bundle", None)):
        fn = lib.fn("frontend::worker::Worker::" + name)
        if not R.require(rid, "anchor:" + name, fn is not None and fn.get("mir"), "", "not found"):
            continue
        cfg = mir.Cfg(lib, fn)
        procs = [i for i, t in cfg.calls() if t.get("fname") == "process" and ("Rule" in (t.get("fn") or "") or "Bundler" in (cfg.callee(t) or ""))]
        ext = [i for i, t in cfg.calls() if t.get("fname") == "extend"]
        intod = [i for i, t in cfg.calls() if t.get("fname") == "into_dependencies"]
        R.require(rid, "%s|anchor:calls" % name, bool(procs) and bool(ext) and bool(intod), ctx.where(fn), "process/extend/into_dependencies: %d/%d/%d" % (len(procs), len(ext), len(intod)))
        for p in procs:
            d = cfg.derived_locals({cfg.call_dest(p)})
            tries = cfg.try_branches_on(d)
            for t, cont, brk in tries:
                ok = cfg.must_pass(ext, t, start=p)
                R.ob(rid, "%s|deps-recorded-before-error-propagation" % name, ok, ctx.where(fn, cfg.line(t)),
                     "dependencies are recorded before the rule's error is propagated: %s" % ok)


def stable(R, ctx, roles):
    """Node indices cached in other fields stay valid across node removal only in a graph with stable indices."""
    rid = "C10.stable"
    lib = ctx.lib
    R.rule(rid, "typestate on the worker's dependency graph: while any other field of the worker stores node indices (the path -> node map, "
                "the external-dependency sets) and a method removes nodes from the graph, the graph's type must keep indices stable under "
                "removal (petgraph's StableGraph); a plain Graph moves the last node into the freed slot, so a cached index then names "
                "another work item (or nothing)")
    a = lib.adts.get(WT)
    fields = a["variants"][0]["fields"] if a else []
    gtype = next((f["tys"] for f in fields if f["name"] == roles.fields.get("graph")), "")
    cached = [f["name"] for f in fields if "NodeIndex" in f["tys"] and f["name"] != roles.fields.get("graph")]
    removers = []
    for f in roles.methods:
        for c in thir.calls(f):
            if c.get("fname") in ("remove_node",) and c["args"] and "raph" in lib.ty_str(lib.strip_refs(c["args"][0]["t"])):
                removers.append(f["path"].split("::")[-1])
    R.require(rid, "anchor:cached-indices", bool(cached) and bool(removers), ctx.adt_where(WT), "fields caching node indices: %s; methods removing nodes: %s" % (cached, sorted(set(removers))))
    stable_ = "stable_graph::StableGraph<" in gtype
    R.ob(rid, "graph-type", stable_ or not (cached and removers), ctx.adt_where(WT),
         "graph type `%s` %s indices stable under remove_node while %s cache them" % (gtype.split("<")[0], "keeps" if stable_ else "does NOT keep", cached))


def under_directory(R, ctx, rid="C10.under-directory"):
    """Which work items a directory notification concerns: component-wise path prefix."""
    from .. import peval
    from ..pathmodel import PathV
    lib = ctx.lib
    R.rule(rid, "in the work tree's notification handlers, 'this item lies under the reported directory' is decided by std's component-wise "
                "Path::starts_with, or by a local helper that -- evaluated from its typed tree with std::path's semantics -- agrees with it on "
                "siblings sharing a textual prefix (`src/lib.lua`, `src/library/x.lua` are not under `src/lib`; `src/lib/a.lua` and `src/lib` are)")
    tree = [f for f in lib.fn_list if thir.body_of(f) and "worker_tree" in (f.get("file") or "")]
    is_path = lambda t: lib.ty_str(lib.strip_refs(t)) in ("std::path::Path", "std::path::PathBuf")
    n_std, n_help, helpers = 0, 0, {}
    for f in tree:
        for c in thir.calls(f):
            if len(c.get("args", [])) == 2 and all("t" in a and is_path(a["t"]) for a in c["args"]) and lib.ty_str(c.get("t")) == "bool":
                cal = callee_of(c) or c.get("fn") or ""
                if cal in lib.fns and thir.body_of(lib.fns[cal]):
                    helpers[cal] = lib.fns[cal]
                    n_help += 1
                elif c.get("fname") == "starts_with" and "path::Path" in cal:
                    n_std += 1
    table = [("src/lib/a.lua", "src/lib", True), ("src/lib", "src/lib", True), ("src/lib/sub/b.lua", "src/lib", True), ("src/lib.lua", "src/lib", False),
             ("src/library/x.lua", "src/lib", False), ("src/li", "src/lib", False), ("other/lib/a.lua", "src/lib", False), ("src/lib/a.lua", "src/lib/a.lua", True)]
    for cal, h in sorted(helpers.items()):
        bad = None
        for item, d, want in table:
            pe = peval.PEval(lib, ctx.an)
            try:
                got = pe.call_fn(h, [PathV(item), PathV(d)])
            except peval.OutOfFuel:
                got = None
            if got is not want and bad is None:
                bad = "`%s` under `%s`: %s expected, the helper gives %s %s" % (item, d, want, got, pe.unknown_reasons[:1] if not isinstance(got, bool) else "")
        R.ob(rid, "%s|component-wise" % cal.split("::")[-1], bad is None, ctx.where(h), "agrees with Path::starts_with on %d pairs" % len(table) if bad is None else bad)
    R.require(rid, "floor", n_std + n_help >= 2, "", "%d Path::starts_with decisions, %d decisions through %d local helpers on two paths" % (n_std, n_help, len(helpers)))


def run(R, ctx):
    R.explanation = (
        "Necessary structural conditions of the incremental worker decided on MIR/THIR: fingerprint compared before work and over the "
        "whole configuration, every notification restarts dependents, deletions executed on every successful pass, nodes unlinked before "
        "removal, who-may-shrink the dependency map, dependencies recorded on failure too. Histories themselves are not explored. Decision / transfer functions among these are decided by finite-domain evaluation of their typed tree (sa/peval.py): every point of a small abstract domain is evaluated and compared with the reference; nothing is sampled and no program input exists."
    )
    R.assumptions += ["the fingerprint is only as fine as Configuration's Serialize output: see C19.keys / C19.filters"]
    roles = Roles(ctx)
    need = {"extmap", "last_hash", "graph"}
    if not R.require("C10.hash", "anchor:roles", need <= set(roles.fields), ctx.adt_where(WT) if WT in ctx.lib.adts else "", "WorkerTree fields by type: %s" % roles.fields):
        return
    hash_rule(R, ctx, roles)
    notify(R, ctx, roles)
    clean(R, ctx, roles)
    unlink(R, ctx, roles)
    links(R, ctx, roles)
    stable(R, ctx, roles)
    deps(R, ctx)
    # the stale output of a removed source is scheduled for deletion whatever happened to the item since it was written
    from . import c11
    c11.deletion_list(R, ctx, rid="C10.delete", status_rid="C10.delete")
    under_directory(R, ctx)

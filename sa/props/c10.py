"""C10 Incremental reprocessing equals processing from scratch (small structural part).

Histories are not a shape; decided are necessary conditions of the mechanism:
  C10.hash      in WorkerTree::process, has_configuration_changed is consulted before any work and
                reset() lies on its true edge; the fingerprint is serde_json::to_vec of the whole
                Configuration (so C19.keys / C19.filters are necessary for C10 as well)          [T6]
  C10.notify    source_changed / add_source / remove_source all pass update_external_dependencies
                on every path; both arms of remove_source queue the output for deletion unless the
                item is in place                                                               [T6/T3]
  C10.clean     every successful return of process() passes clean_files (queued deletions are
                never postponed to a later pass)                                                 [T6]
  C10.unlink    every graph.remove_node(x) is preceded by restart_work(x) (which unlinks x from
                external_dependencies): no stale node index can be restarted later (panic)       [T6]
  C10.links     who may shrink external_dependencies: only reset() clears the map; restart_work
                removes single indexes from the inner sets                                        [T5]
  C10.deps      dependencies recorded by a rule reach the work item on success *and* on failure
                (extend(context.into_dependencies()) precedes the `?` on the rule result)         [T6]
Not decided: equality of output trees over histories, dependency completeness of the bundler.
"""
from .. import thir, mir, interproc, guards
from ..thir import callee_of
from ..facts import norm_path

WT = "frontend::worker_tree::WorkerTree"


def hash_rule(R, ctx):
    rid = "C10.hash"
    lib = ctx.lib
    R.rule(rid, "WorkerTree::process calls has_configuration_changed on every path before the first advance_work, reset() is reachable "
                "only through its true edge, and the fingerprint hashes serde_json::to_vec(config) of the Configuration")
    fn = lib.fn(WT + "::process")
    if not R.require(rid, "anchor:process", fn is not None and fn.get("mir"), "", "not found"):
        return
    cfg = mir.Cfg(lib, fn)
    chk = [i for i, t in cfg.calls() if t.get("fname") == "has_configuration_changed"]
    adv = [i for i, t in cfg.calls() if t.get("fname") == "advance_work"]
    rst = [i for i, t in cfg.calls() if t.get("fname") == "reset" and WT in (cfg.callee(t) or "")]
    R.require(rid, "anchor:calls", bool(chk) and bool(adv) and bool(rst), ctx.where(fn), "has_configuration_changed/advance_work/reset calls: %d/%d/%d" % (len(chk), len(adv), len(rst)))
    for a in adv:
        R.ob(rid, "process|hash-before-work", cfg.must_pass(chk, a), ctx.where(fn, cfg.line(a)), "configuration fingerprint compared before any work")
    for c in chk:
        nxt = cfg.blocks[c]["term"].get("t")
        sw = cfg.blocks[nxt]["term"]
        if sw["k"] == "switch":
            true_t = sw["otherwise"]
            reg = cfg.edge_region(nxt, true_t)
            for r in rst:
                R.ob(rid, "process|reset-on-change", r in reg, ctx.where(fn, cfg.line(r)), "reset() lies on the `changed` edge: %s" % (r in reg))
        else:
            R.ob(rid, "process|reset-on-change", False, ctx.where(fn), "result of has_configuration_changed not branched on")
    h = lib.fn(WT + "::has_configuration_changed")
    if R.require(rid, "anchor:has_configuration_changed", h is not None, "", "not found"):
        # the configuration is parameter #1; helpers that receive it are followed
        ser = lambda c: c.get("fname") in ("to_vec", "to_string", "to_writer", "to_value") and "serde_json" in (c.get("fn") or "")
        tv = list(interproc.tainted_calls(ctx, h, {1}, ser))
        ok = bool(tv)
        R.ob(rid, "fingerprint|whole-configuration", ok, ctx.where(h), "hash input = serde_json serialisation of the whole `config` argument: %s" % ok)
        sc = list(interproc.scope_calls(lib, h))
        hx = [c for f, c in sc if "xxh" in (c.get("fname") or "") or "hash" in (c.get("fname") or "")]
        R.ob(rid, "fingerprint|hashed", bool(hx), ctx.where(h), "hash function applied")
        fa = ctx.an.fa(h["path"])
        rep = [c for c in thir.calls(h) if c.get("fname") in ("replace", "insert", "get_or_insert", "get_or_insert_with") and c["args"]
               and any(o[0] == WT for o in fa.origins(c["args"][0]))]
        asg = [n for n in thir.walk(thir.body_of(h)) if n.get("k") == "Assign" and any(o[0] == WT for o in fa.origins(n["l"]))]
        stores_always = [c for c in rep if c.get("fname") in ("replace", "insert")] or asg
        R.ob(rid, "fingerprint|stored", bool(stores_always), ctx.where(h), "the new fingerprint replaces the stored one on every pass (Option::replace / assignment): %s" % bool(stores_always))


def notify(R, ctx):
    rid = "C10.notify"
    lib = ctx.lib
    R.rule(rid, "source_changed, add_source and remove_source reach every return through update_external_dependencies; each arm of "
                "remove_source that drops a node pushes its output onto remove_files under `!is_in_place()`")
    for name in ("source_changed", "add_source", "remove_source"):
        fn = lib.fn("%s::%s" % (WT, name))
        if not R.require(rid, "anchor:" + name, fn is not None and fn.get("mir"), "", "not found"):
            continue
        cfg = mir.Cfg(lib, fn)
        upd = [i for i, t in cfg.calls() if t.get("fname") == "update_external_dependencies"]
        ok = bool(upd) and all(cfg.must_pass(upd, r) for r in cfg.returns())
        R.ob(rid, "%s|updates-dependents" % name, ok, ctx.where(fn), "every return passes update_external_dependencies: %s" % ok)
    fn = lib.fn(WT + "::remove_source")
    cf = lib.fn(WT + "::clean_files")
    if fn is not None and R.require(rid, "anchor:clean_files", cf is not None, "", "clean_files not found"):
        # the deletion queue = the WorkerTree field whose elements clean_files hands to Resources::remove
        cfa = ctx.an.fa(cf["path"])
        queue = set()
        for c in thir.calls(cf):
            if c.get("fname") == "remove" and "Resources" in (c.get("fn") or "") + (callee_of(c) or ""):
                for a_ in c["args"][1:]:
                    queue |= {o[1] for o in cfa.origins(a_) if o[0] == WT}
        if not R.require(rid, "anchor:deletion-queue", len(queue) >= 1, ctx.where(cf), "field(s) drained into Resources::remove: %s" % sorted(queue)):
            return
        a = ctx.an.fa(fn["path"])
        M = guards.Mentions(ctx.an)
        removes = [c for c in thir.calls(fn) if c.get("fname") == "remove_node"]
        R.require(rid, "remove_source|anchor:remove_node", len(removes) >= 1, ctx.where(fn), "%d remove_node calls" % len(removes))
        pushes = [c for c in thir.calls(fn) if c.get("fname") in ("push", "extend", "insert", "push_back", "append") and c["args"]
                  and any(o[0] == WT and o[1] in queue for o in a.origins(c["args"][0]))]
        R.ob(rid, "remove_source|queues-output-in-each-arm", len(pushes) >= len(removes) and len(pushes) >= 1, ctx.where(fn),
             "%d pushes onto the deletion queue %s for %d node removals" % (len(pushes), sorted(queue), len(removes)))
        inplace = guards.is_call_named("is_in_place")
        for i, c in enumerate(pushes):
            guarded = M.guarded(a, c, inplace) or any(M.mentions(a, x, inplace) for x in c["args"][1:])
            R.ob(rid, "remove_source|queue-unless-in-place", guarded, ctx.where(fn, c.get("ln")), "queued output depends on is_in_place(): %s" % guarded)


def clean(R, ctx):
    rid = "C10.clean"
    lib = ctx.lib
    R.rule(rid, "in WorkerTree::process every non-error return is preceded by clean_files (deletions queued by remove_source are executed by "
                "the very next pass, also when no work item is left)")
    fn = lib.fn(WT + "::process")
    if not R.require(rid, "anchor:process", fn is not None and fn.get("mir"), "", "not found"):
        return
    cfg = mir.Cfg(lib, fn)
    cl = [i for i, t in cfg.calls() if t.get("fname") == "clean_files"]
    R.require(rid, "anchor:clean_files", bool(cl), ctx.where(fn), "no clean_files call")
    succ = cfg.without_error_edges()
    reach = cfg.reachable_from(0, avoid=set(cl), edges=succ)
    # explicit `return Err(..)` (cyclic work) is also an error exit: exclude returns only reachable through an Err aggregate
    bad = []
    for r in cfg.returns():
        if r in reach:
            # is this return reachable (avoiding clean) without building an Err value?
            err_blocks = {i for i, b in enumerate(cfg.blocks) for st in b["s"] if st.get("rv") == "adt" and st.get("variant") == "Err"}
            reach2 = cfg.reachable_from(0, avoid=set(cl) | err_blocks, edges=succ)
            if r in reach2:
                bad.append(r)
    R.ob(rid, "process|clean-before-success-return", bool(cl) and not bad, ctx.where(fn),
         "a successful return can be reached without clean_files (e.g. the early return when nothing is left to do)" if bad else "every success return passes clean_files")


def unlink(R, ctx):
    rid = "C10.unlink"
    lib = ctx.lib
    R.rule(rid, "every StableGraph::remove_node(x) in WorkerTree is dominated by restart_work(x) on the same node variable (restart_work removes "
                "x from external_dependencies); otherwise a later change of a file x had read restarts a dead index and panics")
    n = 0
    for f in lib.fn_list:
        if not f.get("self_tys", "").startswith(WT) or not thir.body_of(f):
            continue
        a = ctx.an.fa(f["path"])
        order = [id(x) for x in thir.walk(thir.body_of(f))]
        for c in thir.calls(f):
            if c.get("fname") != "remove_node":
                continue
            n += 1
            vars_ = {x["var"] for x in thir.walk(c["args"][1]) if x.get("k") == "Var"}
            ok = False
            for r in thir.calls(f):
                if r.get("fname") == "restart_work" and order.index(id(r)) < order.index(id(c)):
                    rv = {x["var"] for x in thir.walk(r["args"][1]) if x.get("k") == "Var"}
                    if rv & vars_:
                        # same lexical scope: the restart's enclosing block encloses the removal
                        pr = a.parent.get(id(r))
                        while pr is not None and pr.get("k") != "Block":
                            pr = a.parent.get(id(pr))
                        if pr is not None and any(y is c for y in thir.walk(pr)):
                            ok = True
            R.ob(rid, "%s|remove_node-after-restart_work" % norm_path(f["path"]).split("::")[-1] + "@%d" % n, ok, ctx.where(f, c.get("ln")),
                 "remove_node(x) %s by restart_work(x)" % ("preceded" if ok else "NOT preceded: x stays in external_dependencies"))
    R.require(rid, "floor:remove_node", n >= 2, "", "%d remove_node calls" % n)


def links(R, ctx):
    rid = "C10.links"
    lib = ctx.lib
    R.rule(rid, "the map external_dependencies is only grown with entry().or_default() in process and cleared in reset; restart_work removes "
                "single node indexes from the inner sets (no function removes a whole path entry: other dependents' links would be lost)")
    allowed = {
        ("process", "entry"): "links an item to a file it read",
        ("reset", "clear"): "configuration changed: everything restarts",
        ("restart_work", "get_mut"): "access to the inner set",
        ("update_external_dependencies", "get"): "lookup",
        ("iter_external_dependencies", "iter"): "read-only",
    }
    seen = set()
    for f in lib.fn_list:
        if not f.get("self_tys", "").startswith(WT) or not thir.body_of(f):
            continue
        a = ctx.an.fa(f["path"])
        short = norm_path(f["path"]).split("::")[-1]
        for c in thir.calls(f):
            if not c["args"] or callee_of(c) in lib.fns:
                continue
            recv = c["args"][0]
            ts = lib.ty_str(lib.strip_refs(recv["t"]))
            o = {x for x in a.origins(recv) if x[0] != "#param"}
            if (WT, "external_dependencies") in o and "HashMap" in ts and "HashSet" in ts:
                key = (short, c.get("fname"))
                seen.add(key)
                R.ob(rid, "map|%s|%s" % key, key in allowed, ctx.where(f, c.get("ln")),
                     allowed.get(key, "unreviewed operation `%s` on the external_dependencies map in %s" % (c.get("fname"), short)))
            elif any(x[1] == "external_dependencies" for x in o) and ts.startswith("std::collections::hash::set::HashSet"):
                if c.get("fname") in ("insert", "remove", "contains", "is_empty", "iter"):
                    ok = not (c["fname"] == "remove" and short != "restart_work") and not (c["fname"] == "insert" and short != "process")
                    R.ob(rid, "set|%s|%s" % (short, c["fname"]), ok, ctx.where(f, c.get("ln")), "inner-set operation")
    for key in (("process", "entry"), ("reset", "clear")):
        R.require(rid, "map|exists|%s|%s" % key, key in seen, "", "reviewed operation no longer present")


def deps(R, ctx):
    rid = "C10.deps"
    lib = ctx.lib
    R.rule(rid, "in Worker::apply_rules and Worker::bundle, `external_file_dependencies.extend(context.into_dependencies())` lies on every path "
                "from the rule's process call to the `?` on its result (dependencies of a failed rule are still recorded, so fixing the "
                "dependency restarts the item)")
    for name, callee in (("apply_rules", "rules::Rule::process"), ("bundle", None)):
        fn = lib.fn("frontend::worker::Worker::" + name)
        if not R.require(rid, "anchor:" + name, fn is not None and fn.get("mir"), "", "not found"):
            continue
        cfg = mir.Cfg(lib, fn)
        procs = [i for i, t in cfg.calls() if t.get("fname") == "process" and ("Rule" in (t.get("fn") or "") or "Bundler" in (cfg.callee(t) or ""))]
        ext = [i for i, t in cfg.calls() if t.get("fname") == "extend"]
        intod = [i for i, t in cfg.calls() if t.get("fname") == "into_dependencies"]
        R.require(rid, "%s|anchor:calls" % name, bool(procs) and bool(ext) and bool(intod), ctx.where(fn), "process/extend/into_dependencies: %d/%d/%d" % (len(procs), len(ext), len(intod)))
        for p in procs:
            d = cfg.derived_locals({cfg.call_dest(p)})
            tries = cfg.try_branches_on(d)
            for t, cont, brk in tries:
                ok = cfg.must_pass(ext, t, start=p)
                R.ob(rid, "%s|deps-recorded-before-error-propagation" % name, ok, ctx.where(fn, cfg.line(t)),
                     "dependencies are recorded before the rule's error is propagated: %s" % ok)


def run(R, ctx):
    R.explanation = (
        "Necessary structural conditions of the incremental worker decided on MIR/THIR: fingerprint compared before work and over the "
        "whole configuration, every notification restarts dependents, deletions executed on every successful pass, nodes unlinked before "
        "removal, who-may-shrink the dependency map, dependencies recorded on failure too. Histories themselves are not explored."
    )
    R.assumptions += ["the fingerprint is only as fine as Configuration's Serialize output: see C19.keys / C19.filters"]
    hash_rule(R, ctx)
    notify(R, ctx)
    clean(R, ctx)
    unlink(R, ctx)
    links(R, ctx)
    deps(R, ctx)

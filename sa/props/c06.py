"""C06 Luau-lowering rules preserve program behaviour (structural part).

Decided:
  C06.dup     what remove_compound_assignment duplicates without a temporary is effect-free: the
              "no temporary needed" variant sets are subsets of the variants for which
              Evaluator::has_side_effects is constantly false                                 [T4 subset]
  C06.shadow  the processors that substitute captured locals when math/string/tostring are
              shadowed, or generate fresh names, are driven by a scope-tracking visitor          [T8]
  C06.hoist   remove_types / remove_if_expression hoist a sub-expression into its parent's
              position only behind can_return_multiple_values -> in_parentheses                 [T7]
  C06.fold    folds that nest their accumulator as the trailing (else/right) operand iterate in
              reverse (branch order = evaluation order), sibling folds agree                    [T3]
  C06.box     remove_if_expression uses the unboxed `c and r or e` form only when the result is
              known truthy: unknown truthiness falls back to the boxed form                     [T7]
  C06.fresh   temporaries come from IdentifierTracker::generate_identifier_with_prefix          [T7]
Not decided: the `continue` lowering for repeat-until conditions reading body locals, and/or chain
truthiness, string.format semantics, floor semantics.
"""
from .. import thir, tables, guards, coverage
from ..thir import callee_of
from . import c05

EXPR = "nodes::expressions::Expression"
TRIVIA_PROCESSORS = ("RemoveCommentProcessor", "RemoveWhitespacesProcessor")
PREFIX = "nodes::expressions::prefix::Prefix"


def effect_free_variants(ctx, R, rid):
    lib = ctx.lib
    fn = lib.fn("process::evaluator::Evaluator::has_side_effects")
    if not R.require(rid, "anchor:has_side_effects", fn is not None, "", "not found"):
        return None
    ms = tables.matches_on(lib, thir.body_of(fn), EXPR)
    if not R.require(rid, "anchor:has_side_effects-match", len(ms) >= 1, ctx.where(fn), "no match on Expression"):
        return None
    tbl = tables.variant_table(lib, ms[0], EXPR)
    free = {v for v, rows in tbl.items() if all(c == "false" and not g for c, g, _ in rows)}
    R.require(rid, "floor:effect-free", len(free) >= 6, ctx.where(fn), "constant-false variants of has_side_effects: %s" % sorted(free))
    return free


def dup(R, ctx, trivia_rid="C06.copy-trivia"):
    """remove_compound_assign as a transfer function: every effectful operand is evaluated once, in order (finite-domain evaluation)."""
    from .. import peval
    from ..peval import Enum, Struct, UNKNOWN, make
    from .c17 import tags_in_order
    rid = "C06.dup"
    lib = ctx.lib
    R.rule(trivia_rid, "in every statement remove_compound_assignment writes (same evaluation as C06.dup), the copy of the assigned variable that is read on the "
                       "right-hand side (`v = <copy> op value`) has been handed to the comment-clearing and the whitespace-clearing walks: a comment "
                       "kept on the copy is written twice and, under retain_lines, its line breaks push the rest of the line below its original line")
    R.rule(rid, "remove_compound_assignment's process_statement, evaluated from its typed tree on `x += V`, `<P>.f += V` and `<P>[I] += V` with "
                "the prefix P ranging over every Prefix variant and every parenthesised Expression variant, and I, V over every Expression "
                "variant: in the statement(s) written, every operand for which Evaluator::has_side_effects is not the constant false occurs "
                "exactly once (no `t[f()] = t[f()] + 1`), and the operands are evaluated in the source order P, I, V")
    N = "nodes::"
    PREFIX, STMT, VAR = N + "expressions::prefix::Prefix", N + "statements::Statement", N + "variable::Variable"
    IDX, FE, ID, PAR = N + "expressions::index::IndexExpression", N + "expressions::field::FieldExpression", N + "identifier::Identifier", N + "expressions::parenthese::ParentheseExpression"
    PROC = "rules::remove_compound_assign::Processor"
    fn = lib.fn("<%s as process::node_processor::NodeProcessor>::process_statement" % PROC)
    hse = lib.fn("process::evaluator::Evaluator::has_side_effects")
    st_adt = lib.adts.get(STMT)
    ca = [f["tys"] for v in (st_adt["variants"] if st_adt else []) if v["name"] == "CompoundAssign" for f in v["fields"]]
    if not R.require(rid, "anchor:replace_with", fn is not None and hse is not None and len(ca) == 1, "", "process_statement / has_side_effects / CompoundAssign not found"):
        return
    CA = ca[0]
    COP = [f["tys"] for v in lib.adts[CA]["variants"] for f in v["fields"] if f["name"] == "operator"][0]
    variants = [v["name"] for v in lib.adts[EXPR]["variants"]]

    def effect_free(kind):
        pe = peval.PEval(lib, ctx.an)
        try:
            return pe.call_fn(hse, [make(lib, "process::evaluator::Evaluator"), Enum(EXPR, kind, {"0": UNKNOWN})]) is False
        except peval.OutOfFuel:
            return False
    free = {k for k in variants if effect_free(k)}
    R.require(rid, "floor:effect-free", len(free) >= 6, ctx.where(hse), "constant-false variants of has_side_effects: %s" % sorted(free))

    def tagged(kind, tag):
        if kind == "Identifier":
            return Enum(EXPR, kind, {"0": make(lib, ID, {"name": "n_" + tag, "#tag": tag})})
        if kind == "Parenthese":
            return Enum(EXPR, kind, {"0": make(lib, PAR, {"expression": Enum(EXPR, "Call", {"0": Struct("#payload", {"#tag": tag})})})})
        if kind in optional_payload:
            # `Expression::True(Option<Token>)` and the like: an absent token that still carries the operand's tag
            return Enum(EXPR, kind, {"0": Enum(peval.OPTION, "None", {"#tag": tag})})
        return Enum(EXPR, kind, {"0": Struct("#payload", {"#tag": tag})})
    optional_payload = {v["name"] for v in lib.adts[EXPR]["variants"] if len(v["fields"]) == 1 and v["fields"][0].get("tys", "").startswith("core::option::Option<")}
    prefixes = [("Identifier", lambda: Enum(PREFIX, "Identifier", {"0": make(lib, ID, {"name": "t", "#tag": "P"})}), True)]
    for pv in [v["name"] for v in lib.adts[PREFIX]["variants"] if v["name"] not in ("Identifier", "Parenthese")]:
        prefixes.append((pv, (lambda pv=pv: Enum(PREFIX, pv, {"0": Struct("#payload", {"#tag": "P"})})), False))
    for k in variants:
        prefixes.append(("(%s)" % k, (lambda k=k: Enum(PREFIX, "Parenthese", {"0": make(lib, PAR, {"expression": tagged(k, "P")})})), k in free))
    dflt = lib.fn("<%s as core::default::Default>::default" % PROC)
    bad, unk, n = [], [], 0
    dirty, n_copies = [], [0]

    def trivia_walk(pe_, path, fname, args, node):
        # the copies of an operand are walked by the comment / whitespace clearing processors before they are written a second
        # time; those walks only touch tokens (the operands here are opaque payloads without tokens) and are skipped
        if fname.startswith("visit_") and any(isinstance(a, Struct) and a.adt.rsplit("::", 1)[-1] in TRIVIA_PROCESSORS for a in args):
            who = next(a.adt.rsplit("::", 1)[-1] for a in args if isinstance(a, Struct) and a.adt.rsplit("::", 1)[-1] in TRIVIA_PROCESSORS)
            for a in args:
                if isinstance(a, (Struct, Enum)) and a.adt.rsplit("::", 1)[-1] not in TRIVIA_PROCESSORS:
                    a.fields["#cleaned:" + who] = True      # this copy went through the trivia-clearing walk
            return peval.UNIT
        return NotImplemented

    def run_(variable, operands):
        st = Enum(STMT, "CompoundAssign", {"0": make(lib, CA, {"operator": Enum(COP, "Plus"), "variable": variable, "value": tagged("Call", "V")})})
        pe = peval.PEval(lib, ctx.an, hook=trivia_walk)
        try:
            proc = pe.call_fn(dflt, []) if dflt is not None else make(lib, PROC)
            pe.call_fn(fn, [proc, st])
        except peval.OutOfFuel:
            return None, ["no termination"]
        return st, pe.unknown_reasons
    cases = [("x += V", Enum(VAR, "Identifier", {"0": make(lib, ID, {"name": "x"})}), [])]
    for label, build, pfree in prefixes:
        cases.append(("%s.f += V" % label, Enum(VAR, "Field", {"0": make(lib, FE, {"prefix": build(), "field": make(lib, ID, {"name": "f"})})}), [("P", pfree)]))
        for k in variants:
            cases.append(("%s[%s] += V" % (label, k), Enum(VAR, "Index", {"0": make(lib, IDX, {"prefix": build(), "index": tagged(k, "I")})}), [("P", pfree), ("I", k in free)]))
    for label, variable, operands in cases:
        st, why = run_(variable, operands)
        n += 1
        if st is None or why:
            unk.append((label, why[:1]))
            if st is None or (isinstance(st, Enum) and st.variant == "CompoundAssign"):
                continue        # nothing was written: only "not established" can be said
        if isinstance(st, Enum) and st.variant == "CompoundAssign":
            bad.append("`%s` is left as a compound assignment" % label)
            continue
        # the copy of the variable that is read on the right-hand side (`v = <copy of v> op V`) went through both trivia walks:
        # a comment kept on the copy is written twice, and its line breaks push what follows below its line
        def binaries(v):
            if isinstance(v, Struct) and v.adt.endswith("::BinaryExpression") and "V" in tags_in_order(v.fields.get("right")) and "V" not in tags_in_order(v.fields.get("left")):
                yield v
            for x in (v.fields.values() if isinstance(v, (Struct, Enum)) else v if isinstance(v, list) else ()):
                yield from binaries(x)
        for b in binaries(st):
            n_copies[0] += 1
            left = b.fields.get("left")
            missing = [w for w in TRIVIA_PROCESSORS if not (isinstance(left, (Struct, Enum)) and left.fields.get("#cleaned:" + w))]
            if missing:
                dirty.append("`%s`: the copy of the variable read on the right-hand side is not walked by %s" % (label, missing))
        tags = tags_in_order(st)
        effectful = [t for t, is_free in operands if not is_free] + ["V"]
        order = [t for i, t in enumerate(tags) if t not in tags[:i] and t in effectful]
        want_order = effectful
        for t, is_free in operands + [("V", False)]:
            c = tags.count(t)
            if c == 0:
                bad.append("`%s`: operand %s disappears from the lowered statement" % (label, t))
            elif c > 1 and not is_free:
                bad.append("`%s`: operand %s can have side effects and is evaluated %d times (`t[f()] = t[f()] + 1`)" % (label, t, c))
        if order != want_order:
            bad.append("`%s`: operands are evaluated in the order %s instead of %s" % (label, order, want_order))
    R.require(rid, "floor:duplicated-variants", n >= 300, ctx.where(fn), "%d compound assignments evaluated" % n)
    R.ob(rid, "replace_with|established", not unk, ctx.where(fn), "all %d shapes evaluate" % n if not unk else "not established: %s %s" % unk[0])
    R.ob(trivia_rid, "replace_with|copy-loses-its-trivia", not dirty, ctx.where(fn), "%d copies, each walked by the comment and the whitespace clearing processors" % n_copies[0] if not dirty else "%s (%d shapes)" % (dirty[0], len(dirty)))
    R.require(trivia_rid, "floor:copies", n_copies[0] >= 300, ctx.where(fn), "%d right-hand-side copies found" % n_copies[0])
    R.ob(rid, "replace_with|each-effectful-operand-once-in-order", not bad, ctx.where(fn), "all %d shapes" % n if not bad else "%s (%d shapes)" % (bad[0], len(bad)))


def hoist(R, ctx):
    rid = "C06.hoist"
    lib = ctx.lib
    R.rule(rid, "when remove_types / remove_if_expression move a sub-expression into its parent's position, the moved value is wrapped with "
                "in_parentheses() under Evaluator::can_return_multiple_values of that value (a call / `...` must not start returning several values)")
    M = guards.Mentions(ctx.an)
    pred = guards.is_call_named("can_return_multiple_values")
    # remove_types: transfer function of process_expression on `<V> :: T` and `<P><<T>>` for every inner variant
    from .. import peval
    from ..peval import Enum, Struct, make
    PREFIX = "nodes::expressions::prefix::Prefix"
    TC, TI, RT = "nodes::expressions::type_cast::TypeCastExpression", "nodes::expressions::type_instantiation::TypeInstantiationExpression", "rules::remove_types::RemoveTypesProcessor"
    fn = lib.fn("<%s as process::node_processor::NodeProcessor>::process_expression" % RT)
    MULTI = {"Call", "VariableArguments"}
    if R.require(rid, "anchor:process_expression", fn is not None and all(x in lib.adts for x in (TC, TI, RT)), "", "remove_types process_expression / node types not found"):
        n = 0
        def payload(enum_adt, V):
            # the variant's payload as an abstract struct (fields from the ADT metadata) carrying the scenario's tag
            tys = [f["tys"] for v in lib.adts[enum_adt]["variants"] if v["name"] == V for f in v["fields"]]
            t = tys[0] if tys else ""
            while t.startswith("alloc::boxed::Box<"):
                t = t[len("alloc::boxed::Box<"):-1]
            if t in lib.adts and lib.adts[t].get("kind") == "struct":
                extra = {"#tag": "inner"}
                if t.endswith("BinaryExpression"):
                    extra["operator"] = Enum("nodes::expressions::binary::BinaryOperator", "And")
                return make(lib, t, extra)
            return Struct("#payload", {"#tag": "inner"})
        cases = [("TypeCast", V, lambda V: Enum(EXPR, "TypeCast", {"0": make(lib, TC, {"expression": Enum(EXPR, V, {"0": payload(EXPR, V)})})}))
                 for V in [v["name"] for v in lib.adts[EXPR]["variants"] if v["name"] not in ("TypeCast", "TypeInstantiation")]]
        cases += [("TypeInstantiation", V, lambda V: Enum(EXPR, "TypeInstantiation", {"0": make(lib, TI, {"prefix": Enum(PREFIX, V, {"0": payload(PREFIX, V)})})}))
                  for V in [v["name"] for v in lib.adts[PREFIX]["variants"] if v["name"] != "TypeInstantiation"]]
        for outer, V, build in cases:
            e = build(V)
            pe = peval.PEval(lib, ctx.an)
            try:
                pe.call_fn(fn, [make(lib, RT), e])
            except peval.OutOfFuel:
                pass
            n += 1
            stripped = isinstance(e, Enum) and e.variant not in ("TypeCast", "TypeInstantiation")
            inner = e
            if V != "Parenthese" and isinstance(e, Enum) and e.variant == "Parenthese" and isinstance(e.fields.get("0"), Struct):
                inner = e.fields["0"].fields.get("expression")
            same = isinstance(inner, Enum) and inner.variant == V and isinstance(inner.fields.get("0"), Struct) and inner.fields["0"].fields.get("#tag") == "inner"
            ok = stripped and same and (V not in MULTI or e.variant == "Parenthese")
            R.ob(rid, "remove_types|process_expression|%s(%s)" % (outer, V), ok and not pe.unknown_reasons, ctx.where(fn),
                 "type syntax removed, value %s" % ("kept in parentheses (single value)" if e.variant == "Parenthese" else "moved up as it is") if ok and not pe.unknown_reasons else
                 ("hoisted value is bare although Expression::%s can return several values: `(f() :: T)` would start returning all of them" % V if stripped and same else
                  "result %s %s" % (repr(e)[:80], pe.unknown_reasons[:2])))
        R.require(rid, "remove_types|floor", n >= 20, ctx.where(fn), "%d (type syntax, inner variant) cells" % n)
    fn = lib.fn("rules::remove_if_expression::Processor::wrap_in_table")
    if R.require(rid, "anchor:wrap_in_table", fn is not None, "", "not found"):
        fa = ctx.an.fa(fn["path"])
        ip = [c for c in thir.calls(fn) if c.get("fname") == "in_parentheses"]
        ok = bool(ip) and all(any(k == "then" and M.mentions(fa, cond, pred) for cond, k in guards.conditions_of(fa, c)) for c in ip)
        R.ob(rid, "remove_if_expression|wrap_in_table", ok, ctx.where(fn), "`{ value }` boxes only the first value: in_parentheses under can_return_multiple_values: %s" % ok)


def fold_direction(R, ctx):
    rid = "C06.fold"
    lib = ctx.lib
    R.rule(rid, "every Iterator::fold/rfold in the library whose closure nests the accumulator as the trailing operand of what it builds "
                "(right-nested chain: the first element must end up outermost) iterates in reverse (rfold or .rev()); folds that use the "
                "accumulator as receiver/first operand iterate forward")
    n = 0
    for f in lib.fn_list:
        b = thir.body_of(f)
        if not b or "::test" in f["path"]:
            continue
        for c in thir.walk(b):
            if c.get("k") != "Call" or c.get("fname") not in ("fold", "rfold") or "Iterator" not in (c.get("fn") or "") and "iter" not in (c.get("fn") or ""):
                continue
            clo = [a for a in c["args"] if a.get("k") == "Closure"]
            if not clo or not clo[0].get("body"):
                continue
            params = [p for p in clo[0]["body"].get("params", []) if "pat" in p]
            if not params:
                continue
            acc = {x[0] for x in thir.pat_bindings(params[0]["pat"])}
            trailing = leading = False
            for call in thir.walk(clo[0]["body"]["body"]):
                if call.get("k") == "Call" and "fn" in call and len(call["args"]) >= 2:
                    for i, a in enumerate(call["args"]):
                        aa = a
                        while aa.get("k") in ("Borrow", "Deref", "Coerce", "Cast"):
                            aa = aa["e"]
                        if aa.get("k") == "Var" and aa["var"] in acc:
                            if i == len(call["args"]) - 1 and i >= 2:
                                trailing = True
                            if i == 0:
                                leading = True
            chain = []
            r = c["args"][0]
            while r.get("k") == "Call":
                chain.append(r.get("fname"))
                r = r["args"][0] if r["args"] else {}
            reverse = c["fname"] == "rfold" or "rev" in chain
            n += 1
            if trailing and not leading:
                R.ob(rid, "%s@fold" % f["path"].split("::")[-2 if f["path"].endswith(">::process_expression") else -1] + ":" + f["path"].split("::")[-1], reverse, ctx.where(f, c.get("ln")),
                     "accumulator nested as trailing operand; iteration is %s" % ("reversed" if reverse else "FORWARD: the last element ends up outermost, i.e. later branches are tested before earlier ones"))
            else:
                R.ob(rid, "%s@fold-forward" % f["path"].split("::")[-1], not reverse or not leading, ctx.where(f, c.get("ln")), "left-nested / in-place accumulation, forward iteration", nontrivial=False)
    R.require(rid, "floor:folds", n >= 3, "", "%d fold sites in the library" % n)


def box(R, ctx):
    from .. import peval
    from ..peval import Enum, Struct, UNKNOWN, NONE, some
    rid = "C06.box"
    lib = ctx.lib
    R.rule(rid, "remove_if_expression::convert_if_branch, evaluated on abstract operands for every combination of what the evaluator knows "
                "about the truthiness of condition / result / else value: whenever the branch RESULT is not known to be truthy (unknown or "
                "falsy) the value built is not the unboxed `condition and result or else` chain (a run-time false/nil result would fall "
                "through to the else value); the boxed `({..})[1]` form is an index expression")
    fn = lib.fn("rules::remove_if_expression::Processor::convert_if_branch")
    if not R.require(rid, "anchor:convert_if_branch", fn is not None, "", "not found"):
        return
    nparams = len(fn["thir"].get("params", []))
    if not R.require(rid, "anchor:signature", nparams == 4, ctx.where(fn), "convert_if_branch(self, condition, result, else_result): %d parameters" % nparams):
        return
    BE = "nodes::expressions::binary::BinaryExpression"

    def leaf(tag, variant="Identifier"):
        return Enum(EXPR, variant, {"0": tag})
    scen_values = {"unknown": NONE, "truthy": some(True), "falsy": some(False)}
    variants = [v["name"] for v in lib.adts[EXPR]["variants"]]
    # operand shapes: every Expression variant in each of the three positions (one position varied at a time)
    shapes = [("Identifier", "Identifier", "Identifier")]
    for v in variants:
        if v != "Identifier":
            shapes += [(v, "Identifier", "Identifier"), ("Identifier", v, "Identifier"), ("Identifier", "Identifier", v)]
    n = 0
    for shape in shapes:
      for rs in ("unknown", "falsy", "truthy"):
        for cs in ("unknown", "truthy", "falsy"):
            for es in ("unknown", "truthy"):
                  know = {"result": scen_values[rs], "cond": scen_values[cs], "else": scen_values[es]}

                  def hook(pe, path, fname, args, node, know=know):
                      if fname == "evaluate" and "evaluator" in path.lower() and len(args) == 2:
                          return Struct("#LuaValue", {"of": args[1]})
                      if isinstance(args[0] if args else None, Struct) and args[0].adt == "#LuaValue":
                          of = args[0].fields["of"]
                          tag = of.fields.get("0") if isinstance(of, Enum) else None
                          if fname == "is_truthy":
                              return know.get(tag, NONE)
                          return UNKNOWN
                      return NotImplemented
                  pe = peval.PEval(lib, ctx.an, hook)
                  try:
                      v = pe.call_fn(fn, [Struct("#Processor", {}), leaf("cond", shape[0]), leaf("result", shape[1]), leaf("else", shape[2])])
                  except peval.OutOfFuel:
                      v = UNKNOWN
                  inner = v
                  while isinstance(inner, Enum) and inner.adt == EXPR and inner.variant == "Binary" and "0" in inner.fields:
                      inner = inner.fields["0"]
                  unboxed = isinstance(inner, Struct) and inner.adt == BE and isinstance(inner.fields.get("operator"), Enum) and inner.fields["operator"].variant == "Or"
                  if rs == "truthy":
                      continue
                  n += 1
                  definite = isinstance(v, (Struct, Enum))
                  R.ob(rid, "convert_if_branch|%s|result=%s,condition=%s,else=%s" % ("/".join(shape), rs, cs, es), definite and not unboxed, ctx.where(fn),
                       "result truthiness %s: builds %s" % (rs, ("the unboxed and/or chain -- a false/nil result selects the else value" if unboxed else
                                                                 (repr(v).split("{")[0] if definite else "a value this rule cannot establish (%s)" % "; ".join(pe.unknown_reasons[:2])))))
    R.require(rid, "floor:scenarios", n >= 500, ctx.where(fn), "%d scenarios with a result not known truthy" % n)


def fresh(R, ctx):
    rid = "C06.fresh"
    lib = ctx.lib
    R.rule(rid, "remove_compound_assign::Processor::generate_variable obtains its name from IdentifierTracker::generate_identifier_with_prefix "
                "(which skips names in use), and every temporary in replace_with comes from generate_variable")
    fn = lib.fn("rules::remove_compound_assign::Processor::generate_variable")
    if R.require(rid, "anchor:generate_variable", fn is not None, "", "not found"):
        names = [c.get("fname") for c in thir.calls(fn)]
        R.ob(rid, "generate_variable|collision-checked", "generate_identifier_with_prefix" in names, ctx.where(fn), "calls %s" % names)
    fn = lib.fn("rules::remove_compound_assign::Processor::replace_with")
    if fn is not None:
        fa = ctx.an.fa(fn["path"])
        n = 0
        for c in thir.calls(fn):
            if c.get("fname") == "from_variable" and "VariableAssignment" in (c.get("fn") or ""):
                n += 1
                srcs = [y.get("fname") for y in fa.source_calls(c["args"][0])]
                R.ob(rid, "replace_with|temp@%d" % n, "generate_variable" in srcs, ctx.where(fn, c.get("ln")), "temporary name derives from generate_variable: %s" % ("generate_variable" in srcs))
        R.require(rid, "replace_with|floor", n >= 2, ctx.where(fn), "%d temporaries" % n)


def repeat_scope(R, ctx):
    rid = "C06.repeat"
    lib = ctx.lib
    REP = "nodes::statements::repeat_statement::RepeatStatement"
    R.rule(rid, "in `repeat B until C` the condition C is evaluated in the scope of B. A lowering rule that re-nests B into a new inner block must "
                "therefore also deal with C (move it, or keep the locals visible): the rule's callback for RepeatStatement must reference the "
                "statement's condition. Sibling contradiction: the scope visitors treat repeat specially, a rule that handles it exactly like "
                "while/for cannot be right when C reads a local of B")
    for rule, proc in (("remove_continue", "rules::remove_continue::Processor"),):
        cands = []
        for tr in (coverage.NODE_PROCESSOR, coverage.NODE_POST_PROCESSOR):
            for ti, impl in coverage.impl_methods(lib, tr, proc).items():
                fn = lib.fns.get(impl)
                if fn and len(fn["sig"]["inputs"]) >= 2 and lib.types[lib.strip_refs(fn["sig"]["inputs"][1])].get("adt") == REP:
                    cands.append(fn)
        if not R.require(rid, "%s|anchor:repeat-callbacks" % rule, len(cands) >= 1, "", "no callback for RepeatStatement"):
            continue
        # does any of them re-nest the block?
        renests = False
        mentions_cond = False
        for fn in cands:
            fa = ctx.an.fa(fn["path"])
            for c in thir.walk(thir.body_of(fn)):
                if c.get("k") == "Call" and "fn" in c:
                    o = set()
                    for a in c["args"]:
                        o |= fa.origins(a)
                    if (REP, "block") in o and c.get("fname") not in ("mutate_block", "get_block"):
                        renests = True
                    if (REP, "condition") in o:
                        mentions_cond = True
                if c.get("k") == "Field" and c.get("adt") == REP and c.get("f") == "condition":
                    mentions_cond = True
        R.ob(rid, "%s|condition-handled-when-body-is-renested" % rule, (not renests) or mentions_cond, ctx.where(cands[-1]),
             "the RepeatStatement callback passes the body block to a re-nesting helper but never looks at the condition: after lowering, "
             "`until x` no longer sees `local x` declared in the body" if renests and not mentions_cond else "condition handled / body not re-nested")


# ---------------------------------------------------------------------------------------------------------------
# C06.continue: the whole remove_continue rule, evaluated on enumerated loop nests, against a reference semantics


def _continue_specs(tier):
    """body specifications: tuples of items; an item is 'A' (if c then continue end), 'B' (if d then break end), 'M' (a mark),
    ('L', kind, body[, last]) a nested loop, ('F', body) a local function, ('FE', body) a function value, ('D', body) a do block;
    a body may end with 'C' / 'K' (continue / break as its last statement)."""
    kinds = ["while", "repeat", "numfor", "genfor"]
    inner = [("M",), ("A", "M"), ("M", "C"), ("B", "M")] + ([("M", "A"), ("A", "B", "M"), ("A", "M", "C")] if tier == "thorough" else [])
    nested = [("L", k, ib) for k in (kinds if tier == "thorough" else ["while", "repeat"]) for ib in inner]
    wrap = [("F", (("L", "while", ("M",)),)), ("F", (("L", "genfor", ("A", "M")),)), ("FE", (("L", "while", ("M",)),)), ("FE", (("L", "repeat", ("A", "M")),)),
            ("D", ("A", "M")), ("D", (("L", "while", ("M",)),)), ("F", ("M",))]
    pool = ["A", "B", "M"] + nested + wrap
    bodies = [(x,) for x in pool] + [(x, y) for x in pool for y in pool]
    # length 3: a continue on both sides of every nested construct, and a trailing continue
    bodies += [("A", x, "A") for x in nested + wrap] + [(x, "M", "C") for x in nested + wrap] + [("M", x, "C") for x in nested + wrap]
    if tier == "thorough":
        bodies += [(x, y, "A") for x in nested + wrap for y in nested + wrap]
    progs = [(k, b) for k in kinds for b in bodies]
    # two levels of wrapping around a loop with its own continue
    progs += [(k, (("L", k2, ("A", ("L", k, ("M",)), "A")), "A")) for k in kinds for k2 in kinds]
    # the whole program: a call, the loop, a call
    return [("M", ("L", k, b), "M") for k, b in progs]


def continue_lowering(R, ctx):
    rid = "C06.continue"
    lib = ctx.lib
    from .c15 import pmap
    from .. import astmodel
    nbits = 7
    R.rule(rid, "the remove_continue rule, entered through its FlawlessRule::flawless_process and evaluated from its typed tree (visitor walk, "
                "loop stack and re-nesting included) on every enumerated loop nest: four loop kinds x bodies of up to three items out of "
                "`if c then continue end`, `if d then break end`, a call, nested loops with and without their own continue / break, loops inside "
                "local functions and function values, do blocks, a trailing `continue`. The lowered tree contains no `continue`, and for every "
                "oracle of %d condition outcomes it is observationally equal (same calls, same condition evaluations, same order) to the "
                "original under an independent reference semantics of Lua/Luau control flow (sa/astmodel.py): a lowered `continue` that leaves "
                "the real loop, skips the rest of an iteration it should not, or pairs with another loop's flag changes the trace" % nbits)
    fn = lib.fn("<rules::remove_continue::RemoveContinue as rules::FlawlessRule>::flawless_process")
    if fn is None:
        c = [f for k, f in lib.fns.items() if k.endswith("as rules::FlawlessRule>::flawless_process") and "remove_continue" in k]
        fn = c[0] if len(c) == 1 else None
    B = astmodel.Builder(lib)
    if not R.require(rid, "anchor:rule", fn is not None and thir.body_of(fn) is not None and not B.missing, "", "remove_continue's flawless_process / AST types: %s" % (B.missing or "found")):
        return
    rule_adt = fn["path"].split(" as ")[0][1:]
    specs = _continue_specs(R.tier)
    astmodel.configure(ctx=ctx, fn=fn, rule=rule_adt, bits=nbits, no_continue=True)
    chunks = [specs[k:k + 24] for k in range(0, len(specs), 24)]
    n, bad, changed = 0, {}, 0
    for res in pmap(astmodel.rule_chunk, chunks):
        for spec, why, ch in res:
            n += 1
            changed += ch
            if why is not None:
                bad.setdefault(spec[1][1], []).append((spec[1][1:], why))
    for kind in ("while", "repeat", "numfor", "genfor"):
        b = bad.get(kind, [])
        R.ob(rid, "remove_continue|%s|observationally-equal" % kind, not b, ctx.where(fn),
             "every loop nest keeps its trace" if not b else "%d nests differ; first: %s: %s" % (len(b), b[0][0][1], b[0][1]))
    R.require(rid, "floor", n >= 1500 and changed >= 1000, ctx.where(fn), "%d loop nests x %d oracles; %d of them were rewritten" % (n, 2 ** nbits, changed))
    R.meta[rid] = {"programs": n, "oracles_per_program": 2 ** nbits}


def tracker_records_locals(R, ctx, rid="C06.tracker"):
    """The identifier tracker behind the `math` / `string` / `tostring` shadow test records every declared local."""
    from .. import peval
    from ..peval import Enum, make, Ref, some, NONE
    lib = ctx.lib
    IT = [a for a in lib.adts if a.endswith("scope_visitor::IdentifierTracker")]
    R.rule(rid, "IdentifierTracker (the scope the lowering rules ask whether `math`, `string`, `tostring` are shadowed), evaluated from its typed "
                "tree: after insert_local(name, value) the name is reported as used, for value absent, an identifier of the same name "
                "(`local math = math`, which a later assignment can still redirect), another identifier, and a call; declared in the first scope and in a pushed one")
    if not R.require(rid, "anchor:tracker", len(IT) == 1, "", "IdentifierTracker: %s" % IT):
        return
    T = IT[0]
    new = lib.fn(T + "::new")
    used = lib.fn(T + "::is_identifier_used")
    ins = [f for k, f in lib.fns.items() if k.startswith("<" + T + " as ") and k.endswith("Scope>::insert_local") and thir.body_of(f)]
    push = [f for k, f in lib.fns.items() if k.startswith("<" + T + " as ") and k.endswith("Scope>::push") and thir.body_of(f)]
    if not R.require(rid, "anchor:methods", new is not None and used is not None and len(ins) == 1 and len(push) == 1, "", "new / is_identifier_used / Scope::insert_local / Scope::push"):
        return
    ident = lambda n: Enum(EXPR, "Identifier", {"0": make(lib, "nodes::identifier::Identifier", {"name": n})})
    values = {"none": lambda n: NONE, "same-name": lambda n: some(ident(n)), "other-name": lambda n: some(ident("other")),
              "call": lambda n: some(Enum(EXPR, "Call", {"0": peval.UNKNOWN}))}
    n = 0
    for name in ("math", "string", "tostring", "x"):
        for label, build in values.items():
            for pushed in (False, True):
                pe = peval.PEval(lib, ctx.an)
                try:
                    t = pe.call_fn(new, [])
                    if pushed:
                        pe.call_fn(push[0], [t])
                    cell = {"v": name}
                    pe.call_fn(ins[0], [t, Ref(cell, "v"), build(name)])
                    r = pe.call_fn(used, [t, name])
                except peval.OutOfFuel:
                    r = None
                n += 1
                R.ob(rid, "insert_local|%s|%s|%s" % (name, label, "pushed" if pushed else "first-scope"), r is True, ctx.where(ins[0]),
                     "recorded" if r is True else "`local %s = <%s>` is not recorded: %s %s" % (name, label, r, pe.unknown_reasons[:1]), nontrivial=r is not True)
    R.require(rid, "floor", n >= 32, "", "%d declarations" % n)


def format_specifier(R, ctx, rid="C06.tostring", rid_removed=None):
    """remove_interpolated_string's process_expression as a transfer function on abstract interpolated strings."""
    import itertools
    from .. import peval
    from ..peval import Enum, Struct, UNKNOWN, make
    lib = ctx.lib
    PROC = "rules::remove_interpolated_string::RemoveInterpolatedStringProcessor"
    N = "nodes::expressions::"
    IS, SEG, VS, SS = N + "interpolated_string::InterpolatedStringExpression", N + "interpolated_string::InterpolationSegment", N + "interpolated_string::ValueSegment", N + "interpolated_string::StringSegment"
    R.rule(rid, "RemoveInterpolatedStringProcessor::process_expression, evaluated from its typed tree for both strategies on `` `{v}` ``, "
                "`` `text{v}` `` and `` `{v}{w}` `` with v ranging over every Expression variant: under the `%s` strategy every value handed "
                "to string.format is wrapped in a `tostring(..)` call unless it is a string, number or (still to be lowered) interpolated "
                "string -- Lua 5.1 / Luau `%s` raises for booleans, nil, tables; a lone `{v}` becomes `tostring(v)`")
    if rid_removed:
        R.rule(rid_removed, "the same evaluation: whatever the segments are -- including a value that is itself an interpolated string -- the node "
                            "written in place of an interpolated string is not an interpolated string (the visitor does not call the rule again on "
                            "the node it has just replaced, so it would survive)")
    fn = lib.fn("<%s as process::node_processor::NodeProcessor>::process_expression" % PROC)
    a_ = lib.adts.get(PROC)
    if not R.require(rid, "anchor", fn is not None and a_ is not None and all(x in lib.adts for x in (IS, SEG, VS)), "", "processor / node types not found"):
        return
    strat = [(f["name"], f["tys"]) for f in a_["variants"][0]["fields"] if f.get("tys") in lib.adts and lib.adts[f["tys"]].get("kind") == "enum"]
    if not R.require(rid, "anchor:strategy-field", len(strat) == 1, ctx.adt_where(PROC), "strategy field: %s" % strat):
        return
    sf, st = strat[0]
    variants = [v["name"] for v in lib.adts[EXPR]["variants"]]
    SAFE = {"String", "Number", "InterpolatedString"}

    def value(kind, tag):
        return Enum(EXPR, kind, {"0": Struct("#payload", {"#tag": tag})})

    def seg_value(kind, tag):
        return Enum(SEG, "Value", {"0": make(lib, VS, {"value": value(kind, tag)})})

    def seg_text():
        return Enum(SEG, "String", {"0": make(lib, SS, {"value": list(b"text")})})

    def tag_of(x):
        out = []

        def rec(y):
            if isinstance(y, (Struct, Enum)):
                if "#tag" in y.fields:
                    out.append(y.fields["#tag"])
                    return
                for z in y.fields.values():
                    rec(z)
            elif isinstance(y, (list, tuple)):
                for z in y:
                    rec(z)
        rec(x)
        return out

    def is_tostring_call(x):
        # Expression::Call(FunctionCall { prefix: Identifier(tostring | captured name), arguments: one value })
        if not (isinstance(x, Enum) and x.adt == EXPR and x.variant == "Call"):
            return False
        call = x.fields.get("0")
        pre = call.fields.get("prefix") if isinstance(call, Struct) else None
        return isinstance(pre, Enum) and pre.variant == "Identifier" and len(tag_of(call.fields.get("arguments"))) == 1
    n = 0
    bad_fmt, bad_left, unk = [], [], []
    for strategy in [v["name"] for v in lib.adts[st]["variants"]]:
        for shape in ("v", "tv", "vv"):
            for kind in variants:
                segs = {"v": [seg_value(kind, "v")], "tv": [seg_text(), seg_value(kind, "v")], "vv": [seg_value(kind, "v"), seg_value("Identifier", "w")]}[shape]
                e = Enum(EXPR, "InterpolatedString", {"0": make(lib, IS, {"segments": segs})})
                over = {sf: Enum(st, strategy)}
                for f in a_["variants"][0]["fields"]:
                    if f.get("tys") == "alloc::string::String":
                        over[f["name"]] = "__CAPTURED"
                proc = make(lib, PROC, over)

                def hook(pe, path, fname, args, node):
                    if fname == "is_identifier_used" and len(args) == 2:
                        return False
                    return NotImplemented
                pe = peval.PEval(lib, ctx.an, hook)
                try:
                    pe.call_fn(fn, [proc, e])
                except peval.OutOfFuel:
                    pass
                n += 1
                case = "%s strategy, `%s` with v = Expression::%s" % (strategy, {"v": "{v}", "tv": "text{v}", "vv": "{v}{w}"}[shape], kind)
                if pe.unknown_reasons:
                    unk.append((case, pe.unknown_reasons[:1]))
                    continue
                if isinstance(e, Enum) and e.variant == "InterpolatedString":
                    bad_left.append(case)
                    continue
                if shape == "v":
                    if kind not in SAFE and not is_tostring_call(e):
                        bad_fmt.append(case + ": written as %s, not tostring(v)" % (e.variant if isinstance(e, Enum) else e))
                    continue
                call = e.fields.get("0") if isinstance(e, Enum) and e.variant == "Call" else None
                args = call.fields.get("arguments") if isinstance(call, Struct) else None
                vals = args.fields["0"].fields.get("values") if isinstance(args, Enum) and isinstance(args.fields.get("0"), Struct) else None
                if not isinstance(vals, list) or len(vals) < 2:
                    unk.append((case, ["result is not a call with a format string and values"]))
                    continue
                fmt = vals[0]
                uses_s = b"%s" in bytes(tag_bytes(fmt))
                for v_ in vals[1:]:
                    t = tag_of(v_)
                    if t == ["v"] and uses_s and kind not in SAFE and not is_tostring_call(v_):
                        bad_fmt.append(case + ": v is handed to `%s` without tostring")
    R.require(rid, "floor", n >= 100, ctx.where(fn), "%d cells" % n)
    R.ob(rid, "established", not unk, ctx.where(fn), "all cells evaluate" if not unk else "not established: %s %s" % unk[0])
    R.ob(rid, "wraps|StringSpecifier|specifier=%s", not bad_fmt, ctx.where(fn), "every non-string value reaches `%s` through tostring" if not bad_fmt else bad_fmt[0] + ": string.format('%s', true/nil/{}) raises in Lua 5.1 and Luau")
    if rid_removed:
        R.ob(rid_removed, "remove_interpolated_string|replacement-is-not-the-construct", not bad_left, ctx.where(fn),
             "the replacement is never an interpolated string" if not bad_left else "%s: the node written is itself an interpolated string and is not visited again" % bad_left[0])


def tag_bytes(fmt):
    """Bytes of a StringExpression value built by the rule (Vec<u8> modelled as a list of ints)."""
    from ..peval import Struct, Enum
    out = []

    def rec(y):
        from ..peval import Iter
        if isinstance(y, Iter):
            y = y.items
        if isinstance(y, list) and all(isinstance(z, int) for z in y):
            out.extend(y)
        elif isinstance(y, (Struct, Enum)):
            for z in y.fields.values():
                rec(z)
    rec(fmt)
    return out


def sticky_capture_flags(R, ctx):
    """`define_*` flags of the lowering processors: once a generated call uses the captured name the flag stays set."""
    import itertools
    from .. import peval
    from ..peval import Enum, Struct, UNKNOWN, make
    rid = "C06.capture"
    lib = ctx.lib
    R.rule(rid, "the lowering processors that may emit `local __DARKLUA_X = <library function>` at the top of the file "
                "(remove_floor_division, remove_interpolated_string), evaluated through NodeProcessor::process_expression on `a // b` / "
                "`` `{a}{b}` `` for every combination of {flags already set} x {library name shadowed or not}: a flag that is set stays set "
                "(the capture statement requested by an earlier occurrence is still emitted), and whenever the library name is shadowed "
                "some flag is set afterwards (the generated call uses the captured name, which must then be defined)")
    N = "nodes::expressions::"
    BE, BINOP = N + "binary::BinaryExpression", N + "binary::BinaryOperator"
    IS, SEG, VS = N + "interpolated_string::InterpolatedStringExpression", N + "interpolated_string::InterpolationSegment", N + "interpolated_string::ValueSegment"

    def leaf(t):
        return Enum(EXPR, "Identifier", {"0": make(lib, "nodes::identifier::Identifier", {"name": t})})

    def floor_div():
        return Enum(EXPR, "Binary", {"0": make(lib, BE, {"operator": Enum(BINOP, "DoubleSlash"), "left": leaf("a"), "right": leaf("b")})})

    def interpolated():
        segs = [Enum(SEG, "Value", {"0": make(lib, VS, {"value": leaf("a")})}), Enum(SEG, "Value", {"0": make(lib, VS, {"value": leaf("b")})})]
        return Enum(EXPR, "InterpolatedString", {"0": make(lib, IS, {"segments": segs})})
    targets = [("rules::remove_floor_division::RemoveFloorDivisionProcessor", floor_div, {"math"}),
               ("rules::remove_interpolated_string::RemoveInterpolatedStringProcessor", interpolated, {"string", "tostring"})]
    for PROC, build, libs in targets:
        fn = lib.fn("<%s as process::node_processor::NodeProcessor>::process_expression" % PROC)
        a_ = lib.adts.get(PROC)
        flags = [f["name"] for v in (a_["variants"] if a_ else []) for f in v["fields"] if f.get("tys") == "bool"]
        short = PROC.split("::")[-2]
        if not R.require(rid, "%s|anchor" % short, fn is not None and len(flags) >= 1, ctx.adt_where(PROC) if a_ else "", "process_expression and the bool flags %s of %s" % (flags, PROC)):
            continue
        bad, n = [], 0
        enum_fields = [(f["name"], [v["name"] for v in lib.adts[f["tys"]]["variants"]]) for f in a_["variants"][0]["fields"]
                       if f.get("tys") in lib.adts and lib.adts[f["tys"]].get("kind") == "enum" and all(not v["fields"] for v in lib.adts[f["tys"]]["variants"])]
        enum_tys = {f["name"]: f["tys"] for f in a_["variants"][0]["fields"]}
        modes = list(itertools.product(*[vs for _, vs in enum_fields])) or [()]
        for preset in itertools.product((False, True), repeat=len(flags)):
          for mode in modes:
            for shadowed in itertools.chain.from_iterable(itertools.combinations(sorted(libs), k) for k in range(len(libs) + 1)):
                over = dict(zip(flags, preset))
                for (fname_, _), variant in zip(enum_fields, mode):
                    over[fname_] = Enum(enum_tys[fname_], variant)
                captured = []
                for f in a_["variants"][0]["fields"]:
                    if f.get("tys") == "alloc::string::String":
                        over[f["name"]] = "__CAPTURED_" + f["name"]
                        captured.append(over[f["name"]])
                proc = make(lib, PROC, over)

                def hook(pe, path, fname, args, node, shadowed=shadowed):
                    if fname == "is_identifier_used" and len(args) == 2 and isinstance(args[1], str):
                        return args[1] in shadowed
                    return NotImplemented
                pe = peval.PEval(lib, ctx.an, hook)
                e = build()
                try:
                    pe.call_fn(fn, [proc, e])
                except peval.OutOfFuel:
                    pass
                n += 1
                after = {f: proc.fields.get(f) for f in flags}
                lost = [f for f, was in zip(flags, preset) if was and after[f] is not True]
                if lost:
                    bad.append("flags %s set, library names shadowed: %s -> flag %s is %s afterwards: the capture statement an earlier occurrence needs is not emitted" % (dict(zip(flags, preset)), sorted(shadowed), lost[0], after[lost[0]]))
                else:
                    found = set()

                    def strings(x):
                        if isinstance(x, str):
                            if x in captured:
                                found.add(x)
                        elif isinstance(x, (Struct, Enum)):
                            for y in x.fields.values():
                                strings(y)
                        elif isinstance(x, (list, tuple)):
                            for y in x:
                                strings(y)
                    strings(e)
                    nset = sum(1 for v in after.values() if v is True)
                    if pe.unknown_reasons:
                        bad.append("mode %s, shadowed %s: outcome not established %s" % (mode, sorted(shadowed), pe.unknown_reasons[:1]))
                    elif nset < len(found):
                        bad.append("mode %s, library names shadowed: %s -> the lowered expression uses the captured name(s) %s but only %d flag(s) are set: the name is never defined" % (mode, sorted(shadowed), sorted(found), nset))
        R.ob(rid, "%s|flags-sticky-and-set-when-shadowed" % short, not bad, ctx.where(fn), "all %d states" % n if not bad else bad[0])


def branch_order(R, ctx):
    """remove_if_expression end to end: the lowered chain tests the conditions in source order."""
    from .. import peval
    from ..peval import Enum, Struct, UNKNOWN, NONE, some, make
    from .c17 import tags_in_order
    rid = "C06.fold"
    lib = ctx.lib
    N = "nodes::expressions::"
    IFE, ELIF = N + "if_expression::IfExpression", N + "if_expression::ElseIfExpressionBranch"
    PROC = "rules::remove_if_expression::Processor"
    fn = lib.fn("<%s as process::node_processor::NodeProcessor>::process_expression" % PROC)
    if not R.require(rid, "anchor:remove_if_expression", fn is not None, "", "process_expression not found"):
        return

    def leaf(t):
        return Enum(EXPR, "Identifier", {"0": Struct("#payload", {"#tag": t})})
    for know, label in ((NONE, "unknown"), (some(True), "truthy")):
        for nb in (0, 1, 2, 3):
            want = ["c", "r"]
            branches = []
            for i in range(nb):
                branches.append(make(lib, ELIF, {"condition": leaf("c%d" % i), "result": leaf("r%d" % i)}))
                want += ["c%d" % i, "r%d" % i]
            want.append("e")
            e = Enum(EXPR, "If", {"0": make(lib, IFE, {"condition": leaf("c"), "result": leaf("r"), "else_result": leaf("e"), "branches": branches})})

            def hook(pe, path, fname, args, node, know=know):
                if fname == "evaluate" and len(args) == 2:
                    return Struct("#LuaValue", {})
                if args and isinstance(args[0], Struct) and args[0].adt == "#LuaValue":
                    return know if fname == "is_truthy" else UNKNOWN
                return NotImplemented
            pe = peval.PEval(lib, ctx.an, hook)
            dflt = lib.fn("<%s as core::default::Default>::default" % PROC)
            try:
                proc = pe.call_fn(dflt, []) if dflt else make(lib, PROC)
                pe.call_fn(fn, [proc, e])
            except peval.OutOfFuel:
                pass
            got = tags_in_order(e)
            ok = got == want and not (isinstance(e, Enum) and e.variant == "If")
            R.ob(rid, "remove_if_expression|order|results-%s|%d-elseif" % (label, nb), ok and not pe.unknown_reasons, ctx.where(fn),
                 "conditions and results appear in source order" if ok and not pe.unknown_reasons else
                 ("the lowered expression evaluates %s instead of %s: a later condition is tested before an earlier one" % (got, want) if not pe.unknown_reasons else "not established %s" % pe.unknown_reasons[:2]))


def run(R, ctx):
    R.explanation = (
        "Structural necessary conditions of the lowering rules on typed THIR: subset relation between the duplicated-without-temporary "
        "variant tables and has_side_effects' constant-false table, scope-visitor typestate, multi-value guards on hoists, fold direction "
        "for right-nested chains, conservative treatment of unknown truthiness, collision-checked temporaries. Behavioural equivalence "
        "itself (e.g. `continue` lowering inside repeat-until) is not decided. Decision / transfer functions among these are decided by finite-domain evaluation of their typed tree (sa/peval.py): every point of a small abstract domain is evaluated and compared with the reference; nothing is sampled and no program input exists."
    )
    R.assumptions += ["Evaluator::has_side_effects / can_return_multiple_values are trusted as analyses (tables checked under C08)",
                      "C06.dup: the walks of the comment / whitespace clearing processors over operand copies only touch tokens (skipped; operands are opaque)",
                      "C06.continue: reference semantics of Lua/Luau control flow as written in sa/astmodel.py (a function definition is observed once, on the spot)"]
    dup(R, ctx)
    c05.shadow_rule(R, ctx, "C06.shadow", ("rules::remove_floor_division::RemoveFloorDivisionProcessor", "rules::remove_interpolated_string::RemoveInterpolatedStringProcessor", "rules::remove_compound_assign::Processor"), "lowering")
    hoist(R, ctx)
    fold_direction(R, ctx)
    box(R, ctx)
    fresh(R, ctx)
    repeat_scope(R, ctx)
    continue_lowering(R, ctx)
    tracker_records_locals(R, ctx)
    format_specifier(R, ctx)
    sticky_capture_flags(R, ctx)
    branch_order(R, ctx)

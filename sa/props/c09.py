"""C09 Renaming variables never changes which binding a name refers to (structural part).

Decided:
  C09.order  event order of both scope-tracking visitors: push/pop balanced; initialisers, loop bounds and
             iterators are visited before the names are inserted; names are inserted before the body;
             insert_local_function precedes the body (recursion); self/parameters are inserted inside
             the function's own scope; in `repeat` the condition is visited inside the block's scope;
             the name of a function statement is processed outside the function scope        [T3/T6]
  C09.names  classification of every identifier slot of the AST (reference / declaration / plain name):
             references reach process_variable_expression, declarations reach an insert*, plain names
             (fields, methods, properties, type names, attribute names) reach neither          [E1+T2]
  C09.fresh  a generated name is returned only from the reuse pool or after filter_identifier;
             KEYWORDS and matches_any_keyword cover the 21 reserved words; the avoid set is seeded
             with the configured globals, the kept function names and the collected globals before the
             renaming walk                                                                      [T6+T4]
  C09.pool   a released name enters the reuse pool only under its `reuse` flag (names kept as they
             are -- self, function names -- are never recycled)                                  [T7]
Not decided: reuse-pool interaction with globals when detection is off, name-count effects.
"""
from .. import thir, coverage, guards
from ..thir import callee_of

SV = "process::scope_visitor::ScopeVisitor"
SPV = "process::scope_visitor::ScopePostVisitor"
N = "nodes::"
ID = N + "identifier::Identifier"
TID = N + "typed_identifier::TypedIdentifier"

LUA_KEYWORDS = ["and", "break", "do", "else", "elseif", "end", "false", "for", "function", "if", "in", "local", "nil", "not", "or", "repeat", "return", "then", "true", "until", "while"]

# classification of identifier slots (adt short name, slot) -> class
REF, DECL, NAME, TYPE = "reference", "declaration", "plain-name", "type-level"
SLOT_CLASS = {
    ("expressions::Expression", "Identifier.0"): REF, ("expressions::prefix::Prefix", "Identifier.0"): REF, ("variable::Variable", "Identifier.0"): REF,
    ("statements::function::FunctionName", "name"): REF,
    ("expressions::function::FunctionExpression", "parameters"): DECL, ("statements::local_function::FunctionAssignment", "parameters"): DECL,
    ("statements::function::FunctionStatement", "parameters"): DECL, ("statements::numeric_for::NumericForStatement", "identifier"): DECL,
    ("statements::generic_for::GenericForStatement", "identifiers"): DECL, ("statements::local_assign::VariableAssignment", "variables"): DECL,
    ("statements::local_function::FunctionAssignment", "identifier"): DECL, ("typed_identifier::TypedIdentifier", "name"): DECL,
    ("expressions::field::FieldExpression", "field"): NAME, ("function_call::Method", "name"): NAME, ("expressions::table::TableFieldEntry", "field"): NAME,
    ("literal_expression::LiteralTableFieldEntry", "field"): NAME, ("statements::function::FunctionName", "field_names"): NAME,
    ("statements::function::FunctionName", "method"): NAME, ("attributes::AttributeGroupElement", "name"): NAME, ("attributes::NamedAttribute", "name"): NAME,
    ("types::generics::GenericParameters", "type_variables"): TYPE, ("types::generics::GenericTypePack", "name"): TYPE,
    ("types::function::FunctionArgumentType", "name"): TYPE, ("types::table::TablePropertyType", "property"): TYPE, ("types::type_field::TypeField", "namespace"): TYPE,
    ("types::type_name::TypeName", "type_name"): TYPE, ("statements::type_declaration::TypeDeclarationStatement", "name"): TYPE,
    ("types::generics::GenericParametersWithDefaults", "type_variables"): TYPE, ("types::generics::TypeVariableWithDefault", "variable"): TYPE,
    ("statements::type_function::TypeFunctionStatement", "identifier"): TYPE, ("statements::type_function::TypeFunctionStatement", "parameters"): TYPE,
}
INSERTS = ("insert", "insert_local", "insert_local_function", "insert_self")


def events(ctx, fn):
    """Pre-order list of (label, call) for the scope-relevant calls of a visit function."""
    fa = ctx.an.fa(fn["path"])
    out = []
    for c in thir.walk(thir.body_of(fn)):
        if c.get("k") != "Call":
            continue
        f = c.get("fname")
        if f in ("push", "pop") and (c.get("fn") or "").endswith("Scope::" + f):
            out.append((f, c))
        elif f in INSERTS and "Scope::" in (c.get("fn") or ""):
            out.append((f, c))
        elif f in ("visit_block", "visit_block_without_push"):
            out.append(("body", c))
        elif f == "visit_expression":
            srcs = [y.get("fname") for y in fa.source_calls(c["args"][0])]
            out.append(("expr:" + (srcs[-1] if srcs else "?"), c))
        elif f == "process_variable_expression":
            out.append(("ref", c))
        elif f == "process_scope":
            out.append(("process_scope", c))
    return out


def order(R, ctx):
    rid = "C09.order"
    lib = ctx.lib
    R.rule(rid, "scope event order in ScopeVisitor and ScopePostVisitor (see module doc): values before insert_local; bounds/iterators before push; "
                "push < insert < body < pop; insert_local_function before push; function name processed before push; repeat: push < block < "
                "condition < pop; pushes and pops balanced")
    for trait, vself in ((coverage.NODE_VISITOR, SV), (coverage.NODE_POST_VISITOR, SPV)):
        over = coverage.impl_methods(lib, trait, vself)
        short = vself.split("::")[-1]
        R.require(rid, "%s|floor:overrides" % short, len(over) >= 6, "", "%d overrides" % len(over))

        def get(name):
            p = over.get("%s::%s" % (trait, name))
            return lib.fns.get(p) if p else None

        def check(name, constraints, need):
            fn = get(name)
            if not R.require(rid, "%s|%s|anchor" % (short, name), fn is not None, "", "override not found"):
                return
            ev = events(ctx, fn)
            labels = [e[0] for e in ev]
            for lab in need:
                R.ob(rid, "%s|%s|has:%s" % (short, name, lab), any(l == lab or l.startswith(lab) for l in labels), ctx.where(fn), "events: %s" % labels)
            for a, b in constraints:
                ia = [i for i, l in enumerate(labels) if l == a or l.startswith(a)]
                ib = [i for i, l in enumerate(labels) if l == b or l.startswith(b)]
                if not ia or not ib:
                    continue
                ok = max(ia) < min(ib)
                R.ob(rid, "%s|%s|%s<%s" % (short, name, a, b), ok, ctx.where(fn), "every `%s` precedes every `%s`: %s (events %s)" % (a, b, ok, labels))
            R.ob(rid, "%s|%s|balanced" % (short, name), labels.count("push") == labels.count("pop"), ctx.where(fn), "push x%d, pop x%d" % (labels.count("push"), labels.count("pop")))
            rets = [x for x in thir.walk(thir.body_of(fn)) if x.get("k") == "Return"]
            R.ob(rid, "%s|%s|no-early-return" % (short, name), not rets, ctx.where(fn), "no return between push and pop")

        check("visit_block", [("push", "body"), ("body", "pop")], ["push", "body", "pop"])
        check("visit_local_assign", [("expr:", "insert_local")], ["expr:", "insert_local"])
        for nm in ("visit_function_expression", "visit_function_statement", "visit_local_function"):
            cons = [("push", "insert"), ("insert", "body"), ("body", "pop"), ("push", "process_scope")]
            need = ["push", "insert", "body", "pop"]
            if nm == "visit_function_statement":
                cons += [("ref", "push"), ("push", "insert_self"), ("insert_self", "body")]
                need += ["ref", "insert_self"]
            if nm == "visit_local_function":
                cons = [("insert_local_function", "push"), ("push", "insert\x00"), ("body", "pop")]
                need = ["insert_local_function", "push", "body", "pop"]
            check(nm, cons, need)
        check("visit_generic_for", [("expr:", "push"), ("push", "insert"), ("insert", "body"), ("body", "pop")], ["expr:", "push", "insert", "body", "pop"])
        check("visit_numeric_for", [("expr:", "push"), ("push", "insert"), ("insert", "body"), ("body", "pop")], ["expr:", "push", "insert", "body", "pop"])
        check("visit_repeat_statement", [("push", "body"), ("body", "expr:"), ("expr:", "pop")], ["push", "body", "expr:", "pop"])
        # insert_self only for methods
        fn = get("visit_function_statement")
        if fn is not None:
            fa = ctx.an.fa(fn["path"])
            ins = [c for c in thir.calls(fn) if c.get("fname") == "insert_self"]
            ok = bool(ins) and all(any(k == "then" and any(x.get("fname") == "has_method" for x in thir.walk(cond) if x.get("k") == "Call") for cond, k in guards.conditions_of(fa, c)) for c in ins)
            R.ob(rid, "%s|visit_function_statement|self-iff-method" % short, ok, ctx.where(fn), "insert_self under name.has_method(): %s" % ok)
        # parameters inserted are the function's own parameters
        for nm in ("visit_function_expression", "visit_function_statement", "visit_local_function"):
            fn = get(nm)
            if fn is None:
                continue
            fa = ctx.an.fa(fn["path"])
            ok = any(c.get("fname") == "insert" and "mutate_parameters" in [y.get("fname") for y in fa.source_calls(c["args"][1])] for c in thir.calls(fn))
            R.ob(rid, "%s|%s|parameters-inserted" % (short, nm), ok, ctx.where(fn), "each parameter name is inserted: %s" % ok)


def names(R, ctx):
    rid = "C09.names"
    lib, tg = ctx.lib, ctx.tg
    R.rule(rid, "every AST slot holding an Identifier/TypedIdentifier is classified; in both scope visitors reference slots reach "
                "process_variable_expression (through visit_identifier), declaration slots reach Scope::insert*, plain names and type-level names reach neither")
    slots = [(a, n) for a in tg.reach for n, ty, inner in tg.slots[a] if ID in inner or TID in inner]
    R.require(rid, "floor:slots", len(slots) >= 28, "", "%d identifier slots (floor 28)" % len(slots))
    for a, n in slots:
        key = (a[len(N):], n)
        R.ob(rid, "classified|%s.%s" % key, key in SLOT_CLASS, ctx.adt_where(a), SLOT_CLASS.get(key, "unclassified identifier slot: is it a variable reference, a declaration or a plain name?"))
    for key in SLOT_CLASS:
        R.require(rid, "exists|%s.%s" % key, (N + key[0], key[1]) in set(slots), "", "classified slot no longer exists")
    for trait, vself in ((coverage.NODE_VISITOR, SV), (coverage.NODE_POST_VISITOR, SPV)):
        fam = ctx.family(trait, vself, None)
        short = vself.split("::")[-1]

        def q(c, n):
            return (n.get("fname") or "") in ("process_variable_expression", "visit_identifier") + INSERTS
        touched = fam.touched(q)
        for a, n in slots:
            key = (a[len(N):], n)
            cls = SLOT_CLASS.get(key)
            if cls is None:
                continue
            how = {h[1].split("::")[-1] for h in touched.get((a, n), [])}
            refs = how & {"process_variable_expression", "visit_identifier"}
            ins = how & set(INSERTS)
            if cls == REF:
                R.ob(rid, "%s|%s.%s|referenced" % (short, key[0], key[1]), bool(refs) and not ins, ctx.adt_where(a), "reaches %s" % sorted(how))
            elif cls == DECL:
                if key == ("statements::local_function::FunctionAssignment", "identifier"):
                    # passed as the whole statement to insert_local_function
                    vf = lib.fns.get(fam.bind("%s::visit_local_function" % trait))
                    ok = vf is not None and any(c.get("fname") == "insert_local_function" for c in thir.calls(vf))
                    R.ob(rid, "%s|%s.%s|declared" % (short, key[0], key[1]), ok and not refs, ctx.adt_where(a), "insert_local_function(statement)")
                else:
                    R.ob(rid, "%s|%s.%s|declared" % (short, key[0], key[1]), bool(ins) and not refs, ctx.adt_where(a), "reaches %s" % sorted(how))
            else:
                R.ob(rid, "%s|%s.%s|untouched" % (short, key[0], key[1]), not how, ctx.adt_where(a),
                     "a %s must not be renamed/declared; reaches %s" % (cls, sorted(how) or "nothing"))


def fresh(R, ctx):
    rid = "C09.fresh"
    lib = ctx.lib
    R.rule(rid, "RenameProcessor::generate_identifier returns either a pooled name or a generated one on the true branch of filter_identifier; "
                "filter_identifier refuses names in avoid_identifier and names starting with a digit; KEYWORDS lists the 21 reserved words and is added "
                "to the avoid set; RenameVariables::flawless_process seeds the processor with globals + kept function names + collected globals and only "
                "then runs the renaming walk")
    fn = lib.fn("rules::rename_variables::rename_processor::RenameProcessor::generate_identifier")
    if R.require(rid, "anchor:generate_identifier", fn is not None, "", "not found"):
        fa = ctx.an.fa(fn["path"])
        M = guards.Mentions(ctx.an)
        # every variable returned: bound from reuse_identifiers.pop() or guarded by filter_identifier
        body = thir.body_of(fn)
        rets = []

        def tails(e):
            k = e.get("k")
            if k == "Block":
                if "tail" in e:
                    tails(e["tail"])
                for st in e["stmts"]:
                    for x in thir.walk(st):
                        if x.get("k") == "Return" and "e" in x:
                            rets.append(x["e"])
            elif k == "If":
                tails(e["then"]); "else" in e and tails(e["else"])
            elif k == "Match":
                for a in e["arms"]:
                    tails(a["body"])
            elif k == "Loop":
                for x in thir.walk(e):
                    if x.get("k") == "Return" and "e" in x:
                        rets.append(x["e"])
                    if x.get("k") == "Break" and "e" in x:
                        rets.append(x["e"])
            else:
                rets.append(e)
        tails(body)
        n = 0
        for r in rets:
            if r.get("k") == "Call" and r.get("fname") == "generate_identifier":
                continue  # recursion
            n += 1
            srcs = [y.get("fname") for y in fa.source_calls(r)]
            from_pool = "pop" in srcs and "next" not in srcs
            filtered = any(k == "then" and M.mentions(fa, cond, guards.is_call_named("filter_identifier"), 0) and cond.get("k") != "Unary" for cond, k in guards.conditions_of(fa, r))
            R.ob(rid, "generate_identifier|result@%d" % n, from_pool or filtered, ctx.where(fn, r.get("ln")),
                 "returned name %s" % ("comes from the reuse pool" if from_pool else "passed filter_identifier" if filtered else "is neither pooled nor filtered"))
        R.require(rid, "generate_identifier|floor", n >= 1, ctx.where(fn), "%d result expressions" % n)
    fn = lib.fn("rules::rename_variables::rename_processor::RenameProcessor::filter_identifier")
    if R.require(rid, "anchor:filter_identifier", fn is not None, "", "not found"):
        b = thir.body_of(fn)
        calls_ = [c.get("fname") for c in thir.walk(b) if c.get("k") == "Call"]
        fa = ctx.an.fa(fn["path"])
        contains = [c for c in thir.walk(b) if c.get("k") == "Call" and c.get("fname") == "contains" and any(o[1] == "avoid_identifier" for o in fa.origins(c["args"][0]) if o[0] != "#param")]
        R.ob(rid, "filter_identifier|avoid-set", bool(contains), ctx.where(fn), "consults avoid_identifier.contains: %s" % bool(contains))
        R.ob(rid, "filter_identifier|no-leading-digit", "is_ascii_digit" in calls_, ctx.where(fn), "refuses names starting with a digit")
    # KEYWORDS
    kw = lib.consts.get("process::utils::KEYWORDS")
    if R.require(rid, "anchor:KEYWORDS", kw is not None and kw.get("thir"), "", "not found"):
        lits = {thir.lit_str(x) for x in thir.walk(kw["thir"]["body"]) if x.get("k") == "Lit"}
        for k in LUA_KEYWORDS:
            R.ob(rid, "KEYWORDS|" + k, k in lits, "%s:%s" % (kw["file"], kw["line"]), "reserved word `%s` %s" % (k, "listed" if k in lits else "MISSING: a local can be renamed to it"))
    fn = lib.fn("process::utils::is_valid_identifier")
    if R.require(rid, "anchor:is_valid_identifier", fn is not None, "", "not found"):
        strs = set()
        for n_ in thir.walk(thir.body_of(fn)):
            if n_.get("k") == "Match":
                for arm in n_["arms"]:
                    strs |= set(thir.pat_strings(arm["pat"]))
        for k in LUA_KEYWORDS:
            R.ob(rid, "matches_any_keyword|" + k, k in strs, ctx.where(fn), "`%s` %s by is_valid_identifier" % (k, "rejected" if k in strs else "NOT rejected"))
    fn = lib.fn("rules::rename_variables::rename_processor::RenameProcessor::new")
    if R.require(rid, "anchor:RenameProcessor::new", fn is not None, "", "not found"):
        ok = any(x.get("k") in ("Const", "Static") and x.get("def", "").endswith("KEYWORDS") for x in thir.walk(thir.body_of(fn)))
        R.ob(rid, "new|keywords-avoided", ok, ctx.where(fn), "KEYWORDS added to avoid_identifier: %s" % ok)
    fn = lib.fn("<rules::rename_variables::RenameVariables as rules::FlawlessRule>::flawless_process")
    if R.require(rid, "anchor:flawless_process", fn is not None, "", "not found"):
        fa = ctx.an.fa(fn["path"])
        news = [c for c in thir.calls(fn) if c.get("fname") == "new" and "RenameProcessor" in (c.get("fn") or "")]
        if R.require(rid, "flawless_process|anchor:new", len(news) == 1, ctx.where(fn), "RenameProcessor::new call"):
            arg = news[0]["args"][0]
            srcs = {y.get("fname") for y in fa.source_calls(arg)}
            fields = {o[1] for o in fa.origins(arg) if o[0] != "#param"}
            R.ob(rid, "flawless_process|seed:configured-globals", "globals" in fields, ctx.where(fn), "self.globals flows into the avoid set")
            R.ob(rid, "flawless_process|seed:collected-globals", "into_globals" in srcs, ctx.where(fn), "CollectGlobalsProcessor::into_globals flows into the avoid set")
            names_ = [v.get("name") for v in thir.walk(arg) if v.get("k") == "Var"]
            R.ob(rid, "flawless_process|seed:function-names", "avoid_identifiers" in names_, ctx.where(fn), "kept function names flow into the avoid set")
            order_ = [id(x) for x in thir.walk(thir.body_of(fn))]
            walks = [c for c in thir.calls(fn) if c.get("fname") == "visit_block" and any(v.get("name") == "processor" for v in thir.walk(c) if v.get("k") == "Var")]
            pre = [c for c in thir.calls(fn) if c.get("fname") == "visit_block" and c not in walks]
            ok = bool(walks) and all(order_.index(id(p)) < order_.index(id(news[0])) < order_.index(id(w)) for p in pre for w in walks)
            R.ob(rid, "flawless_process|collect-before-rename", ok, ctx.where(fn), "collecting walks < RenameProcessor::new < renaming walk: %s" % ok)


def pool(R, ctx):
    rid = "C09.pool"
    lib = ctx.lib
    R.rule(rid, "<RenameProcessor as Scope>::pop admits a released name to reuse_identifiers only under the entry's `reuse` flag; insert_self and kept "
                "function names are added with reuse = false; replace_identifier adds with reuse = true")
    fn = lib.fn("<rules::rename_variables::rename_processor::RenameProcessor as process::scope_visitor::Scope>::pop")
    if R.require(rid, "anchor:pop", fn is not None, "", "not found"):
        fa = ctx.an.fa(fn["path"])
        ext = [c for c in thir.calls(fn) if c.get("fname") in ("extend", "push") and any(o[1] == "reuse_identifiers" for o in fa.origins(c["args"][0]) if o[0] != "#param")]
        R.require(rid, "pop|anchor:extend", len(ext) >= 1, ctx.where(fn), "no addition to reuse_identifiers")
        for c in ext:
            # the chain feeding the pool must contain a closure that binds and uses the flag (tuple element 1)
            uses_flag = False
            for clo in [x for x in thir.walk(c["args"][1]) if x.get("k") == "Closure" and x.get("body")]:
                for p in clo["body"].get("params", []):
                    if "pat" not in p:
                        continue
                    binds = list(thir.pat_bindings(p["pat"]))
                    flag_vars = {b[0] for b in binds if b[3] is not None and lib.ty_str(b[3]) == "bool"}
                    used = {x["var"] for x in thir.walk(clo["body"]["body"]) if x.get("k") == "Var"}
                    if flag_vars & used:
                        uses_flag = True
            R.ob(rid, "pop|pool-admission-tests-reuse-flag", uses_flag, ctx.where(fn, c.get("ln")),
                 "released names are %s" % ("filtered by their reuse flag" if uses_flag else "all recycled, including names kept as they are (`self`, function names): a later local can be renamed to `self`"))
    for path, want in (("<rules::rename_variables::rename_processor::RenameProcessor as process::scope_visitor::Scope>::insert_self", "false"),
                       ("rules::rename_variables::rename_processor::RenameProcessor::replace_identifier", "true")):
        fn = lib.fn(path)
        if R.require(rid, "anchor:" + path.split("::")[-1], fn is not None, "", "not found"):
            adds = [c for c in thir.calls(fn) if c.get("fname") == "add"]
            ok = bool(adds) and all(c["args"][-1].get("k") == "Lit" and c["args"][-1].get("v") == want for c in adds)
            R.ob(rid, "%s|reuse=%s" % (path.split("::")[-1], want), ok, ctx.where(fn), "add(.., .., %s): %s" % (want, ok))


def run(R, ctx):
    R.explanation = (
        "Event-order rules on both scope-tracking visitors (Lua's lexical scoping as ordering constraints between push/insert/visit/pop), a complete "
        "classification of identifier slots of the AST type graph with what may and may not reach the renaming callbacks, and guard rules on name "
        "generation and recycling. Decides the scoping discipline the renamer relies on; does not decide pool/global interactions when detection is off."
    )
    R.assumptions += ["Lua 5.1 manual 2.6 (visibility rules) and 2.1 (reserved words) as reference", "coverage per (ADT, slot), not path-sensitive"]
    order(R, ctx)
    names(R, ctx)
    fresh(R, ctx)
    pool(R, ctx)

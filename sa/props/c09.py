"""C09 Renaming variables never changes which binding a name refers to (structural part).

Decided:
  C09.order  event order of both scope-tracking visitors: push/pop balanced; initialisers, loop bounds and
             iterators are visited before the names are inserted; names are inserted before the body;
             insert_local_function precedes the body (recursion); self/parameters are inserted inside
             the function's own scope; in `repeat` the condition is visited inside the block's scope;
             the name of a function statement is processed outside the function scope        [T3/T6]
  C09.names  classification of every identifier slot of the AST (reference / declaration / plain name):
             references reach process_variable_expression, declarations reach an insert*, plain names
             (fields, methods, properties, type names, attribute names) reach neither          [E1+T2]
  C09.fresh  a generated name is returned only from the reuse pool or after filter_identifier;
             KEYWORDS and matches_any_keyword cover the 21 reserved words; the avoid set is seeded
             with the configured globals, the kept function names and the collected globals before the
             renaming walk                                                                      [T6+T4]
  C09.pool   a released name enters the reuse pool only under its `reuse` flag (names kept as they
             are -- self, function names -- are never recycled)                                  [T7]
Not decided: reuse-pool interaction with globals when detection is off, name-count effects.
"""
from .. import thir, coverage, guards
from ..thir import callee_of

SV = "process::scope_visitor::ScopeVisitor"
SPV = "process::scope_visitor::ScopePostVisitor"
N = "nodes::"
ID = N + "identifier::Identifier"
TID = N + "typed_identifier::TypedIdentifier"

LUA_KEYWORDS = ["and", "break", "do", "else", "elseif", "end", "false", "for", "function", "if", "in", "local", "nil", "not", "or", "repeat", "return", "then", "true", "until", "while"]

# classification of identifier slots (adt short name, slot) -> class
REF, DECL, NAME, TYPE = "reference", "declaration", "plain-name", "type-level"
SLOT_CLASS = {
    ("expressions::Expression", "Identifier.0"): REF, ("expressions::prefix::Prefix", "Identifier.0"): REF, ("variable::Variable", "Identifier.0"): REF,
    ("statements::function::FunctionName", "name"): REF,
    ("expressions::function::FunctionExpression", "parameters"): DECL, ("statements::local_function::FunctionAssignment", "parameters"): DECL,
    ("statements::function::FunctionStatement", "parameters"): DECL, ("statements::numeric_for::NumericForStatement", "identifier"): DECL,
    ("statements::generic_for::GenericForStatement", "identifiers"): DECL, ("statements::local_assign::VariableAssignment", "variables"): DECL,
    ("statements::local_function::FunctionAssignment", "identifier"): DECL, ("typed_identifier::TypedIdentifier", "name"): DECL,
    ("expressions::field::FieldExpression", "field"): NAME, ("function_call::Method", "name"): NAME, ("expressions::table::TableFieldEntry", "field"): NAME,
    ("literal_expression::LiteralTableFieldEntry", "field"): NAME, ("statements::function::FunctionName", "field_names"): NAME,
    ("statements::function::FunctionName", "method"): NAME, ("attributes::AttributeGroupElement", "name"): NAME, ("attributes::NamedAttribute", "name"): NAME,
    ("types::generics::GenericParameters", "type_variables"): TYPE, ("types::generics::GenericTypePack", "name"): TYPE,
    ("types::function::FunctionArgumentType", "name"): TYPE, ("types::table::TablePropertyType", "property"): TYPE, ("types::type_field::TypeField", "namespace"): TYPE,
    ("types::type_name::TypeName", "type_name"): TYPE, ("statements::type_declaration::TypeDeclarationStatement", "name"): TYPE,
    ("types::generics::GenericParametersWithDefaults", "type_variables"): TYPE, ("types::generics::TypeVariableWithDefault", "variable"): TYPE,
    ("statements::type_function::TypeFunctionStatement", "identifier"): TYPE, ("statements::type_function::TypeFunctionStatement", "parameters"): TYPE,
}
INSERTS = ("insert", "insert_local", "insert_local_function", "insert_self")


def events(ctx, fn):
    """Pre-order list of (label, call) for the scope-relevant calls of a visit function."""
    fa = ctx.an.fa(fn["path"])
    out = []
    for c in thir.walk(thir.body_of(fn)):
        if c.get("k") != "Call":
            continue
        f = c.get("fname")
        if f in ("push", "pop") and (c.get("fn") or "").endswith("Scope::" + f):
            out.append((f, c))
        elif f in INSERTS and "Scope::" in (c.get("fn") or ""):
            out.append((f, c))
        elif f in ("visit_block", "visit_block_without_push"):
            out.append(("body", c))
        elif f == "visit_expression":
            srcs = [y.get("fname") for y in fa.source_calls(c["args"][0])]
            out.append(("expr:" + (srcs[-1] if srcs else "?"), c))
        elif f == "process_variable_expression":
            out.append(("ref", c))
        elif f == "process_scope":
            out.append(("process_scope", c))
    return out


def order(R, ctx, rid="C09.order"):
    lib = ctx.lib
    R.rule(rid, "scope event order in ScopeVisitor and ScopePostVisitor (see module doc): values before insert_local; bounds/iterators before push; "
                "push < insert < body < pop; insert_local_function before push; function name processed before push; repeat: push < block < "
                "condition < pop; pushes and pops balanced")
    for trait, vself in ((coverage.NODE_VISITOR, SV), (coverage.NODE_POST_VISITOR, SPV)):
        over = coverage.impl_methods(lib, trait, vself)
        short = vself.split("::")[-1]
        R.require(rid, "%s|floor:overrides" % short, len(over) >= 6, "", "%d overrides" % len(over))

        def get(name):
            p = over.get("%s::%s" % (trait, name))
            return lib.fns.get(p) if p else None

        def check(name, constraints, need):
            fn = get(name)
            if not R.require(rid, "%s|%s|anchor" % (short, name), fn is not None, "", "override not found"):
                return
            ev = events(ctx, fn)
            labels = [e[0] for e in ev]
            for lab in need:
                R.ob(rid, "%s|%s|has:%s" % (short, name, lab), any(l == lab or l.startswith(lab) for l in labels), ctx.where(fn), "events: %s" % labels)
            for a, b in constraints:
                ia = [i for i, l in enumerate(labels) if l == a or l.startswith(a)]
                ib = [i for i, l in enumerate(labels) if l == b or l.startswith(b)]
                if not ia or not ib:
                    continue
                ok = max(ia) < min(ib)
                R.ob(rid, "%s|%s|%s<%s" % (short, name, a, b), ok, ctx.where(fn), "every `%s` precedes every `%s`: %s (events %s)" % (a, b, ok, labels))
            R.ob(rid, "%s|%s|balanced" % (short, name), labels.count("push") == labels.count("pop"), ctx.where(fn), "push x%d, pop x%d" % (labels.count("push"), labels.count("pop")))
            rets = [x for x in thir.walk(thir.body_of(fn)) if x.get("k") == "Return"]
            R.ob(rid, "%s|%s|no-early-return" % (short, name), not rets, ctx.where(fn), "no return between push and pop")

        check("visit_block", [("push", "body"), ("body", "pop")], ["push", "body", "pop"])
        check("visit_local_assign", [("expr:", "insert_local")], ["expr:", "insert_local"])
        for nm in ("visit_function_expression", "visit_function_statement", "visit_local_function"):
            cons = [("push", "insert"), ("insert", "body"), ("body", "pop"), ("push", "process_scope")]
            need = ["push", "insert", "body", "pop"]
            if nm == "visit_function_statement":
                cons += [("ref", "push"), ("push", "insert_self"), ("insert_self", "body")]
                need += ["ref", "insert_self"]
            if nm == "visit_local_function":
                cons = [("insert_local_function", "push"), ("push", "insert\x00"), ("body", "pop")]
                need = ["insert_local_function", "push", "body", "pop"]
            check(nm, cons, need)
        check("visit_generic_for", [("expr:", "push"), ("push", "insert"), ("insert", "body"), ("body", "pop")], ["expr:", "push", "insert", "body", "pop"])
        check("visit_numeric_for", [("expr:", "push"), ("push", "insert"), ("insert", "body"), ("body", "pop")], ["expr:", "push", "insert", "body", "pop"])
        check("visit_repeat_statement", [("push", "body"), ("body", "expr:"), ("expr:", "pop")], ["push", "body", "expr:", "pop"])
        # insert_self only for methods
        fn = get("visit_function_statement")
        if fn is not None:
            fa = ctx.an.fa(fn["path"])
            ins = [c for c in thir.calls(fn) if c.get("fname") == "insert_self"]
            ok = bool(ins) and all(any(k == "then" and any(x.get("fname") == "has_method" for x in thir.walk(cond) if x.get("k") == "Call") for cond, k in guards.conditions_of(fa, c)) for c in ins)
            R.ob(rid, "%s|visit_function_statement|self-iff-method" % short, ok, ctx.where(fn), "insert_self under name.has_method(): %s" % ok)
        # parameters inserted are the function's own parameters
        for nm in ("visit_function_expression", "visit_function_statement", "visit_local_function"):
            fn = get(nm)
            if fn is None:
                continue
            fa = ctx.an.fa(fn["path"])
            ok = any(c.get("fname") == "insert" and "mutate_parameters" in [y.get("fname") for y in fa.source_calls(c["args"][1])] for c in thir.calls(fn))
            R.ob(rid, "%s|%s|parameters-inserted" % (short, nm), ok, ctx.where(fn), "each parameter name is inserted: %s" % ok)


def names(R, ctx):
    rid = "C09.names"
    lib, tg = ctx.lib, ctx.tg
    R.rule(rid, "every AST slot holding an Identifier/TypedIdentifier is classified; in both scope visitors reference slots reach "
                "process_variable_expression (through visit_identifier), declaration slots reach Scope::insert*, plain names and type-level names reach neither")
    slots = [(a, n) for a in tg.reach for n, ty, inner in tg.slots[a] if ID in inner or TID in inner]
    R.require(rid, "floor:slots", len(slots) >= 28, "", "%d identifier slots (floor 28)" % len(slots))
    for a, n in slots:
        key = (a[len(N):], n)
        R.ob(rid, "classified|%s.%s" % key, key in SLOT_CLASS, ctx.adt_where(a), SLOT_CLASS.get(key, "unclassified identifier slot: is it a variable reference, a declaration or a plain name?"))
    for key in SLOT_CLASS:
        R.require(rid, "exists|%s.%s" % key, (N + key[0], key[1]) in set(slots), "", "classified slot no longer exists")
    for trait, vself in ((coverage.NODE_VISITOR, SV), (coverage.NODE_POST_VISITOR, SPV)):
        fam = ctx.family(trait, vself, None)
        short = vself.split("::")[-1]

        def q(c, n):
            return (n.get("fname") or "") in ("process_variable_expression", "visit_identifier") + INSERTS
        touched = fam.touched(q)
        for a, n in slots:
            key = (a[len(N):], n)
            cls = SLOT_CLASS.get(key)
            if cls is None:
                continue
            how = {h[1].split("::")[-1] for h in touched.get((a, n), [])}
            refs = how & {"process_variable_expression", "visit_identifier"}
            ins = how & set(INSERTS)
            if cls == REF:
                R.ob(rid, "%s|%s.%s|referenced" % (short, key[0], key[1]), bool(refs) and not ins, ctx.adt_where(a), "reaches %s" % sorted(how))
            elif cls == DECL:
                if key == ("statements::local_function::FunctionAssignment", "identifier"):
                    # passed as the whole statement to insert_local_function
                    vf = lib.fns.get(fam.bind("%s::visit_local_function" % trait))
                    ok = vf is not None and any(c.get("fname") == "insert_local_function" for c in thir.calls(vf))
                    R.ob(rid, "%s|%s.%s|declared" % (short, key[0], key[1]), ok and not refs, ctx.adt_where(a), "insert_local_function(statement)")
                else:
                    R.ob(rid, "%s|%s.%s|declared" % (short, key[0], key[1]), bool(ins) and not refs, ctx.adt_where(a), "reaches %s" % sorted(how))
            else:
                R.ob(rid, "%s|%s.%s|untouched" % (short, key[0], key[1]), not how, ctx.adt_where(a),
                     "a %s must not be renamed/declared; reaches %s" % (cls, sorted(how) or "nothing"))


def fresh(R, ctx):
    rid = "C09.fresh"
    lib = ctx.lib
    R.rule(rid, "(what a freshly generated name must avoid is decided in C09.pool: insert|generated-filtered) KEYWORDS lists the 21 reserved words and is added "
                "to the avoid set; RenameVariables::flawless_process seeds the processor with globals + kept function names + collected globals and only "
                "then runs the renaming walk")
    # KEYWORDS
    kw = lib.consts.get("process::utils::KEYWORDS")
    if R.require(rid, "anchor:KEYWORDS", kw is not None and kw.get("thir"), "", "not found"):
        lits = {thir.lit_str(x) for x in thir.walk(kw["thir"]["body"]) if x.get("k") == "Lit"}
        for k in LUA_KEYWORDS:
            R.ob(rid, "KEYWORDS|" + k, k in lits, "%s:%s" % (kw["file"], kw["line"]), "reserved word `%s` %s" % (k, "listed" if k in lits else "MISSING: a local can be renamed to it"))
    fn = lib.fn("process::utils::is_valid_identifier")
    if R.require(rid, "anchor:is_valid_identifier", fn is not None, "", "not found"):
        from .. import peval as _pe
        for k in LUA_KEYWORDS:
            ev_ = _pe.PEval(lib, ctx.an)
            try:
                v = ev_.call_fn(fn, [k])
            except _pe.OutOfFuel:
                v = None
            R.ob(rid, "matches_any_keyword|" + k, v is False, ctx.where(fn), "`%s` %s by is_valid_identifier" % (k, "rejected" if v is False else "NOT rejected"))
    fn = lib.fn("rules::rename_variables::rename_processor::RenameProcessor::new")
    if R.require(rid, "anchor:RenameProcessor::new", fn is not None, "", "not found"):
        from .. import peval
        roles = _rp_layout(lib)
        pe = peval.PEval(lib, ctx.an)
        try:
            rp = pe.call_fn(fn, [["configured_global"], False])
        except peval.OutOfFuel:
            rp = None
        av = rp.fields.get(roles.get("avoid")) if isinstance(rp, peval.Struct) else None
        names = set(av.d) if isinstance(av, peval.PySet) else None
        missing = sorted((set(LUA_KEYWORDS) | {"configured_global"}) - names) if names is not None else None
        R.ob(rid, "new|keywords-avoided", missing == [], ctx.where(fn),
             "RenameProcessor::new seeds the avoid set with the 21 reserved words and the names it is given" if missing == [] else
             ("avoid set misses %s" % missing if missing is not None else "avoid set not established (%s)" % pe.unknown_reasons[:2]))
    fn = lib.fn("<rules::rename_variables::RenameVariables as rules::FlawlessRule>::flawless_process")
    if R.require(rid, "anchor:flawless_process", fn is not None, "", "not found"):
        fa = ctx.an.fa(fn["path"])
        news = [c for c in thir.calls(fn) if c.get("fname") == "new" and "RenameProcessor" in (c.get("fn") or "")]
        if R.require(rid, "flawless_process|anchor:new", len(news) == 1, ctx.where(fn), "RenameProcessor::new call"):
            arg = news[0]["args"][0]
            srcs = {y.get("fname") for y in fa.source_calls(arg)}
            fields = {o[1] for o in fa.origins(arg) if o[0] != "#param"}
            R.ob(rid, "flawless_process|seed:configured-globals", "globals" in fields, ctx.where(fn), "self.globals flows into the avoid set")
            R.ob(rid, "flawless_process|seed:collected-globals", "into_globals" in srcs, ctx.where(fn), "CollectGlobalsProcessor::into_globals flows into the avoid set")
            names_ = [v.get("name") for v in thir.walk(arg) if v.get("k") == "Var"]
            R.ob(rid, "flawless_process|seed:function-names", "avoid_identifiers" in names_, ctx.where(fn), "kept function names flow into the avoid set")
            order_ = [id(x) for x in thir.walk(thir.body_of(fn))]
            walks = [c for c in thir.calls(fn) if c.get("fname") == "visit_block" and any(v.get("name") == "processor" for v in thir.walk(c) if v.get("k") == "Var")]
            pre = [c for c in thir.calls(fn) if c.get("fname") == "visit_block" and c not in walks]
            ok = bool(walks) and all(order_.index(id(p)) < order_.index(id(news[0])) < order_.index(id(w)) for p in pre for w in walks)
            R.ob(rid, "flawless_process|collect-before-rename", ok, ctx.where(fn), "collecting walks < RenameProcessor::new < renaming walk: %s" % ok)


RP = "rules::rename_variables::rename_processor::RenameProcessor"
SCOPE_IMPL = "<%s as process::scope_visitor::Scope>::" % RP


def _rp_layout(lib):
    """Roles of RenameProcessor's fields, found by type (private names may change)."""
    a = lib.adts.get(RP)
    roles = {}
    for f in (a["variants"][0]["fields"] if a else []):
        t = f.get("tys", "")
        if t.startswith("alloc::vec::Vec<") and any(m in t for m in ("::map::HashMap<alloc::string::String,", "::map::BTreeMap<alloc::string::String,", "IndexMap<alloc::string::String,")):
            roles["stack"] = f["name"]
            roles["value_ty"] = t.split("<alloc::string::String, ", 1)[1].rstrip(">").strip()
            if roles["value_ty"].startswith("("):
                roles["value_ty"] = roles["value_ty"] + ("" if roles["value_ty"].endswith(")") else ")")
        elif t == "alloc::vec::Vec<alloc::string::String>" or t.startswith("alloc::collections::vec_deque::VecDeque<alloc::string::String"):
            roles["pool"] = f["name"]
        elif "Set<alloc::string::String" in t:
            roles["avoid"] = f["name"]
        elif t == "bool":
            roles["include"] = f["name"]
        else:
            roles.setdefault("permutator", f["name"])
    return roles


class _Encoding:
    """How the implementation records (new name, reusable?) in its scope dictionaries -- learnt from the two public callbacks
    that create such records: Scope::insert_self (kept name) and Scope::insert (renamed, reusable)."""
    def __init__(self, ctx, roles, processor, call):
        import copy
        from ..peval import Ref, PyMap
        self.copy = copy
        self.templates = {}
        rp = processor([[]], [], [], [])
        call("insert_self", rp)
        top = rp.fields[roles["stack"]][-1] if rp.fields[roles["stack"]] else None
        if isinstance(top, PyMap) and len(top.d) == 1:
            (k, v), = top.d.items()
            self.templates[False] = (k, v)
        cell = {"v": "declared"}
        rp = processor([[]], ["pooled"], [], [])
        call("insert", rp, Ref(cell, "v"))
        top = rp.fields[roles["stack"]][-1] if rp.fields[roles["stack"]] else None
        if isinstance(top, PyMap) and len(top.d) == 1:
            (k, v), = top.d.items()
            self.templates[True] = ("pooled", v)

    def ok(self):
        return set(self.templates) == {True, False} and self._subst(self.templates[True][1], self.templates[True][0], "x") != self._subst(self.templates[False][1], self.templates[False][0], "x")

    def _subst(self, v, old, new):
        from ..peval import Struct, Enum
        if isinstance(v, str):
            return new if v == old else v
        if isinstance(v, tuple):
            return tuple(self._subst(x, old, new) for x in v)
        if isinstance(v, (Struct, Enum)):
            c = self.copy.copy(v)
            c.fields = {k: self._subst(x, old, new) for k, x in v.fields.items()}
            return c
        return v

    def value(self, name, flag):
        old, tmpl = self.templates[flag]
        return self._subst(self.copy.deepcopy(tmpl), old, name)

    def decode(self, v):
        """(name, reusable) of a recorded value, or None."""
        for flag, (old, tmpl) in self.templates.items():
            names = []

            def collect(x):
                from ..peval import Struct, Enum
                if isinstance(x, str):
                    names.append(x)
                elif isinstance(x, tuple):
                    [collect(y) for y in x]
                elif isinstance(x, (Struct, Enum)):
                    [collect(y) for y in x.fields.values()]
            collect(v)
            for n in names:
                if self._subst(self.copy.deepcopy(tmpl), old, n) == v:
                    return (n, flag)
        return None


def pool(R, ctx, rid_override=None, only=None):
    """The renamer's scope callbacks as single-step transfer functions on an abstract RenameProcessor (sa/peval.py).
    With `only`, records just those obligations under `rid_override` (C11.order reuses the order-independence cell)."""
    import itertools
    from .. import peval
    from ..peval import Enum, Struct, UNKNOWN, PyMap, PySet, Iter, Ref, make
    rid = rid_override or "C09.pool"
    lib = ctx.lib
    if only:
        real_R = R

        class _Filter:
            def __getattr__(self, n):
                return getattr(real_R, n)

            def rule(self, *a):
                pass

            def ob(self, rule, key, ok, where="", detail="", nontrivial=True):
                if key in only:
                    return real_R.ob(rule, key, ok, where, detail, nontrivial)
                return ok

            def require(self, rule, key, cond, where="", detail=""):
                return real_R.require(rule, key, cond, where, detail) if not cond else cond
        R = _Filter()
    R.rule(rid, "RenameProcessor's Scope callbacks, evaluated from their typed tree on an abstract processor (fields found by type): pop() "
                "releases exactly the names whose entry carries the reuse flag -- names kept as they are (`self`, function names) never enter "
                "the pool -- and leaves the pool in an order that does not depend on the hash map's iteration order (all 24 insertion orders "
                "give the same pool); insert_self and a kept function name are recorded with reuse = false; insert() records the new name "
                "with reuse = true, takes it from the pool when there is one, and otherwise takes the first generated candidate that is "
                "neither in the avoid set nor starts with a digit")
    roles = _rp_layout(lib)
    if not R.require(rid, "anchor:layout", {"stack", "pool", "avoid", "include", "permutator", "value_ty"} <= set(roles), ctx.adt_where(RP) if RP in lib.adts else "",
                     "field roles of RenameProcessor: %s" % roles):
        return

    def processor(dicts, pool_, avoid, stream, include=False):
        return Struct(RP, {roles["stack"]: [PyMap(d) for d in dicts], roles["pool"]: list(pool_), roles["avoid"]: PySet(avoid),
                           roles["permutator"]: Iter(list(stream)), roles["include"]: include})

    def call(name, rp, *args):
        fn = lib.fn(SCOPE_IMPL + name)
        if fn is None:
            return None, ["%s not found" % name]
        pe = peval.PEval(lib, ctx.an)
        try:
            pe.call_fn(fn, [rp] + list(args))
        except peval.OutOfFuel:
            return None, ["no termination"]
        return fn, pe.unknown_reasons
    enc = _Encoding(ctx, roles, processor, call)
    if not R.require(rid, "anchor:record-encoding", enc.ok(), ctx.adt_where(RP), "how (name, reusable) is recorded, learnt from insert_self / insert: %s" % enc.templates):
        return
    # ---- pop ---------------------------------------------------------------------------------------
    entries = [("x", "b", True), ("self", "self", False), ("y", "a", True), ("f", "f", False)]
    pools = set()
    fn = lib.fn(SCOPE_IMPL + "pop")
    if R.require(rid, "anchor:pop", fn is not None, "", "not found"):
        problems = []
        for perm in itertools.permutations(entries):
            rp = processor([[("outer", enc.value("o", True))], [(k, enc.value(n, fl)) for k, n, fl in perm]], ["p"], [], [])
            _, why = call("pop", rp)
            got = rp.fields[roles["pool"]]
            got = got.rest() if isinstance(got, Iter) else got
            if not isinstance(got, list) or any(not isinstance(x, str) for x in got):
                problems.append("pool not established %s" % why[:1])
                break
            pools.add(tuple(got))
            if sorted(got) != ["a", "b", "p"]:
                problems.append("pool after pop is %s (expected p, a, b: exactly the reusable names are released)" % got)
                break
            if len(rp.fields[roles["stack"]]) != 1:
                problems.append("the scope dictionary was not popped")
                break
        R.ob(rid, "pop|pool-admission-tests-reuse-flag", not problems, ctx.where(fn),
             "exactly the names flagged reusable are released" if not problems else problems[0] + ": a later local can be renamed to `self`" * ("self" in problems[0]))
        R.ob(rid, "pop|sorted-after-extend", len(pools) <= 1, ctx.where(fn),
             "the pool is the same for all 24 iteration orders of the scope's map" if len(pools) <= 1 else "the pool depends on hash iteration order: %s" % sorted(pools)[:3])
    # ---- insert_self / kept function ------------------------------------------------------------------
    fn = lib.fn(SCOPE_IMPL + "insert_self")
    if R.require(rid, "anchor:insert_self", fn is not None, "", "not found"):
        rp = processor([[]], [], [], [])
        _, why = call("insert_self", rp)
        top = rp.fields[roles["stack"]][-1] if rp.fields[roles["stack"]] else None
        v = enc.decode(top.d.get("self")) if isinstance(top, PyMap) else None
        R.ob(rid, "insert_self|reuse=false", v == ("self", False), ctx.where(fn), "`self` recorded as %s %s" % (v, why[:1] if v is None else ""))
    fn = lib.fn(SCOPE_IMPL + "insert_local_function")
    if R.require(rid, "anchor:insert_local_function", fn is not None, "", "not found"):
        st = lib.adts.get("nodes::statements::Statement")
        lf = [f["tys"] for v in (st["variants"] if st else []) if v["name"] == "LocalFunction" for f in v["fields"]]
        LF = lf[0] if lf else ""
        while LF.startswith("alloc::boxed::Box<"):
            LF = LF[len("alloc::boxed::Box<"):-1]
        ID = "nodes::identifier::Identifier"
        func = make(lib, LF, {"identifier": make(lib, ID, {"name": "f"})})
        rp = processor([[]], [], [], [], include=False)
        _, why = call("insert_local_function", rp, func)
        top = rp.fields[roles["stack"]][-1] if rp.fields[roles["stack"]] else None
        v = enc.decode(top.d.get("f")) if isinstance(top, PyMap) else None
        R.ob(rid, "insert_local_function|kept-name-reuse=false", v == ("f", False), ctx.where(fn), "kept function name recorded as %s %s" % (v, why[:1] if v is None else ""))
    # ---- insert ---------------------------------------------------------------------------------------
    fn = lib.fn(SCOPE_IMPL + "insert")
    if R.require(rid, "anchor:insert", fn is not None, "", "not found"):
        for label, pool_, avoid, stream, want in (("from-pool", ["q"], [], ["zz"], "q"),
                                                  ("generated-filtered", [], ["taken", "if"], ["1x", "if", "taken", "ok", "zz"], "ok")):
            cell = {"v": "orig"}
            rp = processor([[]], pool_, avoid, stream)
            _, why = call("insert", rp, Ref(cell, "v"))
            top = rp.fields[roles["stack"]][-1] if rp.fields[roles["stack"]] else None
            rec = enc.decode(top.d.get("orig")) if isinstance(top, PyMap) else None
            ok = cell["v"] == want and rec == (want, True)
            R.ob(rid, "insert|%s" % label, ok, ctx.where(fn),
                 "declaration renamed to `%s`, recorded as %s (expected `%s`, reusable) %s" % (cell["v"], rec, want, why[:1] if not ok else ""))


def distinct_names(R, ctx, rid="C09.distinct"):
    """Names drawn for simultaneously live declarations are pairwise distinct (the real generator, not a stub)."""
    from .. import peval
    from ..peval import Ref, Iter
    lib = ctx.lib
    R.rule(rid, "the renamer built by its public constructor (its own character permutator, its own avoid set seeded with a global and the "
                "keywords), evaluated from its typed tree: 3 000 declarations inserted into one scope without any scope being closed (so no "
                "name is ever released) receive 3 000 pairwise distinct names, none of them a keyword, the avoided global, or starting with a "
                "digit -- the sequence passes the roll-over from 1 to 2 characters, the block of digit-leading one-character candidates and "
                "every second-character roll-over; two live locals with one name would capture each other's references")
    news = [f for k, f in lib.fns.items() if k.startswith(RP + "::") and k.endswith("::new") and thir.body_of(f)]
    ins, push = lib.fn(SCOPE_IMPL + "insert"), lib.fn(SCOPE_IMPL + "push")
    if not R.require(rid, "anchor:constructor", len(news) == 1 and ins is not None and push is not None, "", "RenameProcessor::new / Scope::insert / push not found"):
        return
    N_NAMES = 3000
    pe = peval.PEval(lib, ctx.an, fuel=60000000)
    names, why = [], None
    try:
        rp = pe.call_fn(news[0], [Iter(["b"]), False])
        pe.call_fn(push, [rp])
        for i in range(N_NAMES):
            cell = {"v": "original_%d" % i}
            pe.call_fn(ins, [rp, Ref(cell, "v")])
            names.append(cell["v"])
    except peval.OutOfFuel:
        why = "no termination"
    bad = None
    seen = {}
    kw = {"and", "break", "do", "else", "elseif", "end", "false", "for", "function", "if", "in", "local", "nil", "not", "or", "repeat", "return", "then", "true", "until", "while"}
    for i, nm in enumerate(names):
        if not isinstance(nm, str) or not nm or nm.startswith("original_"):
            bad = "declaration #%d was not renamed (%r) %s" % (i, nm, pe.unknown_reasons[:2])
            break
        if nm in seen:
            bad = "declarations #%d and #%d are both live and both renamed to `%s`" % (seen[nm], i, nm)
            break
        if nm in kw or nm == "b" or nm[0].isdigit():
            bad = "declaration #%d renamed to `%s` (keyword / avoided global / digit first)" % (i, nm)
            break
        seen[nm] = i
    if bad is None and (why or len(names) < N_NAMES):
        bad = "not established: %s" % (why or pe.unknown_reasons[:2])
    R.ob(rid, "live-names-pairwise-distinct", bad is None, ctx.where(ins), "%d names, all distinct (last `%s`)" % (len(names), names[-1] if names else "") if bad is None else bad)


def globals_monotone(R, ctx):
    rid = "C09.globals"
    lib = ctx.lib
    CGP = "process::processors::collect_globals::CollectGlobalsProcessor"
    R.rule(rid, "the set of global names collected before renaming (the field CollectGlobalsProcessor hands out through into_globals / "
                "iter_globals) only ever grows: every operation on it in any method of the processor is an insertion or a read. A name taken "
                "out of it (e.g. because it was later localised) can be given to an earlier local, which then captures the read of the global")
    outs = [lib.fn("%s::%s" % (CGP, n)) for n in ("into_globals", "iter_globals")]
    outs = [f for f in outs if f is not None]
    if not R.require(rid, "anchor:accessors", len(outs) >= 1, "", "CollectGlobalsProcessor::into_globals / iter_globals not found"):
        return
    fields = set()
    for f in outs:
        fa = ctx.an.fa(f["path"])
        for c in thir.calls(f):
            if c["args"]:
                fields |= {o[1] for o in fa.origins(c["args"][0]) if o[0] == CGP}
    if not R.require(rid, "anchor:globals-field", len(fields) == 1, ctx.adt_where(CGP), "field handed out as the collected globals: %s" % sorted(fields)):
        return
    gf = next(iter(fields))
    READ_OR_GROW = {"insert", "extend", "iter", "into_iter", "contains", "len", "is_empty", "get", "union", "is_subset", "is_superset", "clone", "borrow", "deref", "as_ref"}
    n, grows = 0, 0
    for f in lib.fn_list:
        if not f.get("self_tys", "").startswith(CGP) or not thir.body_of(f):
            continue
        fa = ctx.an.fa(f["path"])
        for c in thir.calls(f):
            if not c["args"] or callee_of(c) in lib.fns:
                continue
            if (CGP, gf) in fa.origins(c["args"][0]) and "Set" in lib.ty_str(lib.strip_refs(c["args"][0]["t"])):
                n += 1
                op = c.get("fname")
                grows += op in ("insert", "extend")
                ok = op in READ_OR_GROW
                R.ob(rid, "globals|%s" % op if ok else "globals|%s|%s" % (f["path"].split("::")[-1], op), ok, ctx.where(f, c.get("ln")),
                     "read / insertion" if ok else "`%s` takes names out of the collected globals: a local declared earlier can be renamed to a global that is still read" % op, nontrivial=not ok)
        for nd in thir.walk(thir.body_of(f)):
            if nd.get("k") == "Assign" and (CGP, gf) in fa.origins(nd["l"]) and f["path"].split("::")[-1] not in ("default", "new"):
                R.ob(rid, "globals|reassigned|%s" % f["path"].split("::")[-1], False, ctx.where(f, nd.get("ln")), "the collected set is replaced wholesale")
    R.require(rid, "floor", n >= 2 and grows >= 1, "", "%d operations on the collected set, %d insertions" % (n, grows))


def run(R, ctx):
    R.explanation = (
        "Event-order rules on both scope-tracking visitors (Lua's lexical scoping as ordering constraints between push/insert/visit/pop), a complete "
        "classification of identifier slots of the AST type graph with what may and may not reach the renaming callbacks, and guard rules on name "
        "generation and recycling. Decides the scoping discipline the renamer relies on; does not decide pool/global interactions when detection is off. Decision / transfer functions among these are decided by finite-domain evaluation of their typed tree (sa/peval.py): every point of a small abstract domain is evaluated and compared with the reference; nothing is sampled and no program input exists."
    )
    R.assumptions += ["Lua 5.1 manual 2.6 (visibility rules) and 2.1 (reserved words) as reference", "coverage per (ADT, slot), not path-sensitive"]
    order(R, ctx)
    names(R, ctx)
    fresh(R, ctx)
    pool(R, ctx)
    globals_monotone(R, ctx)
    distinct_names(R, ctx)

"""C01 Default rules preserve program behaviour (structural part: the three anchored mechanisms).

Decided:
  C01.guard  in the default rules that drop or fold code, every dropping act is control-dependent
             on Evaluator::has_side_effects of what is dropped (instances enumerated from the tree,
             reviewed; floor = the instances below must still be found)                       [T7]
  C01.hoist  a sub-expression is never moved from a single-value position into its parent's
             position without the can_return_multiple_values -> in_parentheses guard
             (contradiction rule: unused_if_branch does it, compute_expression must too)       [T7]
  C01.order  effectful expressions that are kept stay in source order (tail-only accumulators)  [T5]
  C01.reach  each default rule is driven by one of the four visitors whose child coverage is
             proven under C07.visit (so nesting cannot change whether a rule sees a construct)   [T2]
  C01.list   get_default_rules returns exactly the 13 documented rules, all registered          [T9]
Not decided: that each rewrite is semantically right; rule-order interactions; the generators.
"""
from .. import thir, guards, visitors
from ..thir import callee_of
from . import c17

HSE = guards.is_call_named("has_side_effects")
CRMV = guards.is_call_named("can_return_multiple_values")

DEFAULT_RULES = [
    "RemoveSpaces", "RemoveComments", "ComputeExpression", "RemoveUnusedIfBranch", "RemoveUnusedWhile", "FilterAfterEarlyReturn",
    "RemoveEmptyDo", "RemoveUnusedVariable", "RemoveMethodDefinition", "ConvertIndexToField", "RemoveNilDeclaration", "RenameVariables",
    "RemoveFunctionCallParens",
]


def _closure_false_literals(clo):
    """`false` literals that are possible results of closure `clo` (tail positions)."""
    out = []

    def tails(e):
        k = e.get("k")
        if k == "Block":
            if "tail" in e:
                tails(e["tail"])
        elif k == "If":
            tails(e["then"])
            if "else" in e:
                tails(e["else"])
        elif k == "Match":
            for a in e["arms"]:
                tails(a["body"])
        elif k == "Logical":
            tails(e["r"])
        elif k == "Lit" and e.get("v") == "false":
            out.append(e)
    tails(clo["body"]["body"])
    return out


def guard(R, ctx):
    rid = "C01.guard"
    lib = ctx.lib
    M = guards.Mentions(ctx.an)
    R.rule(rid, "dropping acts in the default rules are control-dependent on Evaluator::has_side_effects: (1) every `false` (= drop) result of "
                "the retain/filter closures of unused_if_branch; (2) every whole-expression replacement of IfFilter::simplify_if; (3) the drop "
                "predicate of unused_while; (4) every folded result of compute_expression::Computer::replace_with; (5) the extra values "
                "popped by remove_nil_declarations; (6) the values dropped by remove_unused_variable (kept only through the has_side_effects filter)")
    n = 0
    # (1)+(2) unused_if_branch
    for path in ("rules::unused_if_branch::IfFilter::simplify_if_statement", "rules::unused_if_branch::IfFilter::simplify_if"):
        fn = lib.fn(path)
        if not R.require(rid, "anchor:" + path.split("::")[-1], fn is not None, "", "not found"):
            continue
        fa = ctx.an.fa(fn["path"])
        short = path.split("::")[-1]
        for c in thir.calls(fn):
            if c.get("fname") in ("retain_branches_mut", "retain_elseif_branches_mut"):
                clo = [a for a in c["args"] if a.get("k") == "Closure"]
                for i, lit in enumerate(_closure_false_literals(clo[0]) if clo else []):
                    n += 1
                    ok = any(k == "else" and M.mentions(fa, cond, HSE, 0) for cond, k in guards.conditions_of(fa, lit))
                    R.ob(rid, "%s|%s|drop@%d" % (short, c["fname"], i), ok, ctx.where(fn, lit.get("ln")),
                         "branch dropped %s" % ("only when its condition has no side effect" if ok else "WITHOUT testing has_side_effects of its condition"))
        if short == "simplify_if":
            for i, x in enumerate([x for x in thir.walk(thir.body_of(fn)) if x.get("k") == "Adt" and x.get("variant") == "Some" and "Expression" in lib.ty_str(x["t"]) and not fa.in_closure(x)]):
                n += 1
                ok = any(k == "else" and M.mentions(fa, cond, HSE, 0) for cond, k in guards.conditions_of(fa, x))
                R.ob(rid, "simplify_if|replace@%d" % i, ok, ctx.where(fn, x.get("ln")), "if-expression replaced by one of its results %s" % ("only when the condition is effect-free" if ok else "WITHOUT has_side_effects(condition)"))
    # (3) unused_while
    fn = lib.fn("<rules::unused_while::WhileFilter as process::node_processor::NodeProcessor>::process_block")
    if R.require(rid, "anchor:unused_while", fn is not None, "", "not found"):
        ok = False
        for c in thir.calls(fn):
            if c.get("fname") == "filter_statements":
                clo = [a for a in c["args"] if a.get("k") == "Closure"]
                for x in thir.walk(clo[0]["body"]["body"]) if clo else []:
                    if x.get("k") == "Logical" and x.get("op") == "Or" and HSE(x["l"]):
                        # keep = has_side_effects(cond) || truthy.unwrap_or(true)
                        r = x["r"]
                        uo = [y for y in thir.walk(r) if y.get("k") == "Call" and y.get("fname") == "unwrap_or"]
                        ok = bool(uo) and uo[0]["args"][1].get("v") == "true"
        n += 1
        R.ob(rid, "unused_while|keep-if-effectful-or-maybe-true", ok, ctx.where(fn), "keep = has_side_effects(cond) || is_truthy().unwrap_or(true): %s" % ok)
    # (4) compute_expression
    fn = lib.fn("rules::compute_expression::Computer::replace_with")
    if R.require(rid, "anchor:compute_expression", fn is not None, "", "not found"):
        fa = ctx.an.fa(fn["path"])
        k = 0
        for x in thir.walk(thir.body_of(fn)):
            if x.get("k") == "Call" and x.get("fname") in ("to_expression", "map") and not fa.in_closure(x):
                if x["fname"] == "map" and not any(y.get("fname") == "is_truthy" for y in fa.source_calls(x["args"][0])):
                    continue
                k += 1
                ok = any(kd == "then" and cond.get("k") == "Unary" and M.mentions(fa, cond, HSE, 0) for cond, kd in guards.conditions_of(fa, x))
                R.ob(rid, "compute_expression|fold@%d" % k, ok, ctx.where(fn, x.get("ln")), "folding is %s `!has_side_effects(..)`" % ("under" if ok else "NOT under"))
        n += k
        R.require(rid, "compute_expression|floor", k >= 3, ctx.where(fn), "%d folding sites (floor 3)" % k)
    # (5) remove_nil_declarations
    fn = lib.fn("<rules::remove_nil_declarations::Processor as process::node_processor::NodeProcessor>::process_local_assign_statement")
    if R.require(rid, "anchor:remove_nil_declarations", fn is not None, "", "not found"):
        fa = ctx.an.fa(fn["path"])
        pushes = [c for c in thir.calls(fn) if c.get("fname") == "push" and any(v.get("name") == "pop_extra_value_at" for v in thir.walk(c["args"][0]) if v.get("k") == "Var")]
        ok = bool(pushes) and all(any(kd == "then" and cond.get("k") == "Unary" and M.mentions(fa, cond, HSE, 0) for cond, kd in guards.conditions_of(fa, c)) for c in pushes)
        n += 1
        R.ob(rid, "remove_nil_declarations|extra-values", ok, ctx.where(fn), "an extra value is scheduled for removal only under !has_side_effects(value): %s" % ok)
        rm = [c for c in thir.calls(fn) if c.get("fname") == "remove_value"]
        R.ob(rid, "remove_nil_declarations|removals-from-schedules", len(rm) >= 2, ctx.where(fn), "%d remove_value calls" % len(rm))
    # (6) remove_unused_variable
    fn = lib.fn("<rules::remove_unused_variable::RemoveUnusedVariableProcessor as process::node_processor::NodeProcessor>::process_scope")
    if R.require(rid, "anchor:remove_unused_variable", fn is not None, "", "not found"):
        fa = ctx.an.fa(fn["path"])
        filt = [c for c in thir.walk(thir.body_of(fn)) if c.get("k") == "Call" and c.get("fname") == "filter" and any(a.get("k") == "Closure" and any(HSE(y) for y in thir.walk(a["body"]["body"])) for a in c["args"])]
        eas = [c for c in thir.walk(thir.body_of(fn)) if c.get("k") == "Call" and c.get("fname") == "expressions_as_statement"]
        ok = bool(filt) and any(any(y is filt[0] for y in fa.source_calls(c["args"][0])) for c in eas)
        n += 1
        R.ob(rid, "remove_unused_variable|all-unused-keeps-effects", ok, ctx.where(fn), "values of a fully unused declaration go through filter(has_side_effects) into expressions_as_statement: %s" % ok)
        elifs = [x for x in thir.walk(thir.body_of(fn)) if x.get("k") == "If" and HSE(x["cond"])]
        n += 1
        R.ob(rid, "remove_unused_variable|partly-unused-keeps-effects", bool(elifs), ctx.where(fn), "an unused variable whose value has side effects keeps its value: %s" % bool(elifs))
    R.require(rid, "floor:instances", n >= 9, "", "%d guard instances (floor 9)" % n)


def hoist(R, ctx):
    rid = "C01.hoist"
    lib = ctx.lib
    M = guards.Mentions(ctx.an)
    R.rule(rid, "whenever a default rule returns an operand/branch result of the matched node as the replacement of the whole node "
                "(`binary.right().clone()`, `if_expression.get_result().clone()`), the value is parenthesised under can_return_multiple_values")
    # unused_if_branch (the norm)
    fn = lib.fn("rules::unused_if_branch::IfFilter::simplify_if")
    if R.require(rid, "anchor:simplify_if", fn is not None, "", "not found"):
        fa = ctx.an.fa(fn["path"])
        k = 0
        for x in thir.walk(thir.body_of(fn)):
            if x.get("k") == "Adt" and x.get("variant") == "Some" and "Expression" in lib.ty_str(x["t"]) and not fa.in_closure(x):
                k += 1
                inner = x["fields"][0]["e"]
                ok = M.mentions(fa, inner, CRMV, 0) and any(c.get("fname") == "in_parentheses" for c in thir.walk(inner) if c.get("k") == "Call")
                R.ob(rid, "simplify_if|result@%d" % k, ok, ctx.where(fn, x.get("ln")), "hoisted result is `if can_return_multiple_values(r) { r.in_parentheses() } else { r }`: %s" % ok)
        R.require(rid, "simplify_if|floor", k >= 1, ctx.where(fn), "%d hoists" % k)
    # compute_expression
    fn = lib.fn("rules::compute_expression::Computer::replace_with")
    if R.require(rid, "anchor:replace_with", fn is not None, "", "not found"):
        fa = ctx.an.fa(fn["path"])
        k = 0
        for c in thir.walk(thir.body_of(fn)):
            if c.get("k") == "Call" and c.get("fname") == "clone":
                srcs = [y.get("fname") for y in fa.source_calls(c["args"][0])]
                which = "right" if "right" in srcs else "left" if "left" in srcs else None
                if which is None:
                    continue
                # operator arm + purity branch, for a stable key
                op = "?"
                pure = "?"
                p = fa.parent.get(id(c)); child = c
                while p is not None:
                    if p.get("k") == "Match":
                        for arm in p["arms"]:
                            if arm["body"] is child or any(y is child for y in thir.walk(arm["body"])):
                                vs = [v for a_, v in thir.pat_variants(arm["pat"]) if a_.endswith("BinaryOperator")]
                                if vs and op == "?":
                                    op = vs[0]
                    if p.get("k") == "If" and p["cond"].get("k") == "Unary" and any(HSE(y) and any(v.get("name") == "expression" for v in thir.walk(y) if v.get("k") == "Var") for y in thir.walk(p["cond"])):
                        pure = "pure" if any(y is child for y in thir.walk(p["then"])) else "impure"
                    child = p; p = fa.parent.get(id(p))
                # which truthiness branch returns it
                truth = "?"
                p = fa.parent.get(id(c)); child = c
                while p is not None and truth == "?":
                    if p.get("k") == "If" and p["cond"].get("k") == "Var" and p["cond"].get("name") == "is_truthy":
                        truth = "truthy" if (p["then"] is child or any(y is child for y in thir.walk(p["then"]))) else "falsy"
                    child = p; p = fa.parent.get(id(p))
                k += 1
                if which == "left":
                    # the left operand is returned only when its value is statically known: evaluate() answers Unknown for calls/varargs (C08.opaque)
                    R.ob(rid, "replace_with|%s|left|%s|%s" % (op, pure, truth), True, ctx.where(fn, c.get("ln")), "left operand with statically known value: single-valued by C08.opaque", nontrivial=False)
                    continue
                ok = any(M.mentions(fa, cond, CRMV, 0) for cond, kd in guards.conditions_of(fa, c))
                # or: the value flows into `.map(|e| if can_return_multiple_values(&e) { e.in_parentheses() } else { e })`
                p = fa.parent.get(id(c)); child = c
                while p is not None and not ok:
                    if p.get("k") == "Call" and p.get("fname") == "map" and p["args"] and (p["args"][0] is child or any(y is child for y in thir.walk(p["args"][0]))):
                        for a_ in p["args"][1:]:
                            if a_.get("k") == "Closure" and a_.get("body"):
                                b_ = a_["body"]["body"]
                                if any(CRMV(y) for y in thir.walk(b_)) and any(y.get("k") == "Call" and y.get("fname") == "in_parentheses" for y in thir.walk(b_)):
                                    ok = True
                    child = p; p = fa.parent.get(id(p))
                R.ob(rid, "replace_with|%s|right|%s|%s" % (op, pure, truth), ok, ctx.where(fn, c.get("ln")),
                     "`binary.right().clone()` replaces the whole `%s` expression %s" % (op.lower(), "behind can_return_multiple_values" if ok else
                        "without can_return_multiple_values/in_parentheses: `return true and g()` becomes `return g()` (all of g's values instead of one)"))
        R.require(rid, "replace_with|floor", k >= 4, ctx.where(fn), "%d operand hoists (floor 4)" % k)


def reach_and_list(R, ctx):
    lib = ctx.lib
    rid = "C01.list"
    R.rule(rid, "get_default_rules builds exactly the 13 documented default rules")
    fn = lib.fn("rules::get_default_rules")
    if R.require(rid, "anchor", fn is not None, "", "not found"):
        found = []
        for c in thir.walk(thir.body_of(fn)):
            if c.get("k") == "Call" and c.get("fname") == "default" and c.get("gargs"):
                ts = lib.ty_str(c["gargs"][0])
                if "Box<" in ts and "rules::" in ts:
                    found.append(ts.split("<")[1].split(">")[0].split("::")[-1])
        R.ob(rid, "default-rules", sorted(found) == sorted(DEFAULT_RULES), ctx.where(fn), "found %s" % found)
    rid = "C01.reach"
    R.rule(rid, "every default rule that walks the tree does so through DefaultVisitor / ScopeVisitor (coverage proven in C07.visit)")
    ok_vis = {v for _, v in visitors.VISITORS}
    n = 0
    for d in ctx.drivers():
        rule_ty = None
        for r in DEFAULT_RULES:
            if ("::%s as" % r) in d["caller"]:
                rule_ty = r
        if rule_ty is None:
            continue
        n += 1
        R.ob(rid, "%s|%s" % (rule_ty, d["processor"].split("::")[-1]), d["visitor"] in ok_vis, "%s:%s" % (d["file"], d["line"]), "driven by %s" % d["visitor"].split("::")[-1])
    R.require(rid, "floor", n >= 10, "", "%d drivers in default rules (floor 10)" % n)


def index_key_dropped(R, ctx):
    """convert_index_to_field drops the key expression: only a key that does nothing but give its value may go."""
    from .. import peval
    from ..peval import make, Enum, NONE
    rid = "C01.index-key"
    lib = ctx.lib
    R.rule(rid, "convert_index_to_field's expression callback (processor found by role: the NodeProcessor of that rule's module that holds an "
                "Evaluator), evaluated from its typed tree on `t[K]`: a key that is a constant identifier-like string (`'key'`, `'k'..'ey'`, "
                "`('key')`) becomes `t.key`; a key with the same value but a side effect (`{f()} and 'key'`, `'key', f()` inside a table "
                "operand, `(function() .. end)() and 'key'` as a call) and keys that are not identifiers stay an index -- replacing them "
                "would drop the call")
    N = "nodes::"
    EXPR, PREFIX, ID = N + "expressions::Expression", N + "expressions::prefix::Prefix", N + "identifier::Identifier"
    procs = [(k, f) for k, f in lib.fns.items() if k.startswith("<rules::convert_index_to_field::") and k.endswith(" as process::node_processor::NodeProcessor>::process_expression") and thir.body_of(f)]
    if not R.require(rid, "anchor:processor", len(procs) == 1, "", "convert_index_to_field's process_expression not found"):
        return
    fn = procs[0][1]
    owner = procs[0][0][1:].split(" as ")[0].split("<")[0]
    dflt = lib.fn("<%s as core::default::Default>::default" % owner)

    def ident(n):
        return make(lib, ID, {"name": n, "token": NONE})

    def s_(t):
        return Enum(EXPR, "String", {"0": make(lib, N + "expressions::string::StringExpression", {"value": list(t.encode()), "token": NONE})})

    def call():
        return Enum(EXPR, "Call", {"0": make(lib, N + "function_call::FunctionCall", {"prefix": Enum(PREFIX, "Identifier", {"0": ident("f")}),
                    "arguments": Enum(N + "arguments::Arguments", "Tuple", {"0": make(lib, N + "arguments::TupleArguments", {"values": [], "tokens": NONE})}), "method": NONE, "tokens": NONE})})

    def table_with_call():
        return Enum(EXPR, "Table", {"0": make(lib, N + "expressions::table::TableExpression", {"entries": [Enum(N + "expressions::table::TableEntry", "Value", {"0": call()})], "tokens": NONE})})

    def binary(op, l, r):
        return Enum(EXPR, "Binary", {"0": make(lib, N + "expressions::binary::BinaryExpression", {"operator": Enum(N + "expressions::binary::BinaryOperator", op, {}), "left": l, "right": r, "token": NONE})})

    def paren(e):
        return Enum(EXPR, "Parenthese", {"0": make(lib, N + "expressions::parenthese::ParentheseExpression", {"expression": e, "tokens": NONE})})
    cases = [("'key'", lambda: s_("key"), True), ("'k'..'ey'", lambda: binary("Concat", s_("k"), s_("ey")), True), ("('key')", lambda: paren(s_("key")), True),
             ("{f()} and 'key'", lambda: binary("And", table_with_call(), s_("key")), False), ("({f()} and 'key')", lambda: paren(binary("And", table_with_call(), s_("key"))), False),
             ("'k' .. ({f()} and 'ey')", lambda: binary("Concat", s_("k"), paren(binary("And", table_with_call(), s_("ey")))), False),
             ("'not an id'", lambda: s_("not an id"), False), ("'end'", lambda: s_("end"), False), ("f()", call, False)]
    for label, build, want_field in cases:
        pe = peval.PEval(lib, ctx.an)
        try:
            conv = pe.call_fn(dflt, []) if dflt is not None else make(lib, owner)
            node = Enum(EXPR, "Index", {"0": make(lib, N + "expressions::index::IndexExpression", {"prefix": Enum(PREFIX, "Identifier", {"0": ident("t")}), "index": build(), "tokens": NONE})})
            pe.call_fn(fn, [conv, node])
            got = node.variant
            unknown = [w for w in pe.unknown_reasons if w.startswith(("branch on unknown", "match on unknown"))]
        except peval.OutOfFuel:
            got, unknown = None, ["no termination"]
        ok = (got == ("Field" if want_field else "Index")) and not unknown
        R.ob(rid, "t[%s]" % label, ok, ctx.where(fn), "%s" % ("becomes t.key" if want_field else "stays an index") if ok else
             "`t[%s]` %s (expected: %s) %s" % (label, "is rewritten to a field access: the key expression and its call are dropped" if got == "Field" else "gives %s" % got, "field" if want_field else "index kept", unknown[:1]))


def _unreachable_specs(tier):
    kinds = ["while", "repeat", "numfor", "genfor"]
    pool = ["M", "T", ("D", ("R",)), ("D", ("M", "R")), ("D", (("D", ("R",)),)), ("D", (("D", ("M",)), "R")), ("D", ("T", "M")), ("D", (("I", ("R",)),)),
            ("I", ("R",)), ("IE", ("R",), ("R",)), ("IE", ("M", "R"), ("M",)), ("D", (("IE", ("R",), ("R",)),)), ("F", ("R",)), ("F", ("M", "R")), ("FE", ("M", "R")),
            ("D", (("F", ("R",)),)), ("D", (("FE", ("R",)),))]
    for k in kinds:
        pool += [("L", k, ("R",)), ("L", k, ("M", "R")), ("L", k, ("B", "M", "R")), ("L", k, ("A", "M", "R")), ("D", (("L", k, ("R",)),)),
                 ("L", k, (("D", ("R",)),)), ("L", k, (("D", ("K",)), "M")), ("L", k, (("D", ("C",)), "M")), ("L", k, (("D", ("B", "R")), "M"))]
    progs = []
    for x in pool:
        progs += [(x, "M"), (x, "M", "R"), ("M", x, "M", "R"), (("D", (x, "M")), "M")]
        progs += [(("L", k, (x, "M")), "M") for k in (kinds if tier == "thorough" else ["while", "repeat"])]
    small = [x for x in pool if x in ("M", "T") or x[0] in ("D", "I", "IE") or (x[0] == "L" and x[1] in ("repeat", "while"))]
    progs += [(x, y, "M") for x in (pool if tier == "thorough" else small) for y in small]
    return progs


def unreachable_code(R, ctx, rid="C01.early-return"):
    """filter_after_early_return, one of the default rules, evaluated as a whole on enumerated blocks."""
    from .. import astmodel
    from .c15 import pmap
    lib = ctx.lib
    nbits = 6
    R.rule(rid, "the filter_after_early_return rule, entered through FlawlessRule::flawless_process and evaluated from its typed tree (visitor walk "
                "included) on every enumerated block: do blocks ending in return / break / continue or containing one conditionally, all four loop "
                "kinds whose body ends in `return` with and without an earlier conditional `break` / `continue`, if / if-else branches that return, "
                "functions that return, each followed by calls and a final return, at the top level, inside a do block and inside a loop body. "
                "For every oracle of %d condition outcomes the rewritten block is observationally equal (same calls and condition evaluations in "
                "the same order, same final return) to the original under an independent reference semantics of Lua/Luau control flow "
                "(sa/astmodel.py): a statement removed as unreachable although some path reaches it changes the trace" % nbits)
    c = [f for k, f in lib.fns.items() if k.endswith("as rules::FlawlessRule>::flawless_process") and "filter_early_return" in k and thir.body_of(f)]
    B = astmodel.Builder(lib)
    if not R.require(rid, "anchor:rule", len(c) == 1 and not B.missing, "", "filter_after_early_return's flawless_process / AST types: %s" % (B.missing or len(c))):
        return
    fn = c[0]
    specs = _unreachable_specs(R.tier)
    astmodel.configure(ctx=ctx, fn=fn, rule=fn["path"].split(" as ")[0][1:], bits=nbits, no_continue=False)
    chunks = [specs[k:k + 24] for k in range(0, len(specs), 24)]
    n, bad, changed = 0, [], 0
    for res in pmap(astmodel.rule_chunk, chunks):
        for spec, why, ch in res:
            n += 1
            changed += ch
            if why is not None:
                bad.append((spec, why))
    R.ob(rid, "filter_after_early_return|observationally-equal", not bad, ctx.where(fn),
         "every block keeps its trace" if not bad else "%d blocks differ; first: %s" % (len(bad), bad[0][1]))
    R.require(rid, "floor", n >= 400 and changed >= 100, ctx.where(fn), "%d blocks x %d oracles; the rule removed something in %d of them" % (n, 2 ** nbits, changed))
    R.meta[rid] = {"programs": n, "oracles_per_program": 2 ** nbits}


def empty_do_rule(R, ctx, rid="C01.empty-do"):
    """remove_empty_do as a whole: a `do` goes only when nothing is left inside it."""
    import itertools
    from .. import peval, astmodel
    from ..peval import make, UNKNOWN
    lib = ctx.lib
    R.rule(rid, "the rule whose processor lives beside it in rules/empty_do.rs, evaluated as a whole (its flawless_process: visitor walk and "
                "fix-point loop) on `<do X end> after()` inside a function body, a loop and at top level, for every X of a recursive domain "
                "(empty / break / return / continue / a call / nested do blocks of these, 2 levels / empty do followed by break): the tree "
                "left equals the reference -- a `do` disappears exactly when its block, cleaned the same way, has no statement and no last "
                "statement. `do break end`, `do return end`, `do continue end` change control flow when they go")
    B = astmodel.Builder(lib)
    rules = [f for k, f in lib.fns.items() if k.endswith("FlawlessRule>::flawless_process") and f.get("file", "").endswith("rules/empty_do.rs") and thir.body_of(f)]
    if not R.require(rid, "anchor:rule", not B.missing and len(rules) == 1, "", "the rule of rules/empty_do.rs: %s" % [f["path"] for f in rules]):
        return
    fn = rules[0]
    leaves = {"": lambda: B.block(), "break": lambda: B.block([], B.brk()), "return": lambda: B.block([], B.ret()),
              "continue": lambda: B.block([], B.cont()), "f()": lambda: B.block([B.mark("f")])}
    inners = dict(leaves)
    for n, mk in leaves.items():
        inners["do %s end" % n] = lambda mk=mk: B.block([B.do(mk())])
        inners["do end do %s end" % n] = lambda mk=mk: B.block([B.do(B.block()), B.do(mk())])
        inners["do do %s end end" % n] = lambda mk=mk: B.block([B.do(B.block([B.do(mk())]))])
        inners["do end %s" % n] = lambda mk=mk: (lambda b: (b.fields["statements"].insert(0, B.do(B.block())), b)[1])(mk())
    wraps = {"top": lambda d: B.block([d, B.mark("after")]),
             "while": lambda d: B.block([B.while_("c", B.block([d, B.mark("after")]))]),
             "function": lambda d: B.block([B.local_function("g", B.block([d, B.mark("after")]))])}

    def clean(b):
        b = astmodel._unbox(b)
        keep = []
        for st in b.fields["statements"]:
            node = astmodel._unbox(st.fields["0"])
            for k in ("block",):
                if isinstance(node, peval.Struct) and k in node.fields:
                    clean(node.fields[k])
            if st.variant == "Do":
                inner = astmodel._unbox(node.fields["block"])
                ls = inner.fields.get("last_statement")
                if not inner.fields["statements"] and not (isinstance(ls, peval.Enum) and ls.variant == "Some"):
                    continue
            keep.append(st)
        b.fields["statements"][:] = keep
    bad, n = [], 0
    for (wn, wrap), (iname, mk) in itertools.product(wraps.items(), inners.items()):
        got, want = wrap(B.do(mk())), wrap(B.do(mk()))
        clean(want)
        pe = peval.PEval(lib, ctx.an, fuel=3000000, max_depth=80)
        try:
            pe.call_fn(fn, [make(lib, fn["self_tys"]), got, UNKNOWN])
            text = astmodel.show(got)
        except peval.OutOfFuel:
            text = None
        n += 1
        if pe.unknown_reasons or text != astmodel.show(want):
            bad.append(("%s: do %s end" % (wn, iname), pe.unknown_reasons[:2] or text, astmodel.show(want)))
    R.ob(rid, "rule|equals-reference", not bad, ctx.where(fn), "%d trees: only blocks with nothing left in them are removed" % n if not bad else
         "%s -> %r, the reference leaves %r (%d of %d trees differ)" % (bad[0][0], bad[0][1], bad[0][2], len(bad), n))
    R.require(rid, "floor:trees", n >= 60, "", "%d trees evaluated" % n)


def run(R, ctx):
    R.explanation = (
        "Guard-before-act and contradiction rules on typed THIR for the three mechanisms the property anchors: side-effect analysis before "
        "anything evaluated is dropped, multi-value analysis before a sub-expression is hoisted, order-preserving accumulation of kept "
        "expressions; plus visitor reachability and the default-rule list. Behavioural equivalence of the rewrites is not decided. Decision / transfer functions among these are decided by finite-domain evaluation of their typed tree (sa/peval.py): every point of a small abstract domain is evaluated and compared with the reference; nothing is sampled and no program input exists."
    )
    R.assumptions += ["has_side_effects / can_return_multiple_values / evaluate are trusted as analyses here; their skeleton is checked under C08",
                      "guard polarity is checked for the if/else and `!guard` idioms the repository uses"]
    guard(R, ctx)
    hoist(R, ctx)
    c17.eval_order(R, ctx, "C01.order")
    # the default rules that drop or rename variables (remove_unused_variable, rename_variables, ...) are driven by the scope visitors:
    # Lua's visibility rules as event-order constraints (shared with C09.order)
    from . import c09
    index_key_dropped(R, ctx)
    c09.order(R, ctx, "C01.scope")
    # rename_variables is one of the default rules: its name bookkeeping (C09.pool) and the distinctness of live names (C09.distinct)
    c09.pool(R, ctx, rid_override="C01.rename")
    c09.distinct_names(R, ctx, rid="C01.rename-distinct")
    reach_and_list(R, ctx)
    from .. import loops
    loops.index_removal_rule(R, ctx, "C01.index")
    from . import c08
    c08.if_effects(R, ctx, "C01.if-effects")
    unreachable_code(R, ctx)
    empty_do_rule(R, ctx)

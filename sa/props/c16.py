"""C16 Optional refactoring rules preserve program behaviour (small structural part).

Decided (the guards the anchors name):
  C16.merge   group_local_assignment::should_merge: refuses unless the first statement has as many
              values as variables (or no value at all) -- decision table over the orderings
              {<,=,>} x {no value?}; the merge is control-dependent on a FindVariables walk over
              *all* values of the second statement, seeded with *all* variables of the first     [T4+T7]
  C16.local   convert_local_function_to_assign converts only when the name is a parameter or a
              FindVariables walk over the body found no use of it                                 [T7]
  C16.self    convert_function_to_assignment prepends `self` exactly under has_method()           [T7]
  C16.receiver remove_method_call duplicates the receiver only for effect-free variants           [T4 subset]
  C16.sqrt    convert_square_root_call (scope-aware) is driven by a scope-tracking visitor        [T8]
Not decided: semantics of the merged/converted code beyond these guards.
"""
from .. import thir, tables, guards, absint
from ..thir import callee_of
from ..peval import none as peval_none
from . import c05, c06

EXPR = "nodes::expressions::Expression"


class OrderInterp(absint.Interp):
    """absint.Interp that also decides integer comparisons between two named terms under a fixed ordering."""

    def __init__(self, fa, ordering, zero, atom=None):
        absint.Interp.__init__(self, atom or (lambda e: None), lambda c: None)
        self.fa = fa
        self.ordering = ordering  # '<' '=' '>' for (variables_len, values_len)
        self.zero = zero          # values_len == 0 ?

    def term(self, e):
        names = {c.get("fname") for c in self.fa.source_calls(e)}
        if e.get("k") == "Lit":
            return ("lit", e.get("v"))
        if "variables_len" in names and "values_len" not in names:
            return ("vars",)
        if "values_len" in names and "variables_len" not in names:
            return ("vals",)
        return None

    def cond(self, e, path):
        k = e.get("k")
        if k == "Binary" and e.get("op") in ("Gt", "Lt", "Ge", "Le", "Eq", "Ne"):
            a, b = self.term(e["l"]), self.term(e["r"])
            if a and b:
                op = e["op"]
                if {a[0], b[0]} == {"vars", "vals"}:
                    o = self.ordering if a[0] == "vars" else {"<": ">", ">": "<", "=": "="}[self.ordering]
                    val = {"Gt": o == ">", "Lt": o == "<", "Ge": o in (">", "="), "Le": o in ("<", "="), "Eq": o == "=", "Ne": o != "="}[op]
                    return [(val, path)]
                if {a[0], b[0]} == {"vals", "lit"} and ("lit", "0") in (a, b):
                    if op in ("Eq", "Ne"):
                        return [((self.zero if op == "Eq" else not self.zero), path)]
        return absint.Interp.cond(self, e, path)


def merge(R, ctx):
    """group_local::should_merge as a decision function, by finite-domain evaluation."""
    import itertools
    from .. import peval
    from ..peval import Enum, Struct, UNKNOWN
    rid = "C16.merge"
    lib = ctx.lib
    R.rule(rid, "group_local::should_merge, evaluated from its typed tree on `local <1..3 names> = <0..3 values>` followed by a declaration with "
                "up to two values, for every choice of which next value mentions which declared name: the answer is false whenever the first "
                "statement's value count is neither 0 nor its variable count (merging would shift which value initialises which variable), and "
                "false whenever ANY value of the next statement (first, middle or last) mentions ANY variable of the first one")
    fn = lib.fn("rules::group_local::GroupLocalProcessor::should_merge")
    if not R.require(rid, "anchor:should_merge", fn is not None, "", "not found"):
        return
    VA = "nodes::statements::local_assign::VariableAssignment"
    TI = "nodes::typed_identifier::TypedIdentifier"
    va = lib.adts.get(VA)
    have = {f["name"] for v in va["variants"] for f in v["fields"]} if va else set()
    if not R.require(rid, "anchor:VariableAssignment-fields", {"variables", "values"} <= have, ctx.adt_where(VA) if va else "", "fields of VariableAssignment: %s" % sorted(have)):
        return
    names_all = ["a", "b", "c"]
    variants = [v["name"] for v in lib.adts[EXPR]["variants"]]
    ID = "nodes::identifier::Identifier"

    def ident(x):
        # TypedIdentifier { name: Identifier { name: String } } (shape taken from the ADT metadata)
        ti = lib.adts.get(TI)
        inner_is_ident = any(f["name"] == "name" and ID in f.get("tys", "") for v in (ti["variants"] if ti else []) for f in v["fields"])
        return Struct(TI, {"name": Struct(ID, {"name": x}) if inner_is_ident else x})
    n = 0
    bad_count, bad_usage, unknown = [], [], []
    for nv in (1, 2, 3):
        for nval in (0, 1, 2, 3):
            decl = names_all[:nv]
            first_vals = [Enum(EXPR, "Nil", {"#uses": ()}) for _ in range(nval)]
            for nnext in (1, 2):
              # which declared name each value of `next` mentions (None = none); the mentioning value takes every Expression kind
              # once (a function value mentions a captured variable just as well as a call argument does)
              for uses in itertools.product([None] + decl, repeat=nnext):
                for kind in (variants if (nv, nval) in ((1, 1), (2, 0)) and any(uses) else ["Identifier"]):
                    first = Struct(VA, {"variables": [ident(x) for x in decl], "values": list(first_vals)})
                    nxt = Struct(VA, {"variables": [ident("z")], "values": [Enum(EXPR, kind if u else "Identifier", {"#uses": (u,) if u else ()}) for u in uses]})
                    found = {}

                    def hook(pe, path, fname, args, node):
                        if fname == "visit_expression" and len(args) == 2 and isinstance(args[0], Enum) and "#uses" in args[0].fields:
                            finder = args[1]
                            seeded = finder if isinstance(finder, list) else (finder.fields.get("variables") if isinstance(finder, Struct) else None)
                            if isinstance(seeded, peval.Iter):
                                seeded = seeded.rest()
                            if not isinstance(seeded, list):
                                return UNKNOWN
                            if set(args[0].fields["#uses"]) & set(seeded):
                                found[id(finder)] = True
                                if isinstance(finder, Struct) and "usage_found" in finder.fields:
                                    finder.fields["usage_found"] = True
                            return peval.UNIT
                        if fname == "has_found_usage" and len(args) == 1 and isinstance(args[0], list):
                            return found.get(id(args[0]), False)
                        return NotImplemented
                    pe = peval.PEval(lib, ctx.an, hook)
                    try:
                        v = pe.call_fn(fn, [Struct("#Processor", {}), first, nxt])
                    except peval.OutOfFuel:
                        v = UNKNOWN
                    n += 1
                    case = "local %s = <%d values>; next values mention %s (as Expression::%s)" % (",".join(decl), nval, list(uses), kind)
                    must_refuse_count = nval != 0 and nval != nv
                    must_refuse_usage = any(u is not None for u in uses)
                    if v is UNKNOWN or not isinstance(v, bool):
                        unknown.append((case, pe.unknown_reasons[:1]))
                    elif must_refuse_count and v is not False:
                        bad_count.append(case)
                    elif must_refuse_usage and v is not False:
                        bad_usage.append(case)
    R.require(rid, "floor:cells", n >= 100, ctx.where(fn), "%d cells evaluated" % n)
    R.ob(rid, "should_merge|table-established", not unknown, ctx.where(fn), "every cell evaluates to a boolean" if not unknown else "not established for %s %s" % unknown[0])
    R.ob(rid, "should_merge|unbalanced-first-declaration-refused", not bad_count, ctx.where(fn),
         "refused whenever values != 0 and values != variables" if not bad_count else "merge accepted for: %s" % bad_count[0])
    R.ob(rid, "should_merge|all-values-of-next-scanned", not bad_usage, ctx.where(fn),
         "refused whenever any value of the next statement mentions a declared variable" if not bad_usage else "merge accepted for: %s" % bad_usage[0])
    # the merge itself is guarded
    fs = lib.fn("rules::group_local::GroupLocalProcessor::filter_statements")
    if R.require(rid, "anchor:filter_statements", fs is not None, "", "not found"):
        fa2 = ctx.an.fa(fs["path"])
        M = guards.Mentions(ctx.an)
        merges = [c for c in thir.calls(fs) if c.get("fname") == "merge"]
        R.require(rid, "filter_statements|anchor:merge", len(merges) >= 1, ctx.where(fs), "no merge call")
        for c in merges:
            ok = any(k == "then" and M.mentions(fa2, cond, guards.is_call_named("should_merge"), 0) for cond, k in guards.conditions_of(fa2, c))
            R.ob(rid, "filter_statements|merge-under-should_merge", ok, ctx.where(fs, c.get("ln")), "merge is on the true branch of should_merge: %s" % ok)


def local_function(R, ctx):
    """no_local_function's process_statement as a transfer function on an abstract `local function f(<params>) <body> end`."""
    from .. import peval
    from ..peval import Enum, Struct, UNKNOWN, make
    rid = "C16.local"
    lib = ctx.lib
    R.rule(rid, "convert_local_function_to_assign's process_statement, evaluated from its typed tree on `local function f(p..) body end` for "
                "every combination of {a parameter named f: yes/no} x {the body mentions f: yes/no}: a function whose body refers to its own "
                "name (and no parameter shadows it) stays a `local function` -- as `local f = function` the reference would miss the local; "
                "the finder must be asked about the function's own name and about its own body")
    fn = lib.fn("<rules::no_local_function::Processor as process::node_processor::NodeProcessor>::process_statement")
    if not R.require(rid, "anchor", fn is not None, "", "not found"):
        return
    STMT = "nodes::statements::Statement"
    st = lib.adts.get(STMT)
    lf = [f["tys"] for v in (st["variants"] if st else []) if v["name"] == "LocalFunction" for f in v["fields"]]
    if not R.require(rid, "anchor:LocalFunction", len(lf) == 1, "", "Statement::LocalFunction payload"):
        return
    LF = lf[0]
    while LF.startswith("alloc::boxed::Box<"):
        LF = LF[len("alloc::boxed::Box<"):-1]
    lfa = lib.adts.get(LF)
    have = {f["name"] for v in lfa["variants"] for f in v["fields"]} if lfa else set()
    if not R.require(rid, "anchor:fields", {"identifier", "block", "parameters"} <= have, ctx.adt_where(LF) if lfa else "", "fields of %s: %s" % (LF, sorted(have))):
        return
    ID, TI, BLOCK = "nodes::identifier::Identifier", "nodes::typed_identifier::TypedIdentifier", "nodes::block::Block"
    n = 0
    for shadow in (False, True):
        for mentions in (False, True):
            asked = []
            body = make(lib, BLOCK, {"#body-of": "f"})
            params = [make(lib, TI, {"name": make(lib, ID, {"name": "x"})})]
            if shadow:
                params.append(make(lib, TI, {"name": make(lib, ID, {"name": "f"})}))
            func = make(lib, LF, {"identifier": make(lib, ID, {"name": "f"}), "block": body, "parameters": params})
            stmt = Enum(STMT, "LocalFunction", {"0": func})

            def hook(pe, path, fname, args, node, mentions=mentions, asked=asked):
                if fname in ("visit_block", "visit_statement", "visit_expression") and len(args) == 2:
                    target, finder = args
                    names = finder.fields.get("variables") if isinstance(finder, Struct) else finder
                    names = names.rest() if isinstance(names, peval.Iter) else names
                    asked.append((isinstance(target, Struct) and target.fields.get("#body-of"), list(names) if isinstance(names, list) else None))
                    if mentions and isinstance(target, Struct) and target.fields.get("#body-of") == "f" and isinstance(names, list) and "f" in names:
                        if isinstance(finder, Struct) and "usage_found" in finder.fields:
                            finder.fields["usage_found"] = True
                        else:
                            return UNKNOWN
                    return peval.UNIT
                return NotImplemented
            pe = peval.PEval(lib, ctx.an, hook)
            try:
                pe.call_fn(fn, [Struct("#Processor", {}), stmt])
            except peval.OutOfFuel:
                pass
            n += 1
            key = "process_statement|param-named-f=%s,body-mentions-f=%s" % (shadow, mentions)
            if mentions and not shadow:
                ok = stmt.variant == "LocalFunction"
                R.ob(rid, key, ok and not pe.unknown_reasons, ctx.where(fn),
                     "recursive function kept as `local function`" if ok and not pe.unknown_reasons else
                     ("converted to `local f = function..`: the body's reference to f no longer sees the local" if not ok else "not established (%s)" % pe.unknown_reasons[:2]))
            else:
                R.ob(rid, key, stmt.variant in ("LocalFunction", "LocalAssign"), ctx.where(fn), "statement is now Statement::%s" % stmt.variant, nontrivial=False)
            if not shadow:
                ok = any(a_[0] == "f" and a_[1] == ["f"] for a_ in asked)
                R.ob(rid, "process_statement|finder-for-own-name-over-own-body|mentions=%s" % mentions, ok, ctx.where(fn),
                     "the finder seeded with the function's name walks the function's body: %s" % (asked or "no walk"))
    R.require(rid, "floor", n >= 4, ctx.where(fn), "%d scenarios" % n)


def self_param(R, ctx):
    rid = "C16.self"
    lib = ctx.lib
    R.rule(rid, "global_function_to_assign::convert inserts the `self` parameter at index 0, exactly on the true branch of name.has_method(), "
                "and moves both the block and the parameters of the statement into the new function expression")
    fn = lib.fn("rules::global_function_to_assign::Processor::convert")
    if not R.require(rid, "anchor", fn is not None, "", "not found"):
        return
    fa = ctx.an.fa(fn["path"])
    ins = [c for c in thir.calls(fn) if c.get("fname") == "insert" and any(x.get("k") == "Lit" and x.get("v") == '"self"' for x in thir.walk(c))]
    R.require(rid, "anchor:self-insert", len(ins) == 1, ctx.where(fn), "%d insertions of `self`" % len(ins))
    for c in ins:
        idx0 = c["args"][1].get("k") == "Lit" and c["args"][1].get("v") == "0"
        R.ob(rid, "convert|self-first", idx0, ctx.where(fn, c.get("ln")), "`self` inserted at index 0: %s" % idx0)
        conds = list(guards.conditions_of(fa, c))
        ok = any(k == "then" and cond.get("k") == "Call" and cond.get("fname") == "has_method" for cond, k in conds) and len([1 for cond, k in conds if k in ("then", "else")]) == 1
        R.ob(rid, "convert|self-iff-method", ok, ctx.where(fn, c.get("ln")), "guarded exactly by name.has_method(): %s" % ok)
    swaps = [c for c in thir.calls(fn) if c.get("fname") == "swap"]
    moved = set()
    for c in swaps:
        for a in c["args"]:
            for y in fa.source_calls(a):
                if y.get("fname") in ("mutate_block", "mutate_parameters"):
                    moved.add(y["fname"])
    R.ob(rid, "convert|moves-block-and-parameters", moved == {"mutate_block", "mutate_parameters"}, ctx.where(fn), "moved: %s" % sorted(moved))
    R.ob(rid, "convert|keeps-variadic", any(c.get("fname") == "set_variadic" for c in thir.calls(fn)), ctx.where(fn), "variadic flag copied")


def receiver(R, ctx):
    """remove_method_call as a transfer function on abstract calls `(<V>):m(args)` / `name:m(args)`."""
    import copy
    from .. import peval
    from ..peval import Enum, Struct, UNKNOWN, NONE, some
    rid = "C16.receiver"
    lib = ctx.lib
    R.rule(rid, "remove_method_call's process_function_call, evaluated from its typed tree on `(<V>):m()` / `(<V>):m(x)` for every Expression "
                "variant V and on `name:m()`: whenever the call is rewritten (the method is gone) the receiver now occurs twice, so V must be a "
                "variant for which Evaluator::has_side_effects answers the constant false, the copy passed as first argument must be followed "
                "by the original arguments, and a multi-valued receiver (`...`, a call) must keep its parentheses there (as last argument it "
                "would pass every value)")
    fn = lib.fn("<rules::remove_method_call::Processor as process::node_processor::NodeProcessor>::process_function_call")
    hse = lib.fn("process::evaluator::Evaluator::has_side_effects")
    if not R.require(rid, "anchor", fn is not None and hse is not None, "", "process_function_call / has_side_effects not found"):
        return
    N = "nodes::"
    PREFIX, FC, PAR = N + "expressions::prefix::Prefix", N + "function_call::FunctionCall", N + "expressions::parenthese::ParentheseExpression"
    ARGS, TUP, ID = N + "arguments::Arguments", N + "arguments::TupleArguments", N + "identifier::Identifier"
    fca = lib.adts.get(FC)
    have = {f["name"] for v in fca["variants"] for f in v["fields"]} if fca else set()
    if not R.require(rid, "anchor:FunctionCall-fields", {"prefix", "arguments", "method"} <= have, ctx.adt_where(FC) if fca else "", "fields: %s" % sorted(have)):
        return
    variants = [v["name"] for v in lib.adts[EXPR]["variants"]]
    MULTI = {"Call", "VariableArguments"}

    def effect_free(V):
        pe = peval.PEval(lib, ctx.an)
        try:
            return pe.call_fn(hse, [Struct("#Evaluator", {}), Enum(EXPR, V, {"0": UNKNOWN})]) is False
        except peval.OutOfFuel:
            return False

    def mentions(v, tag="#recv"):
        out = []

        def rec(x):
            if isinstance(x, (Enum, Struct)):
                if x.fields.get("#tag") == tag:
                    out.append(x)
                    return
                for f in x.fields.values():
                    rec(f)
            elif isinstance(x, (list, tuple)):
                for y in x:
                    rec(y)
        rec(v)
        return out
    n = rewritten = 0
    for V in variants + ["#identifier-prefix"]:
        for nargs in (0, 1):
            if V == "#identifier-prefix":
                prefix = Enum(PREFIX, "Identifier", {"0": Struct(ID, {"name": "recv", "token": NONE, "#tag": "#recv"})})
            else:
                prefix = Enum(PREFIX, "Parenthese", {"0": Struct(PAR, {"expression": Enum(EXPR, V, {"0": Struct("#payload", {"#tag": "#recv"})}), "tokens": NONE})})
            extra = [Enum(EXPR, "Identifier", {"#tag": "#arg"})][:nargs]
            call = Struct(FC, {"prefix": prefix, "arguments": Enum(ARGS, "Tuple", {"0": Struct(TUP, {"values": list(extra), "tokens": NONE})}),
                               "method": some(Struct(ID, {"name": "m", "token": NONE})), "tokens": NONE})
            for f in have - set(call.fields):
                call.fields[f] = peval_none()
            pe = peval.PEval(lib, ctx.an)
            try:
                pe.call_fn(fn, [Struct("#Processor", {}), call])
            except peval.OutOfFuel:
                pass
            n += 1
            m = call.fields.get("method")
            key = "%s|args=%d" % (V, nargs)
            if isinstance(m, Enum) and m.variant == "Some":
                R.ob(rid, "process_function_call|%s" % key, True, ctx.where(fn), "left as a method call", nontrivial=False)
                continue
            if not (isinstance(m, Enum) and m.variant == "None"):
                R.ob(rid, "process_function_call|%s" % key, False, ctx.where(fn), "outcome not established (%s)" % "; ".join(pe.unknown_reasons[:2]))
                continue
            rewritten += 1
            problems = []
            if V != "#identifier-prefix" and not effect_free(V):
                problems.append("receiver Expression::%s is duplicated but has_side_effects is not constant-false for it: it is evaluated twice" % V)
            args = call.fields.get("arguments")
            vals = None
            if isinstance(args, Enum) and isinstance(args.fields.get("0"), Struct):
                vals = args.fields["0"].fields.get("values")
            if not isinstance(vals, list) or len(vals) != nargs + 1:
                problems.append("argument list after the rewrite is %s" % (vals if not isinstance(vals, list) else "%d long" % len(vals)))
            else:
                if len(mentions(vals[0])) != 1:
                    problems.append("first argument is not the receiver")
                if mentions(vals[1:], "#arg") != extra and nargs:
                    problems.append("original arguments lost or reordered")
                if V in MULTI and nargs == 0 and not (isinstance(vals[0], Enum) and vals[0].variant == "Parenthese"):
                    problems.append("receiver Expression::%s is multi-valued; the inserted copy is the bare expression: `(...):m()` becomes `(...).m(...)` and passes every value" % V)
            if len(mentions(call.fields.get("prefix"))) != 1:
                problems.append("the new prefix does not index the receiver")
            R.ob(rid, "process_function_call|%s" % key, not problems, ctx.where(fn), "; ".join(problems) if problems else "rewritten to receiver.m(receiver, ..) soundly")
    R.require(rid, "floor", n >= 40 and rewritten >= 8, ctx.where(fn), "%d shapes evaluated, %d rewritten" % (n, rewritten))


def finder_monotone(R, ctx):
    """The name finder the guards rely on over-approximates: once built, it never forgets a searched name nor a usage it has seen."""
    rid = "C16.finder"
    lib = ctx.lib
    FV = "process::processors::find_identifier::FindVariables"
    R.rule(rid, "who-may-write rule on FindVariables (the search that C16.merge and C16.local trust to find every textual use of a name): in "
                "its NodeProcessor callbacks the list of searched names is never shrunk or reassigned (no retain / remove / pop / clear / "
                "truncate / drain / assignment), and the found flag is only ever set from a comparison with the searched names (it cannot be "
                "reset). A finder that drops a name at a redeclaration ignores scope ends and initialisers and misses real uses")
    a = lib.adts.get(FV)
    if not R.require(rid, "anchor:FindVariables", a is not None, "", "not found"):
        return
    names = [f["name"] for f in a["variants"][0]["fields"] if f["tys"].startswith("alloc::vec::Vec<") or "Set<" in f["tys"]]
    flags = [f["name"] for f in a["variants"][0]["fields"] if f["tys"] == "bool"]
    R.require(rid, "anchor:fields", len(names) >= 1 and len(flags) >= 1, ctx.adt_where(FV), "name containers %s, flags %s" % (names, flags))
    cbs = [f for k, f in lib.fns.items() if k.startswith("<" + FV) and " as process::node_processor::NodeProcessor>::" in k and thir.body_of(f)]
    R.require(rid, "floor:callbacks", len(cbs) >= 1, "", "%d NodeProcessor callbacks" % len(cbs))
    SHRINK = {"retain", "retain_mut", "remove", "swap_remove", "pop", "clear", "truncate", "drain", "take", "dedup", "split_off", "extract_if"}
    for f in cbs:
        fa = ctx.an.fa(f["path"])
        bad = []
        for n in thir.walk(thir.body_of(f)):
            if n.get("k") == "Call" and n.get("fname") in SHRINK and n["args"] and callee_of(n) not in lib.fns:
                if any(o[0] == FV and o[1] in names for o in fa.origins(n["args"][0])):
                    bad.append("%s on the searched names" % n["fname"])
            if n.get("k") == "Call" and n.get("fname") in ("take", "replace", "swap") and "mem::" in (n.get("fn") or "") and n["args"]:
                if any(o[0] == FV and o[1] in names for o in fa.origins(n["args"][0])):
                    bad.append("mem::%s on the searched names" % n["fname"])
            if n.get("k") in ("Assign", "AssignOp") and n["l"].get("k") == "Field" and n["l"].get("adt") == FV:
                if n["l"].get("f") in names:
                    bad.append("assignment to the searched names")
                elif n["l"].get("f") in flags:
                    r = n["r"]
                    if r.get("k") == "Lit" and r.get("v") == "false":
                        bad.append("the found flag is reset")
        R.ob(rid, "%s|monotone" % f["path"].split("::")[-1], not bad, ctx.where(f), "; ".join(bad) if bad else "names and flag only grow")


def group_values(R, ctx, rid="C16.group-values"):
    """group_local_assignment as a whole: after merging, every variable holds what it held and the calls run in the same order."""
    import itertools
    from .. import peval, astmodel
    from ..peval import make, Enum, UNKNOWN, NONE
    lib = ctx.lib
    R.rule(rid, "the rule of rules/group_local.rs, evaluated as a whole on two consecutive `local` statements with 1..3 variables and every "
                "value list of length 0..2 over {a plain value, a call}: the statements left, read with Lua's adjustment rule (every value "
                "but the last gives one result, the last call gives all of its results, missing values are nil, extra values are evaluated "
                "and dropped), bind every variable to the same (symbolic) value and evaluate the calls in the same order as the two "
                "statements did. A `nil` appended after a last call truncates it; a missing `nil` shifts the values of the second statement")
    B = astmodel.Builder(lib)
    rules = [f for k, f in lib.fns.items() if k.endswith("FlawlessRule>::flawless_process") and f.get("file", "").endswith("rules/group_local.rs") and thir.body_of(f)]
    if not R.require(rid, "anchor:rule", not B.missing and len(rules) == 1, "", "the rule of rules/group_local.rs: %s" % [f["path"] for f in rules]):
        return
    fn = rules[0]

    def local(names, kinds, tag):
        vs = []
        for n in names:
            t = B.mk(B.TYPED, name=B.ident(n), token=NONE)
            t.fields["type"] = peval_none()
            vs.append(t)
        vals = []
        for i, k in enumerate(kinds):
            if k == "K":
                vals.append(B.var("k%s%d" % (tag, i)))
            else:
                vals.append(Enum(B.EXPR, "Call", {"0": B.mark("f%s%d" % (tag, i)).fields["0"]}))
        return B.stmt("LocalAssign", B.mk(B.LOCAL, variables=vs, values=vals, tokens=NONE))

    def meaning(block):
        """(variable -> symbolic value, calls in evaluation order), or None when a statement cannot be read"""
        env, trace = {}, []
        stmts = astmodel._unbox(block).fields.get("statements")
        if not isinstance(stmts, list):
            return None
        for st in stmts:
            if not isinstance(st, peval.Enum) or st.variant != "LocalAssign":
                return None
            node = astmodel._unbox(st.fields["0"])
            names = [astmodel.name_of(t) for t in node.fields["variables"]]
            results = []
            vals = node.fields["values"]
            for i, e in enumerate(vals):
                e = astmodel._unbox(e)
                if not isinstance(e, peval.Enum):
                    return None
                if e.variant == "Identifier":
                    got = [astmodel.name_of(e.fields["0"])]
                elif e.variant == "Call":
                    f = astmodel.name_of(astmodel._unbox(e.fields["0"]).fields.get("prefix"))
                    trace.append(f)
                    got = ["%s#%d" % (f, j) for j in (1, 2, 3)]
                elif e.variant == "Nil":
                    got = ["nil"]
                else:
                    return None
                results += got if i == len(vals) - 1 else got[:1]
            for i, n in enumerate(names):
                env[n] = results[i] if i < len(results) else "nil"
        return env, trace
    lists = [()] + [(a,) for a in "KF"] + [(a, b) for a in "KF" for b in "KF"]
    names1, names2 = ("a1", "a2", "a3"), ("b1", "b2", "b3")
    bad, n = [], 0
    for n1, v1, n2, v2 in itertools.product((1, 2, 3), lists, (1, 2, 3), lists):
        mk = lambda: B.block([local(names1[:n1], v1, "x"), local(names2[:n2], v2, "y")])
        want = meaning(mk())
        got = mk()
        pe = peval.PEval(lib, ctx.an, fuel=3000000, max_depth=80)
        try:
            pe.call_fn(fn, [make(lib, fn["self_tys"]), got, UNKNOWN])
            m = meaning(got)
        except peval.OutOfFuel:
            m = None
        n += 1
        if pe.unknown_reasons or m != want:
            src = "local %s%s local %s%s" % (",".join(names1[:n1]), " = " + ",".join(v1) if v1 else "", ",".join(names2[:n2]), " = " + ",".join(v2) if v2 else "")
            bad.append((src, pe.unknown_reasons[:3] or (astmodel.show(got) if m is not None else 'unreadable'), m, want))
    R.ob(rid, "rule|same-bindings", not bad, ctx.where(fn), "%d statement pairs: bindings and call order kept" % n if not bad else
         "`%s` (K = a value, F = a call) becomes %r: bindings %r, expected %r (%d of %d pairs differ)" % (bad[0][0], bad[0][1], bad[0][2], bad[0][3], len(bad), n))
    R.require(rid, "floor:pairs", n >= 400, "", "%d statement pairs evaluated" % n)


def run(R, ctx):
    R.explanation = (
        "The four anchored guards of the optional refactorings as guard-before-act / decision-table / subset rules on typed THIR, "
        "plus the scope-visitor typestate for convert_square_root_call. Necessary conditions only; the refactorings' full semantics "
        "are not decided. Decision / transfer functions among these are decided by finite-domain evaluation of their typed tree (sa/peval.py): every point of a small abstract domain is evaluated and compared with the reference; nothing is sampled and no program input exists."
    )
    R.assumptions += ["FindVariables is trusted to find every textual use of a name (it over-approximates: shadowed uses count as uses)"]
    finder_monotone(R, ctx)
    merge(R, ctx)
    group_values(R, ctx)
    local_function(R, ctx)
    self_param(R, ctx)
    receiver(R, ctx)
    c05.shadow_rule(R, ctx, "C16.sqrt", ("rules::convert_square_root_call::Processor",), "convert_square_root_call")

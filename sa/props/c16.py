"""C16 Optional refactoring rules preserve program behaviour (small structural part).

Decided (the guards the anchors name):
  C16.merge   group_local_assignment::should_merge: refuses unless the first statement has as many
              values as variables (or no value at all) -- decision table over the orderings
              {<,=,>} x {no value?}; the merge is control-dependent on a FindVariables walk over
              *all* values of the second statement, seeded with *all* variables of the first     [T4+T7]
  C16.local   convert_local_function_to_assign converts only when the name is a parameter or a
              FindVariables walk over the body found no use of it                                 [T7]
  C16.self    convert_function_to_assignment prepends `self` exactly under has_method()           [T7]
  C16.receiver remove_method_call duplicates the receiver only for effect-free variants           [T4 subset]
  C16.sqrt    convert_square_root_call (scope-aware) is driven by a scope-tracking visitor        [T8]
Not decided: semantics of the merged/converted code beyond these guards.
"""
from .. import thir, tables, guards, absint
from ..thir import callee_of
from . import c05, c06

EXPR = "nodes::expressions::Expression"


class OrderInterp(absint.Interp):
    """absint.Interp that also decides integer comparisons between two named terms under a fixed ordering."""

    def __init__(self, fa, ordering, zero, atom=None):
        absint.Interp.__init__(self, atom or (lambda e: None), lambda c: None)
        self.fa = fa
        self.ordering = ordering  # '<' '=' '>' for (variables_len, values_len)
        self.zero = zero          # values_len == 0 ?

    def term(self, e):
        names = {c.get("fname") for c in self.fa.source_calls(e)}
        if e.get("k") == "Lit":
            return ("lit", e.get("v"))
        if "variables_len" in names and "values_len" not in names:
            return ("vars",)
        if "values_len" in names and "variables_len" not in names:
            return ("vals",)
        return None

    def cond(self, e, path):
        k = e.get("k")
        if k == "Binary" and e.get("op") in ("Gt", "Lt", "Ge", "Le", "Eq", "Ne"):
            a, b = self.term(e["l"]), self.term(e["r"])
            if a and b:
                op = e["op"]
                if {a[0], b[0]} == {"vars", "vals"}:
                    o = self.ordering if a[0] == "vars" else {"<": ">", ">": "<", "=": "="}[self.ordering]
                    val = {"Gt": o == ">", "Lt": o == "<", "Ge": o in (">", "="), "Le": o in ("<", "="), "Eq": o == "=", "Ne": o != "="}[op]
                    return [(val, path)]
                if {a[0], b[0]} == {"vals", "lit"} and ("lit", "0") in (a, b):
                    if op in ("Eq", "Ne"):
                        return [((self.zero if op == "Eq" else not self.zero), path)]
        return absint.Interp.cond(self, e, path)


def merge(R, ctx):
    """group_local::should_merge as a decision function, by finite-domain evaluation."""
    import itertools
    from .. import peval
    from ..peval import Enum, Struct, UNKNOWN
    rid = "C16.merge"
    lib = ctx.lib
    R.rule(rid, "group_local::should_merge, evaluated from its typed tree on `local <1..3 names> = <0..3 values>` followed by a declaration with "
                "up to two values, for every choice of which next value mentions which declared name: the answer is false whenever the first "
                "statement's value count is neither 0 nor its variable count (merging would shift which value initialises which variable), and "
                "false whenever ANY value of the next statement (first, middle or last) mentions ANY variable of the first one")
    fn = lib.fn("rules::group_local::GroupLocalProcessor::should_merge")
    if not R.require(rid, "anchor:should_merge", fn is not None, "", "not found"):
        return
    VA = "nodes::statements::local_assign::VariableAssignment"
    TI = "nodes::typed_identifier::TypedIdentifier"
    va = lib.adts.get(VA)
    have = {f["name"] for v in va["variants"] for f in v["fields"]} if va else set()
    if not R.require(rid, "anchor:VariableAssignment-fields", {"variables", "values"} <= have, ctx.adt_where(VA) if va else "", "fields of VariableAssignment: %s" % sorted(have)):
        return
    names_all = ["a", "b", "c"]
    variants = [v["name"] for v in lib.adts[EXPR]["variants"]]
    ID = "nodes::identifier::Identifier"

    def ident(x):
        # TypedIdentifier { name: Identifier { name: String } } (shape taken from the ADT metadata)
        ti = lib.adts.get(TI)
        inner_is_ident = any(f["name"] == "name" and ID in f.get("tys", "") for v in (ti["variants"] if ti else []) for f in v["fields"])
        return Struct(TI, {"name": Struct(ID, {"name": x}) if inner_is_ident else x})
    n = 0
    bad_count, bad_usage, unknown = [], [], []
    for nv in (1, 2, 3):
        for nval in (0, 1, 2, 3):
            decl = names_all[:nv]
            first_vals = [Enum(EXPR, "Nil", {"#uses": ()}) for _ in range(nval)]
            for nnext in (1, 2):
              # which declared name each value of `next` mentions (None = none); the mentioning value takes every Expression kind
              # once (a function value mentions a captured variable just as well as a call argument does)
              for uses in itertools.product([None] + decl, repeat=nnext):
                for kind in (variants if (nv, nval) in ((1, 1), (2, 0)) and any(uses) else ["Identifier"]):
                    first = Struct(VA, {"variables": [ident(x) for x in decl], "values": list(first_vals)})
                    nxt = Struct(VA, {"variables": [ident("z")], "values": [Enum(EXPR, kind if u else "Identifier", {"#uses": (u,) if u else ()}) for u in uses]})
                    found = {}

                    def hook(pe, path, fname, args, node):
                        if fname == "visit_expression" and len(args) == 2 and isinstance(args[0], Enum) and "#uses" in args[0].fields:
                            finder = args[1]
                            seeded = finder if isinstance(finder, list) else (finder.fields.get("variables") if isinstance(finder, Struct) else None)
                            if isinstance(seeded, peval.Iter):
                                seeded = seeded.rest()
                            if not isinstance(seeded, list):
                                return UNKNOWN
                            if set(args[0].fields["#uses"]) & set(seeded):
                                found[id(finder)] = True
                                if isinstance(finder, Struct) and "usage_found" in finder.fields:
                                    finder.fields["usage_found"] = True
                            return peval.UNIT
                        if fname == "has_found_usage" and len(args) == 1 and isinstance(args[0], list):
                            return found.get(id(args[0]), False)
                        return NotImplemented
                    pe = peval.PEval(lib, ctx.an, hook)
                    try:
                        v = pe.call_fn(fn, [Struct("#Processor", {}), first, nxt])
                    except peval.OutOfFuel:
                        v = UNKNOWN
                    n += 1
                    case = "local %s = <%d values>; next values mention %s (as Expression::%s)" % (",".join(decl), nval, list(uses), kind)
                    must_refuse_count = nval != 0 and nval != nv
                    must_refuse_usage = any(u is not None for u in uses)
                    if v is UNKNOWN or not isinstance(v, bool):
                        unknown.append((case, pe.unknown_reasons[:1]))
                    elif must_refuse_count and v is not False:
                        bad_count.append(case)
                    elif must_refuse_usage and v is not False:
                        bad_usage.append(case)
    R.require(rid, "floor:cells", n >= 100, ctx.where(fn), "%d cells evaluated" % n)
    R.ob(rid, "should_merge|table-established", not unknown, ctx.where(fn), "every cell evaluates to a boolean" if not unknown else "not established for %s %s" % unknown[0])
    R.ob(rid, "should_merge|unbalanced-first-declaration-refused", not bad_count, ctx.where(fn),
         "refused whenever values != 0 and values != variables" if not bad_count else "merge accepted for: %s" % bad_count[0])
    R.ob(rid, "should_merge|all-values-of-next-scanned", not bad_usage, ctx.where(fn),
         "refused whenever any value of the next statement mentions a declared variable" if not bad_usage else "merge accepted for: %s" % bad_usage[0])
    # the merge itself is guarded
    fs = lib.fn("rules::group_local::GroupLocalProcessor::filter_statements")
    if R.require(rid, "anchor:filter_statements", fs is not None, "", "not found"):
        fa2 = ctx.an.fa(fs["path"])
        M = guards.Mentions(ctx.an)
        merges = [c for c in thir.calls(fs) if c.get("fname") == "merge"]
        R.require(rid, "filter_statements|anchor:merge", len(merges) >= 1, ctx.where(fs), "no merge call")
        for c in merges:
            ok = any(k == "then" and M.mentions(fa2, cond, guards.is_call_named("should_merge"), 0) for cond, k in guards.conditions_of(fa2, c))
            R.ob(rid, "filter_statements|merge-under-should_merge", ok, ctx.where(fs, c.get("ln")), "merge is on the true branch of should_merge: %s" % ok)


def local_function(R, ctx):
    rid = "C16.local"
    lib = ctx.lib
    R.rule(rid, "no_local_function: each replacement of the `local function` statement is under has_parameter(name) or under "
                "`!find_usage.has_found_usage()` after DefaultVisitor::visit_block(function block, FindVariables::new(name))")
    fn = lib.fn("<rules::no_local_function::Processor as process::node_processor::NodeProcessor>::process_statement")
    if not R.require(rid, "anchor", fn is not None, "", "not found"):
        return
    fa = ctx.an.fa(fn["path"])
    swaps = [c for c in thir.calls(fn) if c.get("fname") == "swap" and ("#param", 1) in fa.origins(c["args"][0])]
    R.require(rid, "anchor:replacements", len(swaps) >= 1, ctx.where(fn), "%d statement replacements" % len(swaps))
    for i, c in enumerate(swaps):
        conds = list(guards.conditions_of(fa, c))
        by_param = any(k == "then" and any(x.get("fname") == "has_parameter" for x in thir.walk(cond) if x.get("k") == "Call") for cond, k in conds)
        by_usage = any(k == "then" and cond.get("k") == "Unary" and any(x.get("fname") == "has_found_usage" for x in thir.walk(cond) if x.get("k") == "Call") for cond, k in conds)
        R.ob(rid, "process_statement|replacement@%d|guarded" % i, by_param or by_usage, ctx.where(fn, c.get("ln")),
             "guarded by %s" % ("has_parameter(name)" if by_param else "!has_found_usage()" if by_usage else "NOTHING: a recursive local function loses its self reference"))
    # the finder walks the function's own block and is built from its name
    vb = [c for c in thir.calls(fn) if c.get("fname") == "visit_block"]
    ok = any("mutate_block" in [y.get("fname") for y in fa.source_calls(c["args"][0])] for c in vb)
    R.ob(rid, "process_statement|walks-own-body", ok, ctx.where(fn), "FindVariables is run over local_function.mutate_block(): %s" % ok)
    news = [c for c in thir.calls(fn) if c.get("fname") == "new" and "FindVariables" in (c.get("fn") or "")]
    ok = any("get_name" in [y.get("fname") for y in fa.source_calls(c["args"][0])] for c in news)
    R.ob(rid, "process_statement|finder-for-own-name", ok, ctx.where(fn), "FindVariables::new(name of the function): %s" % ok)


def self_param(R, ctx):
    rid = "C16.self"
    lib = ctx.lib
    R.rule(rid, "global_function_to_assign::convert inserts the `self` parameter at index 0, exactly on the true branch of name.has_method(), "
                "and moves both the block and the parameters of the statement into the new function expression")
    fn = lib.fn("rules::global_function_to_assign::Processor::convert")
    if not R.require(rid, "anchor", fn is not None, "", "not found"):
        return
    fa = ctx.an.fa(fn["path"])
    ins = [c for c in thir.calls(fn) if c.get("fname") == "insert" and any(x.get("k") == "Lit" and x.get("v") == '"self"' for x in thir.walk(c))]
    R.require(rid, "anchor:self-insert", len(ins) == 1, ctx.where(fn), "%d insertions of `self`" % len(ins))
    for c in ins:
        idx0 = c["args"][1].get("k") == "Lit" and c["args"][1].get("v") == "0"
        R.ob(rid, "convert|self-first", idx0, ctx.where(fn, c.get("ln")), "`self` inserted at index 0: %s" % idx0)
        conds = list(guards.conditions_of(fa, c))
        ok = any(k == "then" and cond.get("k") == "Call" and cond.get("fname") == "has_method" for cond, k in conds) and len([1 for cond, k in conds if k in ("then", "else")]) == 1
        R.ob(rid, "convert|self-iff-method", ok, ctx.where(fn, c.get("ln")), "guarded exactly by name.has_method(): %s" % ok)
    swaps = [c for c in thir.calls(fn) if c.get("fname") == "swap"]
    moved = set()
    for c in swaps:
        for a in c["args"]:
            for y in fa.source_calls(a):
                if y.get("fname") in ("mutate_block", "mutate_parameters"):
                    moved.add(y["fname"])
    R.ob(rid, "convert|moves-block-and-parameters", moved == {"mutate_block", "mutate_parameters"}, ctx.where(fn), "moved: %s" % sorted(moved))
    R.ob(rid, "convert|keeps-variadic", any(c.get("fname") == "set_variadic" for c in thir.calls(fn)), ctx.where(fn), "variadic flag copied")


def receiver(R, ctx):
    rid = "C16.receiver"
    lib = ctx.lib
    R.rule(rid, "remove_method_call duplicates the receiver (prefix and first argument) only when it is an identifier or a parenthesised "
                "expression whose variant has constant-false has_side_effects")
    free = c06.effect_free_variants(ctx, R, rid)
    fn = lib.fn("<rules::remove_method_call::Processor as process::node_processor::NodeProcessor>::process_function_call")
    if free is None or not R.require(rid, "anchor", fn is not None, "", "not found"):
        return
    n = 0
    for m in tables.matches_on(lib, thir.body_of(fn), EXPR):
        tbl = tables.variant_table(lib, m, EXPR)
        for v, rows in sorted(tbl.items()):
            for c, g, arm in rows:
                if c == "Some":
                    n += 1
                    R.ob(rid, "process_function_call|%s" % v, v in free, ctx.where(fn, m.get("ln")),
                         "receiver variant Expression::%s is duplicated; effect-free: %s" % (v, v in free))
    R.require(rid, "floor", n >= 4, ctx.where(fn), "%d duplicated receiver variants" % n)
    # the copy inserted as first argument is in LAST-argument position when the call had no argument: a multi-valued
    # receiver (`...`, a call) must keep its parentheses there.  Lua's own table of multi-valued expressions is the reference.
    MULTI = {"Call", "VariableArguments"}
    accepted = set()
    for m in tables.matches_on(lib, thir.body_of(fn), EXPR):
        for v, rows in tables.variant_table(lib, m, EXPR).items():
            if any(c == "Some" for c, g, arm in rows):
                accepted.add(v)
    fa = ctx.an.fa(fn["path"])
    FC = "nodes::function_call::FunctionCall"
    ins = [c for c in thir.calls(fn) if c.get("fname") == "insert" and len(c["args"]) == 3 and
           ((FC, "arguments") in fa.origins(c["args"][0]) or any(x.get("fname") == "mutate_arguments" for x in fa.source_calls(c["args"][0])))]
    if R.require(rid, "anchor:insert-first-argument", len(ins) >= 1, ctx.where(fn), "no `arguments.insert(0, receiver)` found"):
        for c in ins:
            x = c["args"][2]
            while x.get("k") in ("Use", "Scope", "NeverToAny") and "e" in x:
                x = x["e"]
            def leaves(e, depth=0):
                while e.get("k") in ("Use", "Scope", "NeverToAny", "Borrow", "Deref", "Coerce") and "e" in e:
                    e = e["e"]
                k = e.get("k")
                if depth > 12:
                    return [e]
                if k == "Block" and "tail" in e:
                    return leaves(e["tail"], depth + 1)
                if k == "If" and "else" in e:
                    return leaves(e["then"], depth + 1) + leaves(e["else"], depth + 1)
                if k == "Match":
                    return [l for a in e["arms"] for l in leaves(a["body"], depth + 1)]
                if k == "Var":
                    out = []
                    for src, pre in fa.env.get(e["var"], []):
                        if pre == () and not str(src.get("k", "#")).startswith("#"):
                            out += leaves(src, depth + 1)
                        else:
                            out.append(e)
                    return out or [e]
                return [e]

            def wrapped(q):
                if q.get("k") == "Call" and q.get("fname") in ("from", "into") and q["args"]:
                    at = lib.types[lib.strip_refs(q["args"][0]["t"])].get("adt")
                    rt = lib.types[lib.strip_refs(q["t"])].get("adt")
                    return at == "nodes::expressions::prefix::Prefix" and rt == EXPR
                return q.get("k") == "Call" and q.get("fname") == "in_parentheses"
            # every value the inserted argument can take keeps the parentheses (flows Prefix -> Expression)
            via_prefix = all(wrapped(q) for q in leaves(x))
            for v in sorted(MULTI & accepted) or ["(none accepted)"]:
                ok = via_prefix or v == "(none accepted)"
                R.ob(rid, "first-argument-single-valued|%s" % v, ok, ctx.where(fn, c.get("ln")),
                     "no multi-valued receiver variant is duplicated" if v == "(none accepted)" else
                     ("receiver Expression::%s is multi-valued; the inserted copy %s" % (v, "keeps its parentheses (Prefix -> Expression)" if via_prefix else
                      "is the bare inner expression: `(...):m()` becomes `(...).m(...)` and passes every value")))


def run(R, ctx):
    R.explanation = (
        "The four anchored guards of the optional refactorings as guard-before-act / decision-table / subset rules on typed THIR, "
        "plus the scope-visitor typestate for convert_square_root_call. Necessary conditions only; the refactorings' full semantics "
        "are not decided."
    )
    R.assumptions += ["FindVariables is trusted to find every textual use of a name (it over-approximates: shadowed uses count as uses)"]
    merge(R, ctx)
    local_function(R, ctx)
    self_param(R, ctx)
    receiver(R, ctx)
    c05.shadow_rule(R, ctx, "C16.sqrt", ("rules::convert_square_root_call::Processor",), "convert_square_root_call")

"""C16 Optional refactoring rules preserve program behaviour (small structural part).

Decided (the guards the anchors name):
  C16.merge   group_local_assignment::should_merge: refuses unless the first statement has as many
              values as variables (or no value at all) -- decision table over the orderings
              {<,=,>} x {no value?}; the merge is control-dependent on a FindVariables walk over
              *all* values of the second statement, seeded with *all* variables of the first     [T4+T7]
  C16.local   convert_local_function_to_assign converts only when the name is a parameter or a
              FindVariables walk over the body found no use of it                                 [T7]
  C16.self    convert_function_to_assignment prepends `self` exactly under has_method()           [T7]
  C16.receiver remove_method_call duplicates the receiver only for effect-free variants           [T4 subset]
  C16.sqrt    convert_square_root_call (scope-aware) is driven by a scope-tracking visitor        [T8]
Not decided: semantics of the merged/converted code beyond these guards.
"""
from .. import thir, tables, guards, absint
from ..thir import callee_of
from . import c05, c06

EXPR = "nodes::expressions::Expression"


class OrderInterp(absint.Interp):
    """absint.Interp that also decides integer comparisons between two named terms under a fixed ordering."""

    def __init__(self, fa, ordering, zero, atom=None):
        absint.Interp.__init__(self, atom or (lambda e: None), lambda c: None)
        self.fa = fa
        self.ordering = ordering  # '<' '=' '>' for (variables_len, values_len)
        self.zero = zero          # values_len == 0 ?

    def term(self, e):
        names = {c.get("fname") for c in self.fa.source_calls(e)}
        if e.get("k") == "Lit":
            return ("lit", e.get("v"))
        if "variables_len" in names and "values_len" not in names:
            return ("vars",)
        if "values_len" in names and "variables_len" not in names:
            return ("vals",)
        return None

    def cond(self, e, path):
        k = e.get("k")
        if k == "Binary" and e.get("op") in ("Gt", "Lt", "Ge", "Le", "Eq", "Ne"):
            a, b = self.term(e["l"]), self.term(e["r"])
            if a and b:
                op = e["op"]
                if {a[0], b[0]} == {"vars", "vals"}:
                    o = self.ordering if a[0] == "vars" else {"<": ">", ">": "<", "=": "="}[self.ordering]
                    val = {"Gt": o == ">", "Lt": o == "<", "Ge": o in (">", "="), "Le": o in ("<", "="), "Eq": o == "=", "Ne": o != "="}[op]
                    return [(val, path)]
                if {a[0], b[0]} == {"vals", "lit"} and ("lit", "0") in (a, b):
                    if op in ("Eq", "Ne"):
                        return [((self.zero if op == "Eq" else not self.zero), path)]
        return absint.Interp.cond(self, e, path)


def merge(R, ctx):
    rid = "C16.merge"
    lib = ctx.lib
    R.rule(rid, "group_local::should_merge returns false whenever the first statement's value count is neither 0 nor equal to its variable "
                "count (decision table over the three orderings); otherwise its answer is `next.values.all(|v| no variable of first found in v)`")
    fn = lib.fn("rules::group_local::GroupLocalProcessor::should_merge")
    if not R.require(rid, "anchor:should_merge", fn is not None, "", "not found"):
        return
    fa = ctx.an.fa(fn["path"])
    for ordering in ("<", "=", ">"):
        for zero in (True, False):
            if zero and ordering == "<":
                continue  # 0 values cannot exceed the variable count... vars < vals impossible when vals == 0
            it = OrderInterp(fa, ordering, zero)
            try:
                paths = it.run(thir.body_of(fn))
            except RuntimeError:
                paths = []
            rets = {p.ret for p in paths}
            must_refuse = (ordering != "=") and not zero
            if must_refuse:
                ok = bool(paths) and rets == {False}
                R.ob(rid, "should_merge|vars%svalues,values%s0" % (ordering, "=" if zero else "!="), ok, ctx.where(fn),
                     "returns %s; must refuse (merging shifts which value initialises which variable)" % sorted(rets, key=str))
            else:
                ok = bool(paths) and False not in rets
                R.ob(rid, "should_merge|vars%svalues,values%s0" % (ordering, "=" if zero else "!="), ok, ctx.where(fn), "continues to the usage test (%s)" % sorted(rets, key=str))
    # the usage test
    alls = [c for c in thir.calls(fn) if c.get("fname") == "all"]
    ok_all = False
    for c in alls:
        srcs = [y.get("fname") for y in fa.source_calls(c["args"][0])]
        clo = [a for a in c["args"] if a.get("k") == "Closure"]
        if "iter_mut_values" in srcs or "iter_values" in srcs:
            if clo:
                body = clo[0]["body"]["body"]
                visits = any(x.get("k") == "Call" and x.get("fname") == "visit_expression" for x in thir.walk(body))
                neg = any(x.get("k") == "Unary" and x.get("op") == "Not" and any(y.get("fname") == "has_found_usage" for y in thir.walk(x) if y.get("k") == "Call") for x in thir.walk(body))
                # every value must be scanned: no early `return`/literal result inside the closure, the visit is unconditional
                early = [x for x in thir.walk(body) if x.get("k") == "Return" or (x.get("k") == "Lit" and x.get("v") in ("true", "false"))]
                cond_visit = any(x.get("k") in ("If", "Match") and any(y.get("k") == "Call" and y.get("fname") == "visit_expression" for y in thir.walk(x)) for x in thir.walk(body))
                ok_all = visits and neg and ("#param", 2) in fa.origins(c["args"][0]) and not early and not cond_visit
    R.ob(rid, "should_merge|all-values-of-next-scanned", ok_all, ctx.where(fn), "`next.iter_mut_values().all(|e| { visit_expression(e, finder); !finder.has_found_usage() })`: %s" % ok_all)
    col = [c for c in thir.calls(fn) if c.get("fname") in ("collect", "from_iter")]
    ok_seed = any("iter_variables" in [y.get("fname") for y in fa.source_calls(c["args"][0])] and ("#param", 1) in fa.origins(c["args"][0]) for c in col)
    R.ob(rid, "should_merge|finder-seeded-with-all-variables-of-first", ok_seed, ctx.where(fn), "FindVariables built from first.iter_variables(): %s" % ok_seed)
    # the merge itself is guarded
    fs = lib.fn("rules::group_local::GroupLocalProcessor::filter_statements")
    if R.require(rid, "anchor:filter_statements", fs is not None, "", "not found"):
        fa2 = ctx.an.fa(fs["path"])
        M = guards.Mentions(ctx.an)
        merges = [c for c in thir.calls(fs) if c.get("fname") == "merge"]
        R.require(rid, "filter_statements|anchor:merge", len(merges) >= 1, ctx.where(fs), "no merge call")
        for c in merges:
            ok = any(k == "then" and M.mentions(fa2, cond, guards.is_call_named("should_merge"), 0) for cond, k in guards.conditions_of(fa2, c))
            R.ob(rid, "filter_statements|merge-under-should_merge", ok, ctx.where(fs, c.get("ln")), "merge is on the true branch of should_merge: %s" % ok)


def local_function(R, ctx):
    rid = "C16.local"
    lib = ctx.lib
    R.rule(rid, "no_local_function: each replacement of the `local function` statement is under has_parameter(name) or under "
                "`!find_usage.has_found_usage()` after DefaultVisitor::visit_block(function block, FindVariables::new(name))")
    fn = lib.fn("<rules::no_local_function::Processor as process::node_processor::NodeProcessor>::process_statement")
    if not R.require(rid, "anchor", fn is not None, "", "not found"):
        return
    fa = ctx.an.fa(fn["path"])
    swaps = [c for c in thir.calls(fn) if c.get("fname") == "swap" and ("#param", 1) in fa.origins(c["args"][0])]
    R.require(rid, "anchor:replacements", len(swaps) >= 1, ctx.where(fn), "%d statement replacements" % len(swaps))
    for i, c in enumerate(swaps):
        conds = list(guards.conditions_of(fa, c))
        by_param = any(k == "then" and any(x.get("fname") == "has_parameter" for x in thir.walk(cond) if x.get("k") == "Call") for cond, k in conds)
        by_usage = any(k == "then" and cond.get("k") == "Unary" and any(x.get("fname") == "has_found_usage" for x in thir.walk(cond) if x.get("k") == "Call") for cond, k in conds)
        R.ob(rid, "process_statement|replacement@%d|guarded" % i, by_param or by_usage, ctx.where(fn, c.get("ln")),
             "guarded by %s" % ("has_parameter(name)" if by_param else "!has_found_usage()" if by_usage else "NOTHING: a recursive local function loses its self reference"))
    # the finder walks the function's own block and is built from its name
    vb = [c for c in thir.calls(fn) if c.get("fname") == "visit_block"]
    ok = any("mutate_block" in [y.get("fname") for y in fa.source_calls(c["args"][0])] for c in vb)
    R.ob(rid, "process_statement|walks-own-body", ok, ctx.where(fn), "FindVariables is run over local_function.mutate_block(): %s" % ok)
    news = [c for c in thir.calls(fn) if c.get("fname") == "new" and "FindVariables" in (c.get("fn") or "")]
    ok = any("get_name" in [y.get("fname") for y in fa.source_calls(c["args"][0])] for c in news)
    R.ob(rid, "process_statement|finder-for-own-name", ok, ctx.where(fn), "FindVariables::new(name of the function): %s" % ok)


def self_param(R, ctx):
    rid = "C16.self"
    lib = ctx.lib
    R.rule(rid, "global_function_to_assign::convert inserts the `self` parameter at index 0, exactly on the true branch of name.has_method(), "
                "and moves both the block and the parameters of the statement into the new function expression")
    fn = lib.fn("rules::global_function_to_assign::Processor::convert")
    if not R.require(rid, "anchor", fn is not None, "", "not found"):
        return
    fa = ctx.an.fa(fn["path"])
    ins = [c for c in thir.calls(fn) if c.get("fname") == "insert" and any(x.get("k") == "Lit" and x.get("v") == '"self"' for x in thir.walk(c))]
    R.require(rid, "anchor:self-insert", len(ins) == 1, ctx.where(fn), "%d insertions of `self`" % len(ins))
    for c in ins:
        idx0 = c["args"][1].get("k") == "Lit" and c["args"][1].get("v") == "0"
        R.ob(rid, "convert|self-first", idx0, ctx.where(fn, c.get("ln")), "`self` inserted at index 0: %s" % idx0)
        conds = list(guards.conditions_of(fa, c))
        ok = any(k == "then" and cond.get("k") == "Call" and cond.get("fname") == "has_method" for cond, k in conds) and len([1 for cond, k in conds if k in ("then", "else")]) == 1
        R.ob(rid, "convert|self-iff-method", ok, ctx.where(fn, c.get("ln")), "guarded exactly by name.has_method(): %s" % ok)
    swaps = [c for c in thir.calls(fn) if c.get("fname") == "swap"]
    moved = set()
    for c in swaps:
        for a in c["args"]:
            for y in fa.source_calls(a):
                if y.get("fname") in ("mutate_block", "mutate_parameters"):
                    moved.add(y["fname"])
    R.ob(rid, "convert|moves-block-and-parameters", moved == {"mutate_block", "mutate_parameters"}, ctx.where(fn), "moved: %s" % sorted(moved))
    R.ob(rid, "convert|keeps-variadic", any(c.get("fname") == "set_variadic" for c in thir.calls(fn)), ctx.where(fn), "variadic flag copied")


def receiver(R, ctx):
    rid = "C16.receiver"
    lib = ctx.lib
    R.rule(rid, "remove_method_call duplicates the receiver (prefix and first argument) only when it is an identifier or a parenthesised "
                "expression whose variant has constant-false has_side_effects")
    free = c06.effect_free_variants(ctx, R, rid)
    fn = lib.fn("<rules::remove_method_call::Processor as process::node_processor::NodeProcessor>::process_function_call")
    if free is None or not R.require(rid, "anchor", fn is not None, "", "not found"):
        return
    n = 0
    for m in tables.matches_on(lib, thir.body_of(fn), EXPR):
        tbl = tables.variant_table(lib, m, EXPR)
        for v, rows in sorted(tbl.items()):
            for c, g, arm in rows:
                if c == "Some":
                    n += 1
                    R.ob(rid, "process_function_call|%s" % v, v in free, ctx.where(fn, m.get("ln")),
                         "receiver variant Expression::%s is duplicated; effect-free: %s" % (v, v in free))
    R.require(rid, "floor", n >= 4, ctx.where(fn), "%d duplicated receiver variants" % n)
    # the copy inserted as first argument is in LAST-argument position when the call had no argument: a multi-valued
    # receiver (`...`, a call) must keep its parentheses there.  Lua's own table of multi-valued expressions is the reference.
    MULTI = {"Call", "VariableArguments"}
    accepted = set()
    for m in tables.matches_on(lib, thir.body_of(fn), EXPR):
        for v, rows in tables.variant_table(lib, m, EXPR).items():
            if any(c == "Some" for c, g, arm in rows):
                accepted.add(v)
    fa = ctx.an.fa(fn["path"])
    FC = "nodes::function_call::FunctionCall"
    ins = [c for c in thir.calls(fn) if c.get("fname") == "insert" and len(c["args"]) == 3 and
           ((FC, "arguments") in fa.origins(c["args"][0]) or any(x.get("fname") == "mutate_arguments" for x in fa.source_calls(c["args"][0])))]
    if R.require(rid, "anchor:insert-first-argument", len(ins) >= 1, ctx.where(fn), "no `arguments.insert(0, receiver)` found"):
        for c in ins:
            x = c["args"][2]
            while x.get("k") in ("Use", "Scope", "NeverToAny") and "e" in x:
                x = x["e"]
            def leaves(e, depth=0):
                while e.get("k") in ("Use", "Scope", "NeverToAny", "Borrow", "Deref", "Coerce") and "e" in e:
                    e = e["e"]
                k = e.get("k")
                if depth > 12:
                    return [e]
                if k == "Block" and "tail" in e:
                    return leaves(e["tail"], depth + 1)
                if k == "If" and "else" in e:
                    return leaves(e["then"], depth + 1) + leaves(e["else"], depth + 1)
                if k == "Match":
                    return [l for a in e["arms"] for l in leaves(a["body"], depth + 1)]
                if k == "Var":
                    out = []
                    for src, pre in fa.env.get(e["var"], []):
                        if pre == () and not str(src.get("k", "#")).startswith("#"):
                            out += leaves(src, depth + 1)
                        else:
                            out.append(e)
                    return out or [e]
                return [e]

            def wrapped(q):
                if q.get("k") == "Call" and q.get("fname") in ("from", "into") and q["args"]:
                    at = lib.types[lib.strip_refs(q["args"][0]["t"])].get("adt")
                    rt = lib.types[lib.strip_refs(q["t"])].get("adt")
                    return at == "nodes::expressions::prefix::Prefix" and rt == EXPR
                return q.get("k") == "Call" and q.get("fname") == "in_parentheses"
            # every value the inserted argument can take keeps the parentheses (flows Prefix -> Expression)
            via_prefix = all(wrapped(q) for q in leaves(x))
            for v in sorted(MULTI & accepted) or ["(none accepted)"]:
                ok = via_prefix or v == "(none accepted)"
                R.ob(rid, "first-argument-single-valued|%s" % v, ok, ctx.where(fn, c.get("ln")),
                     "no multi-valued receiver variant is duplicated" if v == "(none accepted)" else
                     ("receiver Expression::%s is multi-valued; the inserted copy %s" % (v, "keeps its parentheses (Prefix -> Expression)" if via_prefix else
                      "is the bare inner expression: `(...):m()` becomes `(...).m(...)` and passes every value")))


def run(R, ctx):
    R.explanation = (
        "The four anchored guards of the optional refactorings as guard-before-act / decision-table / subset rules on typed THIR, "
        "plus the scope-visitor typestate for convert_square_root_call. Necessary conditions only; the refactorings' full semantics "
        "are not decided."
    )
    R.assumptions += ["FindVariables is trusted to find every textual use of a name (it over-approximates: shadowed uses count as uses)"]
    merge(R, ctx)
    local_function(R, ctx)
    self_param(R, ctx)
    receiver(R, ctx)
    c05.shadow_rule(R, ctx, "C16.sqrt", ("rules::convert_square_root_call::Processor",), "convert_square_root_call")

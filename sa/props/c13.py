"""C13 String literals survive generation exactly (the string half; numbers are NOT decided).

The string writer is a finite-state transducer over bytes: which quoting form it picks and how it escapes depends only on
byte classes, the next byte, the length thresholds and which closers occur.  It is evaluated from the typed tree
(sa/peval.py) through each generator's public trait method `LuaGenerator::write_expression` on
`Expression::String(StringExpression { value })` and the text it leaves in the generator is read back by an independent
reader of Lua 5.1 / Luau string literals (sa/luaref.py: read_string_literal).

  C13.strings   for every generator: every byte string of length <= 1, every pair (any byte, b) with b ranging over the
                byte classes the writer distinguishes (digit, letter, both quotes, backslash, newline, `]`, CR, a high
                byte), [thorough: every pair], and the structured long forms (lengths around the 20 / 60 thresholds, 5/6/7
                newlines, `]]` / `]=]` / `]==]` runs, trailing `]`, leading newline, CR, quotes, invalid UTF-8, non-ASCII
                text): the text written is ONE complete literal that Luau reads back as exactly the same bytes, and Lua
                5.1 too unless it contains `\\u{`.
  C13.segments  the same for the string segments of an interpolated string (read back under Luau's rules for a backtick
                segment: \\` and \\{ escaped).

Not decided: number literals (formatting and parsing of doubles is arithmetic on run-time values: `float / 10^e`, Rust's
shortest-representation printing, `str::parse::<f64>`); string *parsing* by full_moon; neighbouring-token fusion (C02.fuse).
"""
import itertools

from .. import thir, peval
from ..peval import make, Enum, NONE, UNKNOWN
from ..luaref import read_string_literal, LiteralError
from .c15 import pmap

N = "nodes::"
EXPR = N + "expressions::Expression"
STR = N + "expressions::string::StringExpression"
ISTR = N + "expressions::interpolated_string::InterpolatedStringExpression"


def generators(ctx):
    """(adt path, constructor fn, constructor args) of every LuaGenerator implementation"""
    lib = ctx.lib
    out = []
    for a in sorted(lib.adts):
        if lib.fn("<%s as generator::LuaGenerator>::write_expression" % a) is None and \
                not any(k.startswith("<" + a) and k.endswith(" as generator::LuaGenerator>::write_string") for k in lib.fns):
            continue
        new = lib.fn(a + "::new") or next((f for k, f in lib.fns.items() if k.startswith(a + "::") and k.endswith("::new")), None)
        if new is None:
            continue
        ps = new["thir"].get("params", [])
        if len(ps) == 1 and lib.ty_str(ps[0]["t"]) == "usize":
            out.append((a, new, [80]))
        elif len(ps) == 1 and "str" in lib.ty_str(ps[0]["t"]):
            out.append((a, new, [""]))
    return out


def trait_fn(lib, adt, name):
    for k, f in lib.fns.items():
        if k.startswith("<" + adt) and k.endswith(" as generator::LuaGenerator>::" + name) and thir.body_of(f):
            return f
    return lib.fn("generator::LuaGenerator::" + name)


def domain(tier):
    one = [bytes([b]) for b in range(256)]
    classes = [ord("0"), ord("9"), ord("a"), 34, 39, 92, 10, 13, ord("]"), ord("["), 0x80, 0xC3, 0]
    pairs = [bytes([a, b]) for a in range(256) for b in (range(256) if tier == "thorough" else classes)]
    longs = []
    for n in (19, 20, 21, 59, 60, 61):
        longs.append(b"x" * n)
        longs.append(b"x" * (n - 1) + b"]")
        longs.append(b"\n" + b"x" * (n - 1))
        longs.append(b"x" * (n - 2) + b"]]")
        longs.append(b"]]" + b"x" * (n - 2))
        longs.append(b"a]=]" + b"x" * (n - 4))
        longs.append(b"a]]b]=]c]==]" + b"x" * max(0, n - 12))
        longs.append(b"x" * (n - 5) + b"]]b]=")              # needs level 1 and ends with the start of a level-1 closer
        longs.append(b"x" * (n - 9) + b"]]b]=]c]==")         # ... level 2
        longs.append(b"]=" + b"x" * (n - 4) + b"]=")
        longs.append(b"x" * (n - 2) + b"]=")
        longs.append(b"x" * (n - 1) + b"\r")
        longs.append(b"x" * (n - 1) + b"'")
        longs.append(b"'\"" + b"x" * (n - 2))
        longs.append(b"x" * (n - 1) + b"\xff")
        longs.append(("é" * (n // 2)).encode())
        longs.append(b"x" * (n - 1) + b"\t")
        longs.append(b"\x1b" + b"7" * (n - 1))
    for nl in (5, 6, 7):
        for n in (19, 20, 30):
            longs.append(b"\n" * nl + b"y" * max(0, n - nl))
            longs.append(b"y" * max(0, n - nl) + b"\n" * nl)
            longs.append(b"\n" * nl + b"y" * max(0, n - nl - 1) + b"]")
    # closers that overlap or touch (`]=]]`, `]]=]`, `]=]==]`, `]]]`): every string of `]` and `=` up to length 6 (quick: up to 5),
    # inside, at the start and at the end of a 60-byte text
    for k in range(2, 7 if tier == "thorough" else 6):
        for bits in itertools.product(b"]=", repeat=k):
            pat = bytes(bits)
            if b"]" not in pat:
                continue
            longs.append(b"x" * 30 + pat + b"x" * 30)
            longs.append(pat + b"x" * 60)
            longs.append(b"x" * 60 + pat)
    # the writer has one loop for valid UTF-8 text and one for other byte strings: every byte followed by a digit / a letter, in a
    # string that is not valid UTF-8 as a whole (the stray byte before it, and after it)
    for a in range(256):
        for b in (ord("0"), ord("9"), ord("a")):
            longs.append(b"\xff" + bytes([a, b]))
            longs.append(bytes([a, b]) + b"\xff")
    longs += [b"\x1b1", b"\x001", b"\xc3\xa91", b"ab\"c'd", b"\\n", b"\\\\", b"a\\", b"\xe2\x97\x81", b"\xf0\x9f\x98\x80", b"\xed\xa0\x80", b"\xc0\x80"]
    return one + pairs + longs


def check_text(text, value, interpolated=False):
    """None when `text` reads back as `value`, else the reason"""
    if not isinstance(text, str):
        return "not established: %r" % (text,)
    try:
        got = read_string_literal(text, "luau", interpolated)
    except LiteralError as e:
        return "Luau cannot read %r back: %s" % (text[:60], e)
    if got != value:
        return "Luau reads %r back as %r" % (text[:60], got[:40])
    if "\\u{" not in text and not interpolated:
        try:
            got51 = read_string_literal(text, "lua51")
        except LiteralError as e:
            return "Lua 5.1 cannot read %r back: %s" % (text[:60], e)
        if got51 != value:
            return "Lua 5.1 reads %r back as %r" % (text[:60], got51[:40])
    return None


_CTX = None


def _string_chunk(job):
    """evaluates one chunk of byte strings on one generator; returns (n, first failure or None)"""
    gi, values = job
    ctx = _CTX
    lib = ctx.lib
    G, new, nargs = generators(ctx)[gi]
    we, fin = trait_fn(lib, G, "write_expression"), trait_fn(lib, G, "into_string")
    bad, n = None, 0
    for value in values:
        pe = peval.PEval(lib, ctx.an)
        try:
            gen = pe.call_fn(new, list(nargs))
            node = Enum(EXPR, "String", {"0": make(lib, STR, {"value": list(value), "token": NONE})})
            pe.call_fn(we, [gen, node])
            text = pe.call_fn(fin, [gen])
        except peval.OutOfFuel:
            text = UNKNOWN
        n += 1
        why = check_text(text.strip("\n ") if isinstance(text, str) else text, value)
        if why is not None and not isinstance(text, str):
            why += " %s" % pe.unknown_reasons[:2]
        if why is not None and bad is None:
            bad = (value, why)
    return n, bad


def strings(R, ctx, tier, rid="C13.strings", light=False):
    """`light`: the singles and the structured long forms only (no byte pairs), on every generator — the form other properties
    (C02: 'the same literal values') reuse under their own rule id"""
    global _CTX
    _CTX = ctx
    lib = ctx.lib
    R.rule(rid, "each generator (built with its public constructor, driven through LuaGenerator::write_expression on Expression::String), "
                "evaluated from its typed tree for every byte string of length <= 1, every pair (any byte, one byte of each class the writer "
                "distinguishes; thorough: every pair) and the structured long forms around the 20/60 length and 6-newline thresholds with "
                "`]]`, `]=]`, trailing `]`, leading newline, CR, quotes, invalid UTF-8 and non-ASCII text: the text written is one complete "
                "literal that an independent reader of Luau's (and, without `\\u{`, Lua 5.1's) string syntax reads back as the same bytes"
                + (" [light form under this rule id: the singles and the long forms, no byte pairs]" if light else ""))
    gens = generators(ctx)
    if not R.require(rid, "anchor:generators", len(gens) >= 3, "", "LuaGenerator implementations with a usable constructor: %s" % [g[0] for g in gens]):
        return
    dom = domain(tier)
    short = [v for v in dom if len(v) != 2]     # quick tier: the pairs run on the first generator only
    for gi, (G, new, nargs) in enumerate(gens):
        we = trait_fn(lib, G, "write_expression")
        fin = trait_fn(lib, G, "into_string")
        if not R.require(rid, "%s|anchor:write_expression" % G.split("::")[-1], we is not None and fin is not None, "", "write_expression / into_string not found"):
            continue
        values = short if light else dom if gi == 0 or tier == "thorough" else short
        chunks = [(gi, values[k:k + 400]) for k in range(0, len(values), 400)]
        bad, n = None, 0
        for cn, cbad in pmap(_string_chunk, chunks):
            n += cn
            bad = bad or cbad
        R.ob(rid, "%s|roundtrip" % G.split("::")[-1], bad is None, ctx.where(we),
             "%d byte strings read back exactly" % n if bad is None else "value %r: %s" % (bad[0][:40], bad[1]))
        R.require(rid, "%s|floor" % G.split("::")[-1], n >= (350 if light else 3000 if gi == 0 or tier == "thorough" else 350), ctx.where(we), "%d byte strings evaluated" % n)
    R.meta[rid] = {"generators": [g[0] for g in gens], "strings_per_generator": len(dom)}


def segments(R, ctx, tier):
    rid = "C13.segments"
    lib = ctx.lib
    R.rule(rid, "the same for interpolated strings with one string segment (every byte string of length <= 1, the class pairs, and the "
                "segment-specific bytes ` { } \\ next to each other): the text between the backticks reads back, under Luau's rules for a "
                "backtick segment, as the same bytes")
    seg_adt = N + "expressions::interpolated_string::StringSegment"
    seg_enum = N + "expressions::interpolated_string::InterpolationSegment"
    if not R.require(rid, "anchor:segment-types", seg_adt in lib.adts and seg_enum in lib.adts and ISTR in lib.adts, "", "interpolated string node types not found"):
        return
    special = [96, 123, 125, 92, ord("0"), 10, 34, 39, 0x80, ord("a")]
    dom = [bytes([b]) for b in range(256)] + [bytes([a, b]) for a in (range(256) if tier == "thorough" else special + [0, 1, 27, 13, 9, 0xC3, 0xFF]) for b in special]
    dom += [b"a`b{c}d\\e", b"\x1b1`", "é{".encode(), b"{{", b"``", b"\\{"]
    for G, new, nargs in generators(ctx):
        we = trait_fn(lib, G, "write_expression")
        fin = trait_fn(lib, G, "into_string")
        if we is None or fin is None:
            continue
        bad, n = None, 0
        for value in dom:
            pe = peval.PEval(lib, ctx.an)
            try:
                gen = pe.call_fn(new, list(nargs))
                seg = Enum(seg_enum, "String", {"0": make(lib, seg_adt, {"value": list(value), "token": NONE})})
                node = Enum(EXPR, "InterpolatedString", {"0": make(lib, ISTR, {"segments": [seg], "tokens": NONE})})
                pe.call_fn(we, [gen, node])
                text = pe.call_fn(fin, [gen])
            except peval.OutOfFuel:
                text = UNKNOWN
            n += 1
            if isinstance(text, str):
                t = text.strip("\n ")
                why = "not a backtick string: %r" % t[:40] if not (len(t) >= 2 and t[0] == "`" and t[-1] == "`") else check_text(t[1:-1], value, interpolated=True)
            else:
                why = "not established %s" % pe.unknown_reasons[:2]
            if why is not None and bad is None:
                bad = (value, why)
        R.ob(rid, "%s|roundtrip" % G.split("::")[-1], bad is None, ctx.where(we),
             "%d segments read back exactly" % n if bad is None else "segment %r: %s" % (bad[0][:40], bad[1]))
        R.require(rid, "%s|floor" % G.split("::")[-1], n >= 300, ctx.where(we), "%d segments evaluated" % n)


NUM = N + "expressions::number::"


def float_domain():
    import math
    import struct
    vals = [0.0, -0.0, 1.0, -1.0, 0.1, 1 / 3, 2 / 3, 1e21, 1e22, 1e23, 1e-7, 1e-6, 5e-324, 1e-323, 2.2250738585072014e-308, 2.225073858507201e-308,
            1.7976931348623157e308, 2.0 ** 53, 2.0 ** 53 + 2, 2.0 ** 53 - 1, 9007199254740993.0, 4.35, 0.3, 2.675, 9.999999999999999e22, 8.41e21,
            123456789012345680000.0, 1e15, 1e16, 1e17, 1.5, 100.0, 1e300, 1e-300, 0.1 + 0.2, 3.141592653589793, 2.718281828459045, 1e100, 12345.678,
            0.5, 0.25, 1e-5, 123456789.0, 1.7976931348623155e308, 4.9406564584124654e-324, 6.02214076e23, 299792458.0, -1.5e10, -123.456]
    vals += [2.0 ** k for k in range(-1074, 1024, 9)]
    vals += [float("1e%d" % k) for k in range(-323, 309, 4)]
    vals += [float("%de%d" % (d, k)) for d in (3, 7, 9) for k in range(-320, 300, 37)]
    # neighbours of powers of ten (shortest-representation hard cases)
    for k in range(-300, 301, 25):
        x = float("1e%d" % k)
        b = struct.unpack("<Q", struct.pack("<d", x))[0]
        vals += [struct.unpack("<d", struct.pack("<Q", b + d))[0] for d in (-1, 1)]
    return vals + [math.inf, -math.inf, math.nan]


def same_double(a, b):
    import math
    import struct
    if math.isnan(a) or math.isnan(b):
        return math.isnan(a) and math.isnan(b)
    return struct.pack("<d", a) == struct.pack("<d", b)


def _number_chunk(job):
    gi, nodes = job
    ctx = _CTX
    lib = ctx.lib
    G, new, nargs = generators(ctx)[gi]
    we, fin = trait_fn(lib, G, "write_expression"), trait_fn(lib, G, "into_string")
    from ..luaref import read_number_text
    bad, n = None, 0
    for label, build, want in nodes:
        pe = peval.PEval(lib, ctx.an)
        try:
            gen = pe.call_fn(new, list(nargs))
            pe.call_fn(we, [gen, Enum(EXPR, "Number", {"0": build_number(lib, build)})])
            text = pe.call_fn(fin, [gen])
        except peval.OutOfFuel:
            text = UNKNOWN
        n += 1
        why = None
        if not isinstance(text, str):
            why = "not established %s" % pe.unknown_reasons[:2]
        else:
            try:
                got = read_number_text(text)
                if not same_double(got, want):
                    why = "written %r reads back as %r" % (text.strip()[:50], got)
            except LiteralError as e:
                why = "written %r: %s" % (text.strip()[:50], e)
        if why is not None and bad is None:
            bad = (label, why)
    return n, bad


def build_number(lib, b):
    from ..peval import some
    kind = b[0]
    if kind == "dec":
        return Enum(NUM + "NumberExpression", "Decimal", {"0": make(lib, NUM + "DecimalNumber", {"float": b[1], "exponent": some(b[2]) if b[2] is not None else NONE, "token": NONE})})
    if kind == "hex":
        return Enum(NUM + "NumberExpression", "Hex", {"0": make(lib, NUM + "HexNumber", {"integer": b[1], "exponent": some(b[2]) if b[2] is not None else NONE, "is_x_uppercase": b[3], "token": NONE})})
    return Enum(NUM + "NumberExpression", "Binary", {"0": make(lib, NUM + "BinaryNumber", {"value": b[1], "is_b_uppercase": b[2], "token": NONE})})


def numbers_written(R, ctx, tier):
    import math
    rid = "C13.numbers-written"
    lib = ctx.lib
    R.rule(rid, "each generator, driven through LuaGenerator::write_expression on Expression::Number, evaluated from its typed tree (f64 as IEEE "
                "doubles; Rust's `{}` / `{:e}` printing and str::parse::<f64> modelled in sa/floatfmt.py and validated against rustc): for "
                "every double of the boundary classes (zeros of both signs, subnormals, powers of two and ten and their neighbours, 2^53 "
                "neighbours, shortest-representation hard cases, infinities, NaN) x recorded exponent (none, small, large, out of i32, either "
                "case), every u64 boundary value as hexadecimal (with and without a binary exponent) and binary: the text written reads "
                "back, by an independent reader of Lua/Luau number syntax, as exactly the same double (sign of zero included)")
    floats = float_domain()
    exps = [None] + [(e, up) for e in (0, 1, -1, 2, 5, -5, 15, -15, 22, -22, 100, -100, 300, -300, 308, -308, -323, 2 ** 31, -2 ** 31 - 1) for up in (False, True)]
    nodes = []
    for i, x in enumerate(floats):
        for ex in (exps if (tier == "thorough" or i % 4 == 0 or i < 60 or not math.isfinite(x)) else exps[:1] + exps[7:9]):
            nodes.append(("Decimal(%r, exponent=%r)" % (x, ex), ("dec", x, ex), x))
    ints = [0, 1, 9, 10, 15, 16, 255, 256, 2 ** 31, 2 ** 32 - 1, 2 ** 53, 2 ** 53 + 1, 2 ** 63, 2 ** 64 - 1, 0xDEADBEEF, 0xABCDEF]
    for v in ints:
        for up in (False, True):
            nodes.append(("Hex(%#x)" % v, ("hex", v, None, up), float(v)))
            nodes.append(("Binary(%#b)" % v if False else "Binary(%d)" % v, ("bin", v, up), float(v)))
    for v, e in ((1, 4), (3, 0), (255, 10), (1, 52), (2 ** 20 + 1, 30)):
        for up in (False, True):
            nodes.append(("Hex(%#x p%d)" % (v, e), ("hex", v, (e, up), up), math.ldexp(float(v), e)))
    gens = generators(ctx)
    if not R.require(rid, "anchor:generators", len(gens) >= 3 and NUM + "DecimalNumber" in lib.adts, "", "generators / number node types not found"):
        return
    for gi, (G, new, nargs) in enumerate(gens):
        mine = nodes if gi == 0 or tier == "thorough" else nodes[::5]
        chunks = [(gi, mine[k:k + 150]) for k in range(0, len(mine), 150)]
        bad, n = None, 0
        for cn, cbad in pmap(_number_chunk, chunks):
            n += cn
            bad = bad or cbad
        R.ob(rid, "%s|roundtrip" % G.split("::")[-1], bad is None, ctx.where(trait_fn(lib, G, "write_expression")),
             "%d numbers read back as the same double" % n if bad is None else "%s: %s" % bad)
        R.require(rid, "%s|floor" % G.split("::")[-1], n >= (1500 if gi == 0 or tier == "thorough" else 300), "", "%d numbers evaluated" % n)


LITERALS = ["0", "1", "007", "10", "1.5", "1.", ".5", "0.1", "0.30000000000000004", "3.141592653589793", "1e5", "1E5", "1e+5", "1e-5", "1.5e10", "12.5E-3", ".5e1", "5.e1",
            "9007199254740993", "18446744073709551616", "123456789012345678901234567890", "1e308", "1e309", "1.7976931348623157e308", "1.7976931348623159e308",
            "4.9e-324", "2.4703282292062327e-324", "2.4703282292062328e-324", "5e-324", "1e-400", "0.000001", "0.0000001",
            "1_000", "1_000.000_1", "1__2", "1_", "1_e5", "1e1_0", "1e5_", "1_._5" if False else "1_.5", "0_1", "1_0e1_0",
            "0x0", "0x10", "0XfF", "0xff", "0xDEAD_beef", "0x_ff", "0xf_f", "0xff_", "0x7fffffffffffffff", "0xffffffffffffffff", "0x20000000000001",
            "0b0", "0b1", "0B101", "0b1_0", "0b_11", "0b1111111111111111111111111111111111111111111111111111111111111111", "0_x10"]


# long integer significands with an exponent: conversions that go through an intermediate rounding (integer -> double, then a
# multiplication by a power of ten) are wrong for some of these; a correctly rounded reader is not
LITERALS += ["%d%s%d" % (sig, e, k) for sig in (2 ** 53 + 1, 2 ** 53 + 3, 1234567890123456789, 9999999999999999999, 18446744073709551615, 12345678901234567, 90071992547409935)
             for k in (0, 1, 2, 5, 10, 15, 22, 23) for e in ("e", "E+")]
LITERALS += ["%s%s%d" % (sig, e, k) for sig in ("0.30000000000000004", "9007199254740993.5", "1.7976931348623157", "4.9406564584124654", "123456789.012345678901")
             for k in (-324, -308, -5, 0, 5, 300, 308) for e in ("e", "E")]


def numbers_read(R, ctx, tier):
    rid = "C13.numbers-read"
    lib = ctx.lib
    from ..luaref import read_number_text
    R.rule(rid, "NumberExpression::from_str followed by compute_value, evaluated from the typed tree on %d literals (decimal, fraction, exponent "
                "of either case and sign, 17-20 digit significands with exponents 0..23, out-of-range magnitudes, halfway cases near the smallest subnormal, hexadecimal and binary "
                "up to 64 bits, underscores in every position Luau allows): the value equals what an independent reader of Luau's number "
                "syntax gives, bit for bit" % len(LITERALS))
    fs = lib.fn("<%sNumberExpression as core::str::traits::FromStr>::from_str" % NUM)
    cv = lib.fn(NUM + "NumberExpression::compute_value")
    if not R.require(rid, "anchor:from_str", fs is not None and cv is not None, "", "from_str / compute_value not found"):
        return
    bad, n = [], 0
    for t in LITERALS:
        pe = peval.PEval(lib, ctx.an)
        try:
            r = pe.call_fn(fs, [t])
            v = pe.call_fn(cv, [r.fields["0"]]) if isinstance(r, Enum) and r.variant == "Ok" else r
        except peval.OutOfFuel:
            v = UNKNOWN
        n += 1
        want = read_number_text(t)
        if not isinstance(v, (int, float)) or isinstance(v, bool) or not same_double(float(v), want):
            bad.append((t, want, v if isinstance(v, (int, float)) else (repr(v)[:60], pe.unknown_reasons[:2])))
    R.ob(rid, "from_str|value", not bad, ctx.where(fs), "%d literals get Luau's value" % n if not bad else "literal %r: Luau gives %r, darklua %r" % bad[0])
    for b in bad[1:6]:
        R.info("C13.numbers-read also: %r -> %r vs %r" % b)


def run(R, ctx):
    R.explanation = (
        "The string writer is decided as a finite-state transducer: each generator's write_expression is evaluated from its typed tree "
        "(sa/peval.py) on an enumerated byte-string domain and the text is read back by an independent reader of Lua 5.1 / Luau string "
        "literals (sa/luaref.py). Nothing is executed. Number literals are not decided (floating-point arithmetic and printing).")
    R.assumptions += ["Luau / Lua 5.1 string syntax as transcribed in sa/luaref.py:read_string_literal (strict: unknown escapes are errors)",
                      "core::fmt's template encoding and integer formatting as modelled in sa/peval.py (format_one)"]
    global _CTX
    _CTX = ctx
    strings(R, ctx, R.tier)
    segments(R, ctx, R.tier)
    numbers_written(R, ctx, R.tier)
    numbers_read(R, ctx, R.tier)

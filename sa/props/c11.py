"""C11 Batch runs map files one-to-one, isolate failures and are deterministic.

Decided (necessary structural conditions):
  C11.writers       who may write / delete outputs and touch the file system                     [T5]
  C11.after-rules   in Worker::apply_rules the output is written after the rule loop and is not
                    reachable from the error edge of a rule                                      [T6 MIR]
  C11.success-writes every path that marks an item Done(Ok) passes the output write, except the
                    documented "skipped entirely" edge of the global file filter                 [T6 MIR]
  C11.flush         every BufWriter is flushed (error propagated) before a success return        [T6 MIR pair]
  C11.isolate       a failing item is recorded in its own status and only fail-fast leaves the loop [T7]
  C11.shared-state  batch-global mutable state: reviewed set, reviewed writers, cache written only
                    under the key that was looked up, cleared at the start of each pass           [T5/T7]
  C11.order         audit of every iteration over an unordered container in both crates           [T11]
Not decided: directory walking on real file systems, path mirroring arithmetic.
"""
from .. import thir, mir, hashiter
from ..thir import callee_of
from ..facts import norm_path

RES_WRITE = "frontend::resources::Resources::write"
RES_REMOVE = "frontend::resources::Resources::remove"


def callers_of(crates, target):
    out = []
    for crate in crates:
        for f in crate.fn_list:
            if not thir.body_of(f):
                continue
            for c in thir.fn_refs(f):
                if (c.get("fn") or "").replace("darklua_core::", "", 1) == target:
                    out.append((crate, f, c))
    return out


def writers(R, ctx):
    rid = "C11.writers"
    R.rule(rid, "Resources::write is called only from Worker::apply_rules and cli convert; Resources::remove only from "
                "WorkerTree::clean_files; mutating std::fs functions only inside frontend/resources.rs (reviewed who-may-call table)")
    allowed_write = {
        "frontend::worker::Worker::apply_rules": "the single per-item output write (and the debug AST view, same path)",
        "cli::convert::convert_data": "`darklua convert` writes its one output",
    }
    allowed_remove = {"frontend::worker_tree::WorkerTree::clean_files": "outputs of removed sources + emptied directories"}
    for target, allowed, label in ((RES_WRITE, allowed_write, "write"), (RES_REMOVE, allowed_remove, "remove")):
        found = set()
        for crate, f, c in callers_of((ctx.lib, ctx.bin), target):
            p = norm_path(f["path"])
            found.add(p)
            R.ob(rid, "%s|%s" % (label, p), p in allowed, ctx.where(f, c.get("ln")),
                 allowed.get(p, "unreviewed caller of Resources::%s: a second writer can produce outputs that are not one-to-one with inputs" % label))
        for p in allowed:
            R.require(rid, "%s|exists|%s" % (label, p), p in found, "", "reviewed caller of Resources::%s no longer found" % label)
    FS_MUT = {"write", "create", "create_dir", "create_dir_all", "remove_file", "remove_dir", "remove_dir_all", "rename", "copy", "set_permissions", "hard_link", "create_new"}
    n = 0
    for crate in (ctx.lib, ctx.bin):
        for f in crate.fn_list:
            if not thir.body_of(f):
                continue
            for c in thir.fn_refs(f):
                fn = c.get("fn") or ""
                if (fn.startswith("std::fs::") and c.get("fname") in FS_MUT) or fn in ("std::fs::File::create", "std::fs::OpenOptions::open"):
                    n += 1
                    ok = f["file"].endswith("src/frontend/resources.rs")
                    R.ob(rid, "fs|%s|%s" % (norm_path(f["path"]), c.get("fname")), ok, ctx.where(f, c.get("ln")),
                         "mutating file-system call %s %s" % (fn, "inside the resources layer" if ok else "OUTSIDE frontend/resources.rs"))
    R.require(rid, "floor:fs-mutators", n >= 2, "", "%d mutating std::fs call sites found (floor 2)" % n)


def apply_rules_paths(R, ctx):
    lib = ctx.lib
    fn = lib.fn("frontend::worker::Worker::apply_rules")
    rid = "C11.after-rules"
    R.rule(rid, "in Worker::apply_rules: no Rule::process call is reachable from an output write (writes come after the whole rule "
                "loop), and every path from a Rule::process call to a write passes the `?` applied to that call's result, whose error "
                "edge cannot reach a write")
    rid2 = "C11.success-writes"
    R.rule(rid2, "in Worker::apply_rules every assignment of WorkStatus::done() is preceded on all paths by the write of the generated "
                 "code, except on the false edge of Configuration::should_apply_rule (documented: such files are skipped entirely)")
    if not R.require(rid, "anchor:apply_rules", fn is not None and fn.get("mir"), "", "not found"):
        return
    cfg = mir.Cfg(lib, fn)
    writes = [i for i, t in cfg.calls() if cfg.callee(t) == RES_WRITE]
    procs = [i for i, t in cfg.calls() if t.get("fn") == "rules::Rule::process"]
    gens = [i for i, t in cfg.calls() if t.get("fname") == "generate_lua"]
    R.require(rid, "anchor:writes", len(writes) >= 1, ctx.where(fn), "no Resources::write in apply_rules")
    R.require(rid, "anchor:rule-process", len(procs) == 1, ctx.where(fn), "%d Rule::process calls" % len(procs))
    R.require(rid2, "anchor:generate_lua", len(gens) == 1, ctx.where(fn), "%d generate_lua calls" % len(gens))
    for w in writes:
        back = cfg.reachable_from(cfg.succ_nounwind[w])
        R.ob(rid, "apply_rules|no-rule-after-write", not any(p in back for p in procs), ctx.where(fn, cfg.line(w)),
             "a rule can still run after the output was written" if any(p in back for p in procs) else "write is after the rule loop")
    for p in procs:
        d = cfg.derived_locals({cfg.call_dest(p)})
        tries = cfg.try_branches_on(d)
        R.ob(rid, "apply_rules|rule-result-checked", len(tries) >= 1, ctx.where(fn, cfg.line(p)), "the rule's Result is propagated with `?`: %s" % bool(tries))
        for w in writes:
            via = [t[0] for t in tries]
            ok = cfg.must_pass(via, w, start=p) if tries else False
            R.ob(rid, "apply_rules|write-after-check", ok, ctx.where(fn, cfg.line(w)),
                 "every path from Rule::process to the write passes the `?` on its result: %s" % ok)
        for t, cont, brk in tries:
            bad = [w for w in writes if w in cfg.reachable_from(brk)]
            R.ob(rid, "apply_rules|error-edge-never-writes", not bad, ctx.where(fn, cfg.line(t)),
                 "the error edge of the rule result %s" % ("reaches a write" if bad else "cannot reach a write"))
    # the code write: the write whose content derives from generate_lua
    code_writes = []
    for g in gens:
        d = cfg.derived_locals({cfg.call_dest(g)})
        for w in writes:
            t = cfg.blocks[w]["term"]
            if any("p" in o and cfg.base(o["p"]) in d for o in t["args"]):
                code_writes.append(w)
    R.ob(rid2, "apply_rules|code-write-found", len(code_writes) == 1, ctx.where(fn), "write of the generate_lua result: %d" % len(code_writes))
    # and its `?`: success continues
    ok_writes = []
    for w in code_writes:
        d = cfg.derived_locals({cfg.call_dest(w)})
        tries = cfg.try_branches_on(d)
        R.ob(rid2, "apply_rules|write-result-checked", len(tries) >= 1, ctx.where(fn, cfg.line(w)), "the write's Result is propagated with `?`")
        ok_writes += [t[1] for t in tries]  # continue targets
    dones = [i for i, t in cfg.calls() if (cfg.callee(t) or "").endswith("WorkStatus::done")]
    R.require(rid2, "anchor:done", len(dones) >= 1, ctx.where(fn), "no WorkStatus::done()")
    skip_region = set()
    for i, t in cfg.calls():
        if t.get("fname") == "should_apply_rule":
            nxt = t.get("t")
            sw = cfg.blocks[nxt]["term"]
            # `if !x {..}`: find the switch consuming the (possibly negated) result in the following blocks
            b = nxt
            hops = 0
            while sw["k"] != "switch" and hops < 3 and "t" in sw:
                b = sw["t"]; sw = cfg.blocks[b]["term"]; hops += 1
            if sw["k"] == "switch":
                negated = any(st.get("rv", "").startswith("un:Not") for st in cfg.blocks[b]["s"]) or any(st.get("rv", "").startswith("un:Not") for st in cfg.blocks[nxt]["s"])
                zero = [bb for v, bb in sw["targets"] if v == "0"]
                # result false  <=> (negated ? switch value 1(otherwise) : switch value 0)
                edge_t = sw["otherwise"] if negated else (zero[0] if zero else None)
                if edge_t is not None:
                    skip_region |= cfg.edge_region(b, edge_t)
    R.require(rid2, "anchor:global-filter", bool(skip_region), ctx.where(fn), "the should_apply_rule test was not recognised")
    for dn in dones:
        if dn in skip_region:
            R.ob(rid2, "apply_rules|done-on-filtered-edge", True, ctx.where(fn, cfg.line(dn)), "Done without output only for globally filtered files (documented)", nontrivial=False)
            continue
        ok = bool(ok_writes) and cfg.must_pass(ok_writes, dn)
        R.ob(rid2, "apply_rules|done-after-write", ok, ctx.where(fn, cfg.line(dn)),
             "WorkStatus::done() is %s by a successful output write" % ("always preceded" if ok else "reachable WITHOUT being preceded"))


def flush(R, ctx):
    rid = "C11.flush"
    R.rule(rid, "every function that creates a std::io::BufWriter reaches each non-error return only through a call to flush()/into_inner() "
                "on it whose Result is propagated (a failed flush at drop is silently swallowed)")
    n = 0
    for crate in (ctx.lib, ctx.bin):
        for f in crate.fn_list:
            if not f.get("mir") or "::test" in f["path"]:
                continue
            cfg = None
            for b in f["mir"]["blocks"]:
                t = b["term"]
                if t["k"] == "call" and (t.get("fn") or "").endswith("BufWriter::<W>::new"):
                    cfg = mir.Cfg(crate, f)
                    break
            if cfg is None:
                continue
            for i, t in cfg.calls():
                if not (t.get("fn") or "").endswith("BufWriter::<W>::new"):
                    continue
                n += 1
                d = cfg.derived_locals({cfg.call_dest(i)})
                flushes = [j for j, tt in cfg.calls() if tt.get("fname") in ("flush", "into_inner") and any("p" in o and cfg.base(o["p"]) in d for o in tt["args"])]
                succ = cfg.without_error_edges()
                start = t.get("t")
                reach = cfg.reachable_from(start, avoid=set(flushes), edges=succ)
                bad = [r for r in cfg.returns() if r in reach]
                R.ob(rid, "%s|flush-before-return" % norm_path(f["path"]), bool(flushes) and not bad, ctx.where(f, t.get("ln")),
                     "BufWriter %s" % ("is flushed on every success path" if flushes and not bad else "can reach a success return without flush(): write errors of buffered data are lost"))
                for j in flushes:
                    dd = cfg.derived_locals({cfg.call_dest(j)})
                    # result must be used: returned (derives into _0) or `?`
                    used = 0 in dd or bool(cfg.try_branches_on(dd))
                    R.ob(rid, "%s|flush-result-used" % norm_path(f["path"]), used, ctx.where(f, cfg.line(j)), "flush() result is %s" % ("propagated" if used else "discarded"))
    R.require(rid, "floor:bufwriters", n >= 1, "", "%d BufWriter constructions found" % n)


def isolate(R, ctx):
    rid = "C11.isolate"
    lib = ctx.lib
    R.rule(rid, "in WorkerTree::process the Err arm of `worker.advance_work(item)` stores the error in that item's status "
                "(WorkStatus::err) and every break/return inside the arm is guarded by Options::should_fail_fast")
    fn = lib.fn("frontend::worker_tree::WorkerTree::process")
    if not R.require(rid, "anchor:process", fn is not None, "", "not found"):
        return
    a = ctx.an.fa(fn["path"])
    found = False
    for n in thir.walk(thir.body_of(fn)):
        if n.get("k") == "Match" and any(c.get("fname") == "advance_work" for c in thir.walk(n["scrut"]) if c.get("k") == "Call"):
            for arm in n["arms"]:
                vs = thir.pat_variants(arm["pat"])
                if any(v == "Err" for _, v in vs):
                    found = True
                    body = arm["body"]
                    stores = [x for x in thir.walk(body) if x.get("k") == "Assign" and x["l"].get("k") == "Field" and x["l"].get("f") == "status"
                              and any(c.get("fname") == "err" for c in thir.walk(x["r"]) if c.get("k") == "Call")]
                    R.ob(rid, "process|error-stored-in-item", bool(stores), ctx.where(fn, arm.get("l")), "work_item.status = WorkStatus::err(err): %s" % bool(stores))
                    exits = [x for x in thir.walk(body) if x.get("k") in ("Break", "Return")]
                    for x in exits:
                        guarded = False
                        p = a.parent.get(id(x)); child = x
                        while p is not None and p is not body:
                            if p.get("k") == "If" and any(y is child for y in thir.walk(p["then"])):
                                if any(c.get("fname") == "should_fail_fast" for c in thir.walk(p["cond"]) if c.get("k") == "Call"):
                                    guarded = True
                            child = p; p = a.parent.get(id(p))
                        R.ob(rid, "process|exit-only-on-fail-fast", guarded, ctx.where(fn, x.get("ln")),
                             "leaving the work loop from the error arm is %s" % ("guarded by should_fail_fast()" if guarded else "NOT guarded: one bad file stops the batch"))
    R.require(rid, "anchor:err-arm", found, ctx.where(fn), "match on advance_work(..) with an Err arm not found")


GLOBAL_STATE = {
    "utils::luau_config::LUAU_RC_CACHE": {
        "users": {"utils::luau_config::find_luau_configuration", "utils::luau_config::clear_luau_configuration_cache"},
        "reason": ".luaurc lookups memoised per directory; cleared at the start of every pass",
    },
}
MUT_MARKERS = ("RefCell", "Cell<", "Mutex", "RwLock", "Atomic", "OnceLock", "OnceCell")


def shared_state(R, ctx):
    rid = "C11.shared-state"
    R.rule(rid, "batch-global mutable state (statics / thread-locals with interior mutability) is exactly the reviewed set, used only by the "
                "reviewed functions; the .luaurc cache is written only under the key it was looked up with, with the value computed for that "
                "same file, and is cleared at the start of WorkerTree::process")
    found = {}
    for crate in (ctx.lib, ctx.bin):
        for p, c in crate.consts.items():
            ts = crate.ty_str(c["ty"])
            if "{" in p:
                continue
            if ("LocalKey" in ts or "Static" in c["kind"]) and any(m in ts for m in MUT_MARKERS) and "LazyCell" not in ts and "LazyLock" not in ts:
                found[p] = (crate, c)
    for p, (crate, c) in sorted(found.items()):
        R.ob(rid, "state|" + p, p in GLOBAL_STATE, "%s:%s" % (c["file"], c["line"]),
             GLOBAL_STATE.get(p, {}).get("reason", "unreviewed global mutable state: it survives from one file of a batch to the next and can make a file's output depend on the others"))
    for p in GLOBAL_STATE:
        R.require(rid, "state|exists|" + p, p in found, "", "reviewed global no longer exists")
    lib = ctx.lib
    for p, spec in GLOBAL_STATE.items():
        users = set()
        for f in lib.fn_list:
            b = thir.body_of(f)
            if not b:
                continue
            if any(n.get("k") in ("Const", "Static") and n.get("def") == p for n in thir.walk(b)):
                users.add(norm_path(f["path"]))
        for u in sorted(users):
            R.ob(rid, "user|%s|%s" % (p.split("::")[-1], u), u in spec["users"], ctx.where(u), "unreviewed user of %s" % p if u not in spec["users"] else "reviewed")
    # key consistency in find_luau_configuration
    fn = lib.fn("utils::luau_config::find_luau_configuration")
    if R.require(rid, "anchor:find_luau_configuration", fn is not None, "", "not found"):
        a = ctx.an.fa(fn["path"])
        gets, puts = [], []
        for c in thir.walk(thir.body_of(fn)):
            if c.get("k") == "Call" and c["args"] and "HashMap" in (c.get("fn") or ""):
                if c.get("fname") in ("get", "contains_key", "get_mut"):
                    gets.append(c)
                elif c.get("fname") in ("insert", "entry", "extend", "remove", "retain", "get_or_insert_with", "try_insert"):
                    puts.append(c)
        R.require(rid, "cache|anchor:lookup", len(gets) >= 1, ctx.where(fn), "no cache lookup found")
        R.require(rid, "cache|anchor:store", len(puts) >= 1, ctx.where(fn), "no cache store found")
        key_vars = set()
        for g in gets:
            for x in thir.walk(g["args"][1]):
                if x.get("k") == "Var":
                    key_vars.add(x["var"])
        for c in puts:
            vars_ = {x["var"] for arg in c["args"][1:2] for x in thir.walk(arg) if x.get("k") == "Var"}
            ok = bool(vars_) and vars_ <= key_vars
            R.ob(rid, "cache|store-under-lookup-key|%s" % c["fname"], ok, ctx.where(fn, c.get("ln")),
                 "cache.%s(..) uses %s" % (c["fname"], "the key that was looked up" if ok else "a key other than the looked-up key: entries for other directories are planted, later files see a foreign .luaurc"))
            if c["fname"] == "insert" and len(c["args"]) >= 3:
                srcs = [y.get("fname") for y in a.source_calls(c["args"][2])]
                R.ob(rid, "cache|value-from-private-lookup", "find_luau_configuration_private" in srcs, ctx.where(fn, c.get("ln")), "stored value derives from find_luau_configuration_private: %s" % ("find_luau_configuration_private" in srcs))
    # cleared at start of process
    pf = lib.fn("frontend::worker_tree::WorkerTree::process")
    if R.require(rid, "anchor:process", pf is not None and pf.get("mir"), "", "not found"):
        cfg = mir.Cfg(lib, pf)
        clears = [i for i, t in cfg.calls() if t.get("fname") == "clear_luau_configuration_cache"]
        adv = [i for i, t in cfg.calls() if t.get("fname") == "advance_work"]
        ok = bool(clears) and all(cfg.must_pass(clears, x) for x in adv)
        R.ob(rid, "process|cache-cleared-before-work", ok, ctx.where(pf), "clear_luau_configuration_cache() dominates every advance_work: %s" % ok)


# reviewed iterations over unordered containers that the classifier cannot decide. key: (fn path, method)
HASH_REVIEWED = {
    ("frontend::configuration::BundleConfiguration::excludes", "iter"): "feeds wax::any(..): a set of exclusion globs, membership only",
    ("frontend::resources::Source::walk", "keys"): "in-memory resources only: enumeration order of the inputs (the property quantifies over it; items are independent)",
    ("frontend::resources::Source::walk_all", "keys"): "in-memory resources only: snapshot of existing outputs collected into a map",
    ("frontend::worker_tree::WorkerTree::process", "iter"): "inserts each dependency into a map of sets (idempotent, order-free)",
    ("frontend::worker_tree::WorkerTree::iter_external_dependencies", "iter"): "set of files to watch",
    ("frontend::worker_tree::WorkerTree::source_changed", "iter"): "collects node indexes to restart; restart is idempotent per node",
    ("frontend::worker_tree::WorkerTree::update_external_dependencies", "iter"): "collects node indexes to restart; restart is idempotent per node",
    ("frontend::worker_tree::WorkerTree::restart_work", "iter"): "queues outputs for removal (set semantics)",
    ("process::processors::collect_globals::CollectGlobalsProcessor::iter_globals", "iter"): "names to avoid: set membership",
    ("process::processors::collect_globals::CollectGlobalsProcessor::into_globals", "into_iter"): "names to avoid: chained into a Vec that only feeds `contains`/is sorted by the caller",
    ("rules::verify_no_rule_properties", "iter"): "picks any offending key for the error message; an error is returned whatever the order",
    ("rules::remove_call_match::RemoveFunctionCallProcessor::extract_reserved_globals", "drain"): "ORDER REACHES THE OUTPUT (local a, b = x, y); deterministic only while at most one global is ever reserved: side condition checked below",
    ("cli::utils::file_watcher::FileWatcher::process_events", "iter"): "looks up a rename pair among pending events; pairs are unique by cookie",
}
# Reviewed per container: iterations over these fields *inside the owner's own methods* (whatever the method is called after a
# refactoring).  The reason must hold for every use the owner makes of the order.
SLOT_REVIEWED_BY_ROLE = {
    # (owner, role in c09._rp_layout): the scope dictionaries of the renamer; the only order-sensitive consumer is the reuse pool, whose
    # independence from the iteration order is decided by evaluation (C11.order pop|sorted-after-extend / C09.pool)
    ("rules::rename_variables::rename_processor::RenameProcessor", "stack"): "popped scope dictionary feeds the reuse pool; pool order independence is decided by evaluation over all insertion orders",
}
SLOT_REVIEWED = {
    ("frontend::worker_tree::WorkerTree", "node_map"): "path -> node index; iterated to find the nodes under a path prefix, each found node is restarted independently (idempotent, no output depends on the order)",
    ("frontend::worker_tree::WorkerTree", "external_dependencies"): "file -> set of dependent nodes; iterated to restart dependents / list watched files: set semantics",
    ("frontend::work_item::WorkItem", "external_file_dependencies"): "the set of files an item read; iterated by the worker tree to link / unlink the item in the dependency map, one keyed operation per element (order-free)",
}
# Reviewed per container, for any function of the file that owns it (methods and private helpers alike)
SLOT_REVIEWED_IN_FILE = {
    ("frontend::resources::Source", "Memory.0"): ("frontend/resources.rs", "in-memory resources only: enumeration order of the inputs / snapshot of existing outputs "
                                                                           "(the property quantifies over the enumeration order; items are independent)"),
}
# owners whose methods may iterate the reviewed slots above
SLOT_OWNERS = ("frontend::worker_tree::WorkerTree", "frontend::work_item::WorkItem")
CONFIGURE_REASON = "`for (key, value) in properties`: each key writes its own field; keys writing the same field are excluded by verify_property_collisions (C19.collide)"


def order(R, ctx):
    rid = "C11.order"
    R.rule(rid, "every iteration over a HashMap/HashSet in non-test code is order-insensitive by construction (consumer is any/all/count/"
                "contains/retain, collects into an order-free or sorted container, or the result is sorted before use) or is in the reviewed table")
    n = 0
    seen = set()
    for crate in (ctx.lib, ctx.bin):
        an = ctx.an if crate is ctx.lib else thir.Analyzer(crate)
        for f, c in hashiter.sites(crate):
            if "::test" in f["path"] or f["path"].startswith("_::") or "::_::" in f["path"]:
                continue
            n += 1
            p = norm_path(f["path"])
            cls, det = hashiter.classify(crate, an, f, c)
            key = (p, c["fname"])
            seen.add(key)
            if cls != "review":
                R.ob(rid, "%s|%s" % key, True, ctx.where(f, c.get("ln")), "%s: %s" % (cls, det))
            elif p.endswith("as rules::RuleConfiguration>::configure"):
                R.ob(rid, "%s|%s" % key, True, ctx.where(f, c.get("ln")), "reviewed: " + CONFIGURE_REASON)
            else:
                why = HASH_REVIEWED.get(key)
                if why is None:
                    fa_ = an.fa(f["path"]) if crate.fns.get(f["path"]) is f else None
                    slots = {o for o in (fa_.origins(c["args"][0]) if fa_ else ()) if o[0] != "#param"}
                    owner = f.get("self_tys", "").split("<")[0]
                    if not slots and fa_ is not None:
                        # the container is a parameter of a helper: look through to what its callers pass
                        pidx = {o[1] for o in fa_.origins(c["args"][0]) if o[0] == "#param"}
                        for g in crate.fn_list:
                            if not thir.body_of(g) or g is f:
                                continue
                            ga = None
                            for cc in thir.calls(g):
                                if crate.fn(callee_of(cc) or "") is f:
                                    ga = ga or (an.fa(g["path"]) if crate.fns.get(g["path"]) is g else None)
                                    for i in pidx:
                                        if ga is not None and i < len(cc["args"]):
                                            slots |= {o for o in ga.origins(cc["args"][i]) if o[0] != "#param"}
                    for sl in slots:
                        if sl in SLOT_REVIEWED and owner in SLOT_OWNERS:
                            why = SLOT_REVIEWED[sl]
                        if sl in SLOT_REVIEWED_IN_FILE and (f.get("file") or "").endswith(SLOT_REVIEWED_IN_FILE[sl][0]):
                            why = SLOT_REVIEWED_IN_FILE[sl][1]
                    if why is None and crate is ctx.lib:
                        from . import c09 as _c09
                        roles = _c09._rp_layout(ctx.lib)
                        for sl in slots:
                            for (own, role), reason in SLOT_REVIEWED_BY_ROLE.items():
                                if sl == (own, roles.get(role)) and owner.startswith(own):
                                    why = reason
                R.ob(rid, "%s|%s" % key, why is not None, ctx.where(f, c.get("ln")),
                     ("reviewed: " + why) if why is not None else
                     "unreviewed iteration over an unordered container (%s): if its order reaches an output, two runs can differ" % det)
    R.require(rid, "floor:sites", n >= 18, "", "%d hash-container iteration sites (floor 18)" % n)
    stale = [k for k in HASH_REVIEWED if k not in seen]
    if stale:
        R.info("reviewed iteration sites that no longer exist (stale table entries, harmless): %s" % stale)
    # side condition for extract_reserved_globals: every CallMatch::reserve_globals yields at most one name
    lib = ctx.lib
    impls = [f for f in lib.fn_list if f.get("name") == "reserve_globals" and thir.body_of(f)]
    R.require(rid, "reserve_globals|anchor", len(impls) >= 2, "", "%d reserve_globals bodies" % len(impls))
    for f in impls:
        b = thir.body_of(f)
        calls_ = [c.get("fn") for c in thir.walk(b) if c.get("k") == "Call" and "fn" in c]
        arrays = [x for x in thir.walk(b) if x.get("k") == "Array"]
        single = [c for c in calls_ if c.startswith("core::iter::") and c.split("::")[-1] in ("empty", "once")]
        ok = all(c in single or c.endswith("::into_iter") or c.endswith("::iter") for c in calls_) and all(len(x["es"]) <= 1 for x in arrays) and \
            (len(single) == 1 and not arrays or (not single and len(arrays) == 1))
        R.ob(rid, "reserve_globals|at-most-one|%s" % norm_path(f["path"]), ok, ctx.where(f),
             "yields at most one global name" if ok else "may yield several names: the order of `local a, b = x, y` emitted by extract_reserved_globals then depends on hash order")
    # RenameProcessor::pop: order independence is decided semantically (all insertion orders of the popped map give the same pool)
    from . import c09
    c09.pool(R, ctx, rid_override=rid, only=("pop|sorted-after-extend",))


def outdir(R, ctx):
    """kept as a name: the single-input-file cases are decided by evaluation in `mirror` (rule id C11.outdir)"""
    return


def walk_follows_links(R, ctx):
    rid = "C11.walk"
    lib = ctx.lib
    R.rule(rid, "the enumeration of the input tree (frontend::resources) decides what each path is with link-following queries "
                "(Path::metadata / is_file / is_dir): it never calls symlink_metadata, DirEntry::file_type or DirEntry::metadata, which "
                "answer for the link itself -- a linked file or directory would silently drop out of the batch (no output, no error). "
                "Zero-count rule with a positive control")
    follow, nofollow = [], []
    for f in lib.fn_list:
        if not thir.body_of(f) or not norm_path(f["path"]).startswith("frontend::resources"):
            continue
        for c in thir.fn_refs(f):
            cal = (callee_of(c) or "") + " " + (c.get("fn") or "")
            name = c.get("fname")
            if name == "symlink_metadata" or (name in ("file_type", "metadata") and "DirEntry" in cal) or (name == "read_link"):
                nofollow.append((f, c))
            elif name in ("metadata", "is_file", "is_dir", "exists", "try_exists") and ("std::path::Path" in cal or "std::fs::" in cal):
                follow.append((f, c))
    R.require(rid, "floor:link-following-queries", len(follow) >= 3, "", "%d link-following queries in frontend::resources (positive control)" % len(follow))
    R.ob(rid, "no-link-level-queries", not nofollow, ctx.where(nofollow[0][0], nofollow[0][1].get("ln")) if nofollow else "",
         "every query follows links" if not nofollow else "%s asks about the link itself with `%s`: what a symbolic link points to is never processed" % (norm_path(nofollow[0][0]["path"]).split("::")[-1], nofollow[0][1].get("fname")))


def rule_state(R, ctx):
    """A rule object serves every file of a batch: what it remembers from one file must not change what it does to the next."""
    import posixpath
    from .. import peval
    from ..peval import make, ok, Enum, Struct, NONE
    from ..pathmodel import PathV
    rid = "C11.rule-state"
    lib = ctx.lib
    R.rule(rid, "every Rule implementor with an interior-mutable field (OnceLock, RefCell, Mutex, Cell, atomics), built by each of its "
                "one-argument public constructors and evaluated from its typed tree (sa/peval.py; files are read through a hook that answers "
                "with a text naming the path): processing file B after file A (different directories, no configured project location) "
                "changes B's tokens exactly as a fresh rule object does -- a value cached from the first file's context must not be served "
                "to the second (the order of enumeration would then decide the output)")
    found = []
    for p, a in sorted(lib.adts.items()):
        proc = lib.fn("<%s as rules::Rule>::process" % p)
        if proc is None or not thir.body_of(proc):
            continue
        cells = [f["name"] for v in a.get("variants", []) for f in v["fields"] if any(m in f.get("tys", "") for m in MUT_MARKERS)]
        if cells:
            found.append((p, proc, cells))
    R.info("C11.rule-state: rule types with interior-mutable fields: %s" % [(p.split("::")[-1], c) for p, _, c in found])

    def hook(pe, path, fname, args, node):
        if fname == "read_to_string" and path.startswith("std::fs::") and args and isinstance(args[0], str):
            return ok("text of " + posixpath.normpath(str(args[0])) + "\n")
        if any(isinstance(a_, Struct) and a_.adt == "#Block" for a_ in args):
            if fname.startswith("mutate_") and "token" in fname:
                tok = make(lib, "nodes::token::Token", {"position": Enum("nodes::token::Position", "Any", {"content": "x"}), "leading_trivia": [], "trailing_trivia": []})
                pe._tokens.append(tok)
                return tok
            return peval.UNIT
        return NotImplemented

    def context(loc):
        over = {}
        for f in lib.adts["rules::Context"]["variants"][0]["fields"]:
            t = f["tys"]
            if t == "std::path::PathBuf":
                over[f["name"]] = PathV(loc + "/main.lua")
            elif "Resources" in t:
                over[f["name"]] = Struct("#Resources", {})
            elif t.startswith("core::option::Option<"):
                over[f["name"]] = NONE
            elif t.endswith("str"):
                over[f["name"]] = ""
        return make(lib, "rules::Context", over)

    def observe(pe, rule, proc, loc):
        before = len(pe._tokens)
        r = pe.call_fn(proc, [rule, Struct("#Block", {}), context(loc)])
        return (repr(r)[:60], [repr(t.fields) for t in pe._tokens[before:]])
    for p, proc, cells in found:
        short = p.split("::")[-1]
        ctors = [f for k, f in lib.fns.items() if k.startswith(p + "::") and thir.body_of(f) and len(f["thir"].get("params", [])) == 1
                 and f.get("vis", "pub") in ("pub", "public", None, "") and lib.ty_str(f["thir"]["params"][0]["t"]) not in ("&Self", "Self", "&mut Self")
                 and "self" not in str(f["thir"]["params"][0].get("pat", {}).get("name", ""))]
        n = 0
        for ctor in ctors:
            try:
                pe = peval.PEval(lib, ctx.an, hook=hook)
                pe._tokens = []
                rule = pe.call_fn(ctor, ["header.txt"])
                if not (isinstance(rule, Struct) and rule.adt == p):
                    continue
                observe(pe, rule, proc, "dir_a")
                second = observe(pe, rule, proc, "dir_b")
                pe2 = peval.PEval(lib, ctx.an, hook=hook)
                pe2._tokens = []
                fresh = observe(pe2, pe2.call_fn(ctor, ["header.txt"]), proc, "dir_b")
                unknown = [w for w in pe.unknown_reasons + pe2.unknown_reasons if w.startswith(("branch on unknown", "match on unknown"))]
            except peval.OutOfFuel:
                second, fresh, unknown = None, None, ["no termination"]
            n += 1
            good = second is not None and second == fresh and not unknown
            R.ob(rid, "%s|%s|second-file-as-fresh" % (short, ctor["path"].split("::")[-1]), good, ctx.where(proc),
                 "the second file is processed as by a fresh rule" if good else
                 "after a first file in another directory the second file gets %s; a fresh rule gives %s %s" % (second, fresh, unknown[:1]))
        R.require(rid, "%s|anchor:constructors" % short, n >= 1, ctx.where(proc), "no one-argument constructor of %s could be evaluated (cells: %s)" % (short, cells))


def mirror(R, ctx):
    """Every file found under the input gets one work item whose output is the mirrored relative path -- however the input is spelled."""
    import posixpath
    from .. import peval
    from ..peval import make, ok, Struct, PyMap, NONE, some, Iter
    from ..pathmodel import PathV
    rid = "C11.mirror"
    lib = ctx.lib
    R.rule(rid, "WorkerTree::collect_work, evaluated from its typed tree (std::path as in sa/pathmodel.py; the resources answer is_file / "
                "is_directory / collect_work from the layout the rule enumerates; graph insertions are recorded): for an input directory "
                "spelled `.`, `./`, `src`, `./src`, `src/`, `a/b`, `../p/src` and an output `out`, `./out`, `../out` or none, the items created "
                "are exactly one per Lua file found, with the source path of the file and the output at the mirrored relative path (in place "
                "without an output); for an input file the output is the given file, or the file name inside an existing output directory")
    WT = "frontend::worker_tree::WorkerTree"
    cw = lib.fn(WT + "::collect_work")
    opts = [a for a in lib.adts if a.startswith("frontend::") and a.endswith("::Options")]
    if not R.require(rid, "anchor:collect_work", cw is not None and len(opts) == 1 and WT in lib.adts, "", "collect_work / Options not found"):
        return
    OPT = opts[0]
    FILES = ["a.lua", "sub/b.lua", "sub/deep/c.luau"]

    def paths_in(v, out):
        if isinstance(v, str) and isinstance(v, PathV):
            out.append(posixpath.normpath(str(v)))
        elif isinstance(v, (peval.Struct, peval.Enum)):
            for x in v.fields.values():
                paths_in(x, out)
        return out

    def run_(inp, out, files, dirs, file_input=False):
        nodes = []
        fileset = {posixpath.normpath(posixpath.join(inp, f)) for f in files} if not file_input else {posixpath.normpath(inp)}

        def hook(pe, path, fname, args, node):
            if "Resources" in path and len(args) >= 2 and isinstance(args[1], str):
                p_ = posixpath.normpath(str(args[1]))
                if fname == "is_file":
                    return ok(p_ in fileset or p_ in files_extra)
                if fname == "is_directory":
                    return ok(p_ in dirs)
                if fname == "exists":
                    return ok(p_ in dirs or p_ in fileset or p_ in files_extra)
                if fname == "collect_work":
                    base = str(args[1])
                    return Iter([PathV(posixpath.join(base, f)) if base not in ("", ".") or True else PathV(f) for f in files])
            if fname == "add_node" and "petgraph" in path:
                nodes.append(args[1])
                return len(nodes) - 1
            return NotImplemented
        files_extra = set()
        pe = peval.PEval(lib, ctx.an, hook=hook)
        over = {}
        for f in lib.adts[WT]["variants"][0]["fields"]:
            t = f["tys"]
            if "HashMap<" in t and not t.startswith("core::option::Option<"):
                over[f["name"]] = PyMap([])
            elif t.startswith("alloc::vec::Vec<"):
                over[f["name"]] = []
            elif t.startswith("core::option::Option<"):
                over[f["name"]] = NONE
            elif "raph<" in t:
                over[f["name"]] = Struct("#Graph", {})
        wt = make(lib, WT, over)
        oover = {}
        for f in lib.adts[OPT]["variants"][0]["fields"]:
            if f["tys"] == "std::path::PathBuf":
                oover[f["name"]] = PathV(inp)
            elif f["tys"] == "core::option::Option<std::path::PathBuf>" and "out" in f["name"]:
                oover[f["name"]] = some(PathV(out)) if out is not None else NONE
            elif f["tys"].startswith("core::option::Option<"):
                oover[f["name"]] = NONE
            elif f["tys"] == "bool":
                oover[f["name"]] = False
        try:
            r = pe.call_fn(cw, [wt, Struct("#Resources", {}), make(lib, OPT, oover)])
        except peval.OutOfFuel:
            return None, ["no termination"]
        if not (isinstance(r, peval.Enum) and r.variant == "Ok") or any(w.startswith(("branch on unknown", "match on unknown")) for w in pe.unknown_reasons):
            return None, [repr(r)[:80]] + pe.unknown_reasons[:2]
        return sorted(tuple(sorted(set(paths_in(n_, [])))) for n_ in nodes), []
    n = 0
    for inp in (".", "./", "src", "./src", "src/", "a/b", "../p/src"):
        for out in ("out", "./out", "../out", None):
            got, why = run_(inp, out, FILES, {posixpath.normpath(inp)})
            want = sorted(tuple(sorted({posixpath.normpath(posixpath.join(inp, f))} | ({posixpath.normpath(posixpath.join(out, f))} if out is not None else set()))) for f in FILES)
            n += 1
            R.ob(rid, "dir:%s->%s" % (inp, out), got == want, ctx.where(cw),
                 "%d files mirrored" % len(FILES) if got == want else "items created: %s; expected %s %s" % (got, want, why))
    R.rule("C11.outdir", "same evaluation for a single input file: an output that is an existing directory -- whatever its name looks like, "
                         "`out` or `out.d` -- receives <output>/<input file name>; an existing file or a new path with an extension is the "
                         "output file itself (an existing directory is never written over / treated as a file)")
    for out, dirs, want_out in (("out", {"out"}, "out/a.lua"), ("out.d", {"out.d"}, "out.d/a.lua"), ("deep/out.lua", {"deep", "deep/out.lua"}, "deep/out.lua/a.lua"),
                                ("out/x.lua", set(), "out/x.lua"), ("o.lua", set(), "o.lua")):
        got, why = run_("src/a.lua", out, [], dirs, file_input=True)
        want = [tuple(sorted({"src/a.lua", want_out}))]
        n += 1
        R.ob("C11.outdir", "file:src/a.lua->%s%s" % (out, "(existing directory)" if dirs else ""), got == want, ctx.where(cw), "output %s" % want_out if got == want else "items created: %s; expected %s %s" % (got, want, why))
    R.require(rid, "floor:cases", n >= 30, "", "%d input/output spellings evaluated" % n)


def deletion_list(R, ctx, rid="C11.delete", status_rid=None):
    """What darklua deletes: the list that is drained into Resources::remove."""
    from .. import guards
    lib = ctx.lib
    M = guards.Mentions(ctx.an)
    R.rule(rid, "the files darklua deletes at the end of a pass are the elements of one list (the field whose drained elements reach "
                "Resources::remove). Every operation that adds to that list is control-dependent on a condition that asks the item whether it "
                "is processed in place (`is_in_place`): the output path of an in-place item is its source, so an unguarded addition deletes a "
                "source file (or, with an output location, whatever sits at a failing item's destination)"
                + ("; and no such condition consults the item's processing status: the output of a removed source has to go whether or not the "
                   "item was reset (restarted) since it was last written" if status_rid else ""))
    # the deleting function: calls `remove` on a Resources value with an element drained / iterated from a field of self
    fields = set()
    for f in lib.fn_list:
        if not thir.body_of(f) or "frontend" not in f["path"]:
            continue
        rem = [c for c in thir.calls(f) if c.get("fname") == "remove" and c["args"] and "Resources" in lib.ty_str(lib.strip_refs(c["args"][0]["t"]))]
        if not rem:
            continue
        fa = ctx.an.fa(f["path"])
        for c in thir.calls(f):
            if c.get("fname") in ("drain", "iter", "into_iter", "take") and c["args"]:
                for o in fa.origins(c["args"][0]):
                    if isinstance(o[0], str) and o[0] in lib.adts and "Vec<std::path::PathBuf>" in next((fl.get("tys", "") for fl in lib.adts[o[0]]["variants"][0]["fields"] if fl["name"] == o[1]), ""):
                        fields.add((o[0], o[1]))
    if not R.require(rid, "anchor:deletion-list", len(fields) == 1, "", "field(s) drained into Resources::remove: %s" % sorted(fields)):
        return
    adt, fld = next(iter(fields))
    in_place = lambda n: n.get("k") in ("Call", "Zst") and n.get("fname") == "is_in_place"
    status = lambda n: (n.get("k") == "Field" and n.get("f") == "status") or (n.get("k") in ("Call", "Zst") and n.get("fname") in ("is_done", "is_not_started", "is_in_progress", "status"))
    n = 0
    for f in lib.fn_list:
        if not thir.body_of(f) or not (f.get("self_tys") or "").startswith(adt):
            continue
        fa = ctx.an.fa(f["path"])
        for c in thir.calls(f):
            if c.get("fname") in ("push", "extend", "insert", "append", "extend_from_slice") and c["args"] and (adt, fld) in fa.origins(c["args"][0]):
                n += 1
                short = f["path"].split("::")[-1]
                # ... or the value added is itself the outcome of asking (an Option / iterator from a helper that returns nothing in place)
                g = M.guarded(fa, c, in_place) or any(M.mentions(fa, a, in_place, 2) for a in c["args"][1:])
                R.ob(rid, "%s|addition@%d|asks-in-place" % (short, n), g, ctx.where(f, c.get("ln")),
                     "guarded by is_in_place" if g else "a path is scheduled for deletion without asking whether the item is processed in place")
                if status_rid:
                    st = M.guarded(fa, c, status, depth=1) or any(M.mentions(fa, a, status, 1) for a in c["args"][1:])
                    R.ob(status_rid, "%s|addition@%d|whatever-the-status" % (short, n), not st, ctx.where(f, c.get("ln")),
                         "independent of the processing status" if not st else "the output of a removed source is only deleted for some processing statuses: "
                         "an item restarted (edited, or a dependency edited) and removed before the next pass leaves its stale output behind")
    R.require(rid, "floor", n >= 2, "", "%d additions to %s.%s" % (n, adt.split("::")[-1], fld))


def write_target(R, ctx, rid="C11.write-target"):
    """The resource layer creates, renames and deletes nothing but the location it was given (and its parent directories)."""
    lib = ctx.lib
    R.rule(rid, "in the file-system arm of the resource layer's write / remove operations, every file created, written, renamed or deleted is the "
                "location the caller gave (the parameter itself, or its `parent()` for the directories created on the way): no sibling name is "
                "computed from it (`with_extension`, `with_file_name`, `join`, `push`, ...). A temporary or backup file next to the output is a file "
                "that is neither an input's output nor mirrored -- and replaces or deletes whatever had that name")
    FS_MUT = {"write", "create", "create_new", "create_dir", "create_dir_all", "remove_file", "remove_dir", "remove_dir_all", "rename", "copy", "hard_link", "open"}
    ARITH = {"with_extension", "with_file_name", "with_added_extension", "join", "push", "set_extension", "set_file_name", "file_stem", "file_name", "format", "to_lowercase", "replace", "concat"}
    n = 0
    for f in ctx.lib.fn_list:
        if not thir.body_of(f) or not (f.get("file") or "").endswith("frontend/resources.rs"):
            continue
        fa = ctx.an.fa(f["path"])
        for c in thir.fn_refs(f):
            fn = c.get("fn") or ""
            if not ((fn.startswith("std::fs::") and c.get("fname") in FS_MUT) or fn in ("std::fs::File::create", "std::fs::OpenOptions::open")):
                continue
            if c.get("k") != "Call" or not c.get("args"):
                continue
            for ai, a in enumerate(c["args"]):
                if "t" in a and "path" not in lib.ty_str(lib.strip_refs(a["t"])).lower() and "P" != lib.ty_str(lib.strip_refs(a["t"])):
                    continue
                srcs = {y.get("fname") for y in fa.source_calls(a)}
                bad = sorted(srcs & ARITH)
                n += 1
                R.ob(rid, "%s|%s|arg%d|is-the-given-location" % (f["path"].split("::")[-1], c.get("fname"), ai), not bad, ctx.where(f, c.get("ln")),
                     "the location given by the caller (or its parent)" if not bad else "the path is computed with %s: a file the caller never named" % bad, nontrivial=bool(bad))
    R.require(rid, "floor", n >= 3, "", "%d path arguments of mutating std::fs calls in the resource layer" % n)


def run(R, ctx):
    R.explanation = (
        "Who-may-write tables, MIR dominance/must-pass rules on the worker's write/done/flush paths, the error arm of the work loop, "
        "a census of batch-global mutable state with cache-key consistency, and an audit of every unordered-container iteration. "
        "Decides one-write-after-all-rules, failure isolation wiring and order-independence of what is wired; does not decide directory "
        "walking or path arithmetic."
    )
    R.assumptions += ["the documented semantics of top-level apply_to_files/skip_files ('skipped entirely') is taken as intended: such files get no output",
                      "std/HashMap methods are recognised by name and receiver type"]
    writers(R, ctx)
    apply_rules_paths(R, ctx)
    flush(R, ctx)
    isolate(R, ctx)
    outdir(R, ctx)
    shared_state(R, ctx)
    order(R, ctx)
    walk_follows_links(R, ctx)
    mirror(R, ctx)
    rule_state(R, ctx)
    # the one documented way for a readable, parseable file to get no output is the top-level filter: its decision table (shared with C20)
    from . import c20
    c20.table(R, ctx, rid="C11.filter")
    deletion_list(R, ctx)
    write_target(R, ctx)

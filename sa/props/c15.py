"""C15 Requires resolve as documented and conversions keep the target (the part that is a finite decision procedure).

What is decided, and how: `RequireMode::find_require` (the one entry both the bundler's locators and convert_require go
through) and the convert_require processor are *evaluated from their typed tree* (sa/peval.py) with

  * paths as text under std::path's documented Unix semantics (sa/pathmodel.py; `pathdiff::diff_paths` transcribed from
    the pinned pathdiff 0.2.3 source),
  * the file system as an oracle: `Resources::is_file / exists / is_directory` are hooks answered from the layout the
    rule enumerates.  No file is read, no darklua code runs.

  C15.resolve   for every require mode (path with module folder `init` / `index`, luau), requiring file (ordinary,
                module-folder file, top-level), require string (relative, parent-relative, redundant `.`/`..` segments,
                with/without extension, source / alias / `@self` prefixed, unknown source) and layout (no candidate, every
                single candidate, every pair of candidates; thorough: every subset), the file returned is the FIRST existing
                candidate of the documented order, computed by an independent specification written from the
                documentation (`spec_resolve`).  Directories of the same stem exist in the layout and must not be taken.
  C15.convert   for current/target in {path, luau}^2: whenever the original require resolves to file T under the
                current mode, the argument written by the processor resolves, under the target mode (again evaluated
                from the code) to T.  Layouts: one candidate file present (unambiguous layouts).

Not decided: Windows prefixes, non-UTF-8 names, `.luaurc` discovery (the alias table is given), the roblox mode (needs a
Rojo sourcemap), symlinks, and what the bundler does with the resolved file.
"""
import itertools
import posixpath

from .. import thir, peval
from ..peval import make, ok, Enum, Struct, PyMap, NONE, some, UNKNOWN
from ..pathmodel import PathV, components

N = "nodes::"
RM = "rules::convert_require::RequireMode"
CTX = "rules::Context"
PROJECT = "proj"
SOURCES = [("pkg", "packages"), ("lib", "packages/lib"), ("pkz", "packages")]     # pkg / pkz: two names for one directory (a tie for the converter)
RC_ALIASES = [("@rc", "rcdir/packages")]     # as .luaurc discovery stores them: '@'-prefixed, already relative to the working directory


# ---- the documented behaviour, written independently of the code ---------------------------------------------------
def spec_candidates(head, folder):
    name = posixpath.basename(head)
    dot = name.rfind(".")
    ext = name[dot + 1:] if dot > 0 and name not in (".", "..") else None
    if ext in ("lua", "luau"):
        return [head]
    out = [head]
    if name not in ("", ".", ".."):
        out += [head + ".luau", head + ".lua"]
    out.append(posixpath.join(head, folder))
    if "." not in folder:
        out += [posixpath.join(head, folder + ".luau"), posixpath.join(head, folder + ".lua")]
    return out


def spec_head(mode, folder, req, source):
    """normalised head path of the search, or None when the documentation promises an error"""
    comps = components(req)
    srcdir = posixpath.dirname(source) or "."
    if comps and comps[0][0] in ("CurDir", "ParentDir"):
        base = srcdir
        stem = posixpath.basename(source).split(".")[0]
        if mode == "luau" and stem == folder:
            base = posixpath.normpath(posixpath.join(srcdir, ".."))
        return posixpath.normpath(posixpath.join(base, req))
    if req.startswith("/"):
        return posixpath.normpath(req)
    name, rest = comps[0][1], [c[1] if c[0] == "Normal" else {"ParentDir": "..", "CurDir": "."}[c[0]] for c in comps[1:]]
    table = dict(SOURCES) if mode == "path" else {"@" + k: v for k, v in SOURCES}
    if mode == "luau" and name == "@self":
        return posixpath.normpath(posixpath.join(srcdir, *rest))
    if name in dict(RC_ALIASES):
        return posixpath.normpath(posixpath.join(dict(RC_ALIASES)[name], *rest))
    if name in table:
        return posixpath.normpath(posixpath.join(PROJECT, table[name], *rest))
    return None


def spec_resolve(mode, folder, req, source, files):
    head = spec_head(mode, folder, req, source)
    if head is None:
        return None
    for c in spec_candidates(head, folder):
        if posixpath.normpath(c) in files:
            return posixpath.normpath(c)
    return None


# ---- the code, evaluated ------------------------------------------------------------------------------------------
class Harness:
    def __init__(self, ctx):
        self.ctx, self.lib = ctx, ctx.lib
        lib = ctx.lib
        self.find = lib.fn(RM + "::find_require")
        rm = lib.adts.get(RM)
        self.variants = {}
        for v in (rm or {}).get("variants", []):
            if len(v["fields"]) == 1:
                self.variants[v["name"]] = v["fields"][0]["tys"]
        # the convert_require processor: a NodeProcessor holding two RequireMode values
        self.conv_adt, self.conv_fn = None, None
        for p, a in lib.adts.items():
            fs = [f for v in a.get("variants", []) for f in v["fields"]]
            modes = [f["name"] for f in fs if f["tys"] == RM]
            if len(modes) == 2 and a.get("kind") == "struct":
                for k, f in lib.fns.items():
                    if k.startswith("<" + p) and k.endswith("as process::node_processor::NodeProcessor>::process_function_call") and thir.body_of(f):
                        self.conv_adt, self.conv_fn, self.conv_fields = p, f, fs
        self.tracker_new = lib.fn("process::scope_visitor::IdentifierTracker::new")

    def by_type(self, adt, values):
        """field overrides chosen by field TYPE (private field names are free to change): values = [(type predicate, value)]"""
        over = {}
        for v in self.lib.adts[adt]["variants"]:
            for f in v["fields"]:
                for pred, val in values:
                    if pred(f["tys"]):
                        over[f["name"]] = val() if callable(val) else val
                        break
        return over

    def mode(self, kind, folder="init", rev=False):
        lib = self.lib
        SOURCES = list(reversed(globals()["SOURCES"])) if rev else globals()["SOURCES"]     # insertion order = iteration order of the model map
        is_map = lambda t: "HashMap<alloc::string::String, std::path::PathBuf>" in t and not t.startswith("core::option::Option<")
        is_opt_map = lambda t: t.startswith("core::option::Option<") and "HashMap<alloc::string::String, std::path::PathBuf>" in t
        rc = lambda: some(PyMap([(k, PathV(v)) for k, v in RC_ALIASES]))
        if kind == "path":
            adt = self.variants["Path"]
            return Enum(RM, "Path", {"0": make(lib, adt, self.by_type(adt, [
                (lambda t: t == "alloc::string::String", folder), (is_map, lambda: PyMap([(k, PathV(v)) for k, v in SOURCES])),
                (is_opt_map, rc), (lambda t: t == "bool", True)]))})
        adt = self.variants["Luau"]
        return Enum(RM, "Luau", {"0": make(lib, adt, self.by_type(adt, [
            (is_map, lambda: PyMap([("@" + k, PathV(v)) for k, v in SOURCES])), (is_opt_map, rc), (lambda t: t == "bool", True)]))})

    def call_node(self, text):
        lib = self.lib
        s = make(lib, N + "expressions::string::StringExpression", {"value": list(text.encode()), "token": NONE})
        return make(lib, N + "function_call::FunctionCall", {
            "prefix": Enum(N + "expressions::prefix::Prefix", "Identifier", {"0": make(lib, N + "identifier::Identifier", {"name": "require"})}),
            "arguments": Enum(N + "arguments::Arguments", "String", {"0": s}), "method": NONE})

    def hook(self, files):
        dirs = set()
        for f in files:
            d = posixpath.dirname(f)
            while d and d not in dirs:
                dirs.add(d)
                d = posixpath.dirname(d)
        dirs.add(".")

        def h(pe, path, fname, args, node):
            if "Resources" in path and len(args) == 2 and isinstance(args[1], str):
                p = posixpath.normpath(str(args[1]))
                if fname == "is_file":
                    return ok(p in files)
                if fname == "exists":
                    return ok(p in files or p in dirs)
                if fname == "is_directory":
                    return ok(p in dirs)
            return NotImplemented
        return h

    def context(self, source):
        return make(self.lib, CTX, self.by_type(CTX, [
            (lambda t: t == "std::path::PathBuf", PathV(source)), (lambda t: "Resources" in t, lambda: Struct("#Resources", {})),
            (lambda t: t == "core::option::Option<std::path::PathBuf>", lambda: some(PathV(PROJECT))), (lambda t: t.endswith("str"), "")]))

    def resolve(self, mode, req_or_call, source, files):
        """('ok', normalised path) | ('none',) | ('err',) | ('unknown', reasons)"""
        pe = peval.PEval(self.lib, self.ctx.an, hook=self.hook(files))
        call = self.call_node(req_or_call) if isinstance(req_or_call, str) else req_or_call
        try:
            r = pe.call_fn(self.find, [mode, call, self.context(source)])
        except peval.OutOfFuel:
            return ("unknown", ["no termination"])
        if any(w.startswith(("branch on unknown", "match on unknown")) for w in pe.unknown_reasons):
            return ("unknown", [w for w in pe.unknown_reasons if "unknown" in w][:2] + pe.unknown_reasons[:2])
        if isinstance(r, Enum) and r.variant == "Err":
            return ("err",)
        if isinstance(r, Enum) and r.variant == "Ok":
            v = r.fields.get("0")
            if isinstance(v, Enum) and v.variant == "None":
                return ("none",)
            if isinstance(v, Enum) and v.variant == "Some" and isinstance(v.fields.get("0"), str):
                return ("ok", posixpath.normpath(str(v.fields["0"])))
        return ("unknown", pe.unknown_reasons[:3])

    def convert(self, cur, tgt, req, source, files):
        """the call node after the processor ran, and the evaluator's unknown reasons"""
        pe = peval.PEval(self.lib, self.ctx.an, hook=self.hook(files))
        over = {}
        modes = [cur, tgt]
        for f in self.conv_fields:
            if f["tys"] == RM:
                over[f["name"]] = modes.pop(0)      # declaration order: current, target (checked by `anchor:modes`)
            elif "Context" in f["tys"]:
                over[f["name"]] = self.context(source)
            elif "IdentifierTracker" in f["tys"] and self.tracker_new is not None:
                over[f["name"]] = pe.call_fn(self.tracker_new, [])
        conv = make(self.lib, self.conv_adt, over)
        call = self.call_node(req)
        try:
            pe.call_fn(self.conv_fn, [conv, call])
        except peval.OutOfFuel:
            return None, ["no termination"]
        if any(w.startswith(("branch on unknown", "match on unknown")) for w in pe.unknown_reasons):
            return None, pe.unknown_reasons[:4]
        return call, pe.unknown_reasons[:3]


SOURCES_FILES = ["src/main.lua", "src/init.lua", "src/sub/init.luau", "main.lua", "init.lua", "src/sub/index.lua"]
REL_REQS = ["..", ".", "./sub/..", "./m", "../m", "./sub/m", "./m.lua", "./m.luau", "./m.d", "././m", "./sub/../m", "../x/m", "../../x/m", "./sub/init.spec", "./init.d"]
NAMED = {"path": ["pkg/m", "pkg", "lib/m.lua", "nope/m", "@rc/m"], "luau": ["@pkg/m", "@pkg", "@lib/m.lua", "@self/m", "@self", "@nope/m", "@rc/m"]}
MODES = [("path", "init"), ("path", "index"), ("path", "index.lua"), ("luau", "init")]
CONVERT_PAIRS = [(("path", "init"), ("path", "init")), (("path", "init"), ("luau", "init")), (("luau", "init"), ("path", "init")), (("luau", "init"), ("luau", "init")),
                 (("path", "index"), ("luau", "init")), (("luau", "init"), ("path", "index")), (("path", "index"), ("path", "init")), (("path", "init"), ("path", "index"))]


def layouts(cands, tier, full):
    cands = [posixpath.normpath(c) for c in cands]
    out = [frozenset()]
    out += [frozenset([c]) for c in cands]
    if full:
        out += [frozenset(p) for p in itertools.combinations(cands, 2)]
        if tier == "thorough":
            for n in range(3, len(cands) + 1):
                out += [frozenset(p) for p in itertools.combinations(cands, n)]
    return out


_H = None


def _resolve_row(job):
    kind, folder, source, req, tier = job
    H = _H
    mode = H.mode(kind, folder)
    head = spec_head(kind, folder, req, source)
    cands = spec_candidates(head, folder) if head is not None else []
    # every pair / subset for the plain shapes; singles for the rest
    full = req in ("./m", "../m", "pkg/m", "@pkg/m", "@self/m") and source in ("src/main.lua", "src/init.lua")
    bad, cells = None, 0
    for files in layouts(cands, tier, full):
        want = spec_resolve(kind, folder, req, source, files)
        got = H.resolve(mode, req, source, files)
        cells += 1
        good = (got[0] == "err") if want is None else (got == ("ok", want))
        if not good and bad is None:
            bad = (sorted(files), want, got)
    return ("%s(%s)|%s|%s" % (kind, folder, source, req), bad, cells)


def pmap(fn, jobs):
    import multiprocessing as mp
    import os
    n = min(12, os.cpu_count() or 1)
    if n <= 1 or len(jobs) < 8:
        return [fn(j) for j in jobs]
    with mp.get_context("fork").Pool(n) as pool:
        return pool.map(fn, jobs, chunksize=max(1, min(4, len(jobs) // (n * 2) or 1)))


def resolve_rule(R, ctx, H, tier, rid="C15.resolve", relative_only=False):
    R.rule(rid, "RequireMode::find_require, evaluated from its typed tree with std::path's Unix semantics and the file system as an "
                "enumerated oracle, returns the first existing candidate of the documented order (path, .luau, .lua, folder file, "
                "folder file .luau, .lua), relative to the requiring file for ./ and ../ (its parent when the requiring file is a "
                "module-folder file, luau mode), to the configured source / alias / .luaurc alias / @self otherwise; unknown sources are errors. "
                "Compared with an independent specification for every mode x requiring file x require string x layout "
                "(none, each single candidate, each pair; thorough: every subset)")
    jobs = [(kind, folder, source, req, tier) for kind, folder in MODES for source in SOURCES_FILES for req in REL_REQS + ([] if relative_only else NAMED[kind])]
    n = n_cells = 0
    for key, bad, cells in pmap(_resolve_row, jobs):
        n += 1
        n_cells += cells
        R.ob(rid, key, bad is None, ctx.where(H.find),
             "%d layouts agree with the documented order" % cells if bad is None else
             "files present %s: documented result %s, code gives %s" % (bad[0], bad[1], bad[2]))
    lo = (60, 500) if relative_only else (150, 1200)
    R.require(rid, "floor:cells", n >= lo[0] and n_cells >= lo[1], ctx.where(H.find), "%d (mode, file, require) rows, %d layouts evaluated" % (n, n_cells))
    R.meta[rid] = {"rows": n, "layouts": n_cells}


def string_of(call):
    """the require argument written into the call, or None"""
    a = call.fields.get("arguments")
    s = None
    if isinstance(a, Enum) and a.variant == "String":
        s = a.fields.get("0")
    elif isinstance(a, Enum) and a.variant == "Tuple":
        vals = a.fields["0"].fields.get("values") if isinstance(a.fields.get("0"), Struct) else None
        if isinstance(vals, list) and len(vals) == 1 and isinstance(vals[0], Enum) and vals[0].variant == "String":
            s = vals[0].fields.get("0")
    if isinstance(s, Struct) and isinstance(s.fields.get("value"), list) and all(isinstance(b, int) for b in s.fields["value"]):
        return bytes(s.fields["value"]).decode("utf-8", "replace")
    return None


def _convert_row(job):
    (ck, cf), (tk, tf), source, req, tier = job
    H = _H
    cur, tgt = H.mode(ck, cf), H.mode(tk, tf)
    head = spec_head(ck, cf, req, source)
    if head is None:
        return None
    bad, cells = None, 0
    for files in layouts(spec_candidates(head, cf), tier, False):
        if not files:
            continue
        first = H.resolve(cur, req, source, files)
        if first[0] != "ok":
            continue
        call, why = H.convert(cur, tgt, req, source, files)
        new = string_of(call) if call is not None else None
        cells += 1
        if new is None:
            bad = bad or (sorted(files), first[1], None, why)
            continue
        again = H.resolve(tgt, new, source, files)
        if again != ("ok", first[1]):
            bad = bad or (sorted(files), first[1], new, again)
        elif req in NAMED[ck]:
            # the alias tables are hash maps: the argument written must not depend on their iteration order
            call2, _ = H.convert(H.mode(ck, cf, rev=True), H.mode(tk, tf, rev=True), req, source, files)
            new2 = string_of(call2) if call2 is not None else None
            if new2 != new:
                bad = bad or (sorted(files), first[1], new, "`%s` when the alias map iterates in the other order" % new2)
    return ("%s%s->%s%s|%s|%s" % (ck, "" if cf == "init" else "(%s)" % cf, tk, "" if tf == "init" else "(%s)" % tf, source, req), bad, cells, ck, tk)


def convert_rule(R, ctx, H, tier):
    rid = "C15.convert"
    R.rule(rid, "the convert_require processor (found by role: the NodeProcessor holding two RequireMode values), evaluated from its "
                "typed tree for current/target in {path, luau}^2 and between modes whose module folder names differ (path `index` <-> luau, "
                "path `index` <-> path `init`): whenever the original require resolves to a file T under the current "
                "mode, the argument it writes resolves under the target mode to T (both resolutions by evaluating find_require). "
                "Layouts with exactly one candidate file present")
    if not R.require(rid, "anchor:processor", H.conv_fn is not None, "", "no NodeProcessor with two RequireMode fields found"):
        return
    names = [f["name"] for f in H.conv_fields if f["tys"] == RM]
    R.require(rid, "anchor:modes", len(names) == 2, ctx.where(H.conv_fn), "RequireMode fields in declaration order: %s" % names)
    jobs = [(c, t, source, req, tier) for c, t in CONVERT_PAIRS for source in SOURCES_FILES for req in REL_REQS + NAMED[c[0]]]
    n = n_conv = 0
    for res in pmap(_convert_row, jobs):
        if res is None or not res[2]:
            continue
        key, bad, cells, ck, tk = res
        n += 1
        n_conv += cells
        R.ob(rid, key, bad is None, ctx.where(H.conv_fn),
             "%d conversions keep their target" % cells if bad is None else
             "with %s present the require resolves to %s (%s mode); written `%s` resolves to %s (%s mode)" % (bad[0], bad[1], ck, bad[2], bad[3], tk))
    # layouts where the written argument is ambiguous: an explicit extension / folder file while an earlier candidate of the
    # shortened path exists too
    AMBIGUOUS = [("./m.lua", ("src/m.lua", "src/m.luau"), "ext"), ("./m/init.lua", ("src/m/init.lua", "src/m.lua"), "folder")]
    for (ck, cf), (tk, tf) in itertools.product([("path", "init"), ("luau", "init")], repeat=2):
        cur, tgt = H.mode(ck, cf), H.mode(tk, tf)
        for req, files, tag in AMBIGUOUS:
            files = frozenset(files)
            source = "src/main.lua"
            first = H.resolve(cur, req, source, files)
            call, why = H.convert(cur, tgt, req, source, files)
            new = string_of(call) if call is not None else None
            again = H.resolve(tgt, new, source, files) if new is not None else ("unknown", why)
            n_conv += 1
            R.ob(rid, "%s->%s|%s|%s|shadowed-by-earlier-candidate:%s" % (ck, tk, source, req, tag), first[0] == "ok" and again == first, ctx.where(H.conv_fn),
                 "with %s present `%s` resolves to %s (%s mode); written `%s` resolves to %s (%s mode)" % (sorted(files), req, first, ck, new, again, tk))
    # module folder names that carry an extension (`module_folder_name: "index.lua"`): the folder file must still be recognised
    # by its full name, also when the same stem exists with the other extension
    WITH_EXT = [(("luau", "init"), ("path", "index.lua"), "./lib/index.lua"), (("path", "init"), ("path", "index.lua"), "./lib/index.lua"),
                (("path", "index.lua"), ("path", "index.lua"), "./lib")]
    for (ck, cf), (tk, tf), req in WITH_EXT:
        cur, tgt = H.mode(ck, cf), H.mode(tk, tf)
        files, source = frozenset(["src/lib/index.lua", "src/lib/index.luau"]), "src/main.lua"
        first = H.resolve(cur, req, source, files)
        call, why = H.convert(cur, tgt, req, source, files)
        new = string_of(call) if call is not None else None
        again = H.resolve(tgt, new, source, files) if new is not None else ("unknown", why)
        n_conv += 1
        R.ob(rid, "%s(%s)->%s(%s)|%s|%s|folder-name-with-extension" % (ck, cf, tk, tf, source, req), first[0] == "ok" and again == first, ctx.where(H.conv_fn),
             "with %s present `%s` resolves to %s; written `%s` resolves to %s" % (sorted(files), req, first, new, again))
    R.require(rid, "floor:rows", n >= 100 and n_conv >= 300, ctx.where(H.conv_fn), "%d (modes, file, require) rows, %d conversions evaluated" % (n, n_conv))
    R.meta["C15.convert"] = {"rows": n, "conversions": n_conv}


def relative_resolution(R, ctx, rid):
    """The bundler inlines what find_require returns: the relative-require half of the resolution table, for another property."""
    global _H
    H = _H = Harness(ctx)
    if not R.require(rid, "anchor:find_require", H.find is not None and thir.body_of(H.find) and {"Path", "Luau"} <= set(H.variants), "",
                     "RequireMode::find_require / its Path and Luau variants not found"):
        return
    resolve_rule(R, ctx, H, "quick", rid=rid, relative_only=True)


def run(R, ctx):
    R.explanation = (
        "Require resolution and conversion are decided as finite decision procedures: RequireMode::find_require and the convert_require "
        "processor are evaluated from their typed tree (sa/peval.py) with std::path's documented Unix semantics (sa/pathmodel.py) and the "
        "file system as an enumerated oracle (hooks on Resources::is_file/exists/is_directory); every result is compared with an "
        "independent specification of the documented order. Nothing is executed, no file is read; a cell the evaluator cannot "
        "establish fails closed.")
    R.assumptions += ["Unix path semantics; UTF-8 names; alias tables given (no .luaurc discovery); roblox mode out of scope",
                      "pathdiff::diff_paths as in pathdiff 0.2.3 (transcribed in sa/pathmodel.py)"]
    global _H
    H = _H = Harness(ctx)
    if not R.require("C15.resolve", "anchor:find_require", H.find is not None and thir.body_of(H.find) and {"Path", "Luau"} <= set(H.variants), "",
                     "RequireMode::find_require / its Path and Luau variants not found"):
        return
    tier = R.tier
    resolve_rule(R, ctx, H, tier)
    convert_rule(R, ctx, H, tier)

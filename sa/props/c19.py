"""C19 Configurations are read strictly and round-trip without loss.

Decided:
  C19.strict    every RuleConfiguration::configure either calls verify_no_rule_properties or matches
                each property key with a fallback arm returning UnexpectedProperty; configuration
                structs carry deny_unknown_fields; the rule-object reader rejects duplicate keys   [T7]
  C19.keys      writer/reader agreement per rule: every key `configure` accepts can be emitted by
                `serialize_to_properties` (literal insert, or stored original properties)          [T9]
  C19.filters   decision table of `Serialize for dyn Rule`: the bare-name form only when there is no
                property and no filter; each filter list emitted under its own emptiness test      [T4]
  C19.collide   property keys whose handlers write the same field are listed together in one
                verify_property_collisions call; the verify_* helpers scan the whole name list      [T7]
  C19.registry  rule names: get_all_rule_names == FromStr arms == get_name results; defaults listed [T9]
Not decided: pattern validity, JSON5 parsing.
"""
from .. import thir, absint, interproc
from ..thir import callee_of
from ..facts import norm_path

RC = "rules::RuleConfiguration"
RULE_SELF = "rules::"


def rule_impls(lib):
    out = []
    for im in lib.impls:
        if im.get("trait") == RC:
            items = {it["name"]: it["path"] for it in im["items"]}
            out.append((im["selfs"], items))
    return out


def configure_keys(ctx, fn):
    """Top-level property keys accepted by `configure`: string patterns of matches on the iterated key,
    plus literals looked up on the properties map; returns (keys, has_fallback_error, arms)."""
    lib = ctx.lib
    a = ctx.an.fa(fn["path"])
    keys, arms_by_key = set(), {}
    fallback, best_strings = None, -1
    for n in thir.walk(thir.body_of(fn)):
        if n.get("k") == "Match" and n.get("src") == "Normal":
            sc = n["scrut"]
            inner = sc["args"][0] if sc.get("k") == "Call" and sc.get("fname") in ("as_str", "as_ref", "deref") and len(sc["args"]) == 1 else None
            while inner is not None and inner.get("k") in ("Borrow", "Deref"):
                inner = inner["e"]
            is_key = inner is not None and inner.get("k") == "Var"
            if not is_key:
                continue
            # only the match over the key bound by the loop over the `properties` parameter
            srcs = a.origins(sc)
            if ("#param", 1) not in srcs:
                continue
            for arm in n["arms"]:
                ks = thir.pat_strings(arm["pat"])
                for k in ks:
                    keys.add(k)
                    arms_by_key[k] = arm
                if thir.pat_is_catchall(arm["pat"]):
                    errs = [x for x in thir.walk(arm["body"]) if x.get("k") == "Adt" and x.get("variant") == "UnexpectedProperty"]
                    rets = [x for x in thir.walk(arm["body"]) if x.get("k") == "Return"]
                    # the dispatching match is the one with the most key strings; a `matches!(key, "x")` further down is not it
                    n_strings = sum(len(thir.pat_strings(a2["pat"])) for a2 in n["arms"])
                    if fallback is None or n_strings >= best_strings:
                        fallback, best_strings = bool(errs) and bool(rets), n_strings
        if n.get("k") == "Call" and n.get("fname") in ("get", "remove", "contains_key", "remove_entry") and len(n["args"]) > 1:
            if ("#param", 1) in a.origins(n["args"][0]):
                s = thir.lit_str(n["args"][1])
                if s is not None:
                    keys.add(s)
    return keys, fallback, arms_by_key


def serialize_keys(ctx, fn, conf_fn):
    """Keys serialize_to_properties can emit; '*' when it returns the stored original properties."""
    lib = ctx.lib
    keys = set()
    a = ctx.an.fa(fn["path"])
    for n in thir.walk(thir.body_of(fn)):
        if n.get("k") == "Call" and n.get("fname") == "insert" and len(n["args"]) > 1:
            s = thir.lit_str(n["args"][1])
            if s is not None:
                keys.add(s)
    # stored-original idiom: the returned map derives from a field that configure assigns from its parameter
    ret_fields = {o for o in a.origins(thir.body_of(fn)) if o[0] != "#param"}
    for n in thir.walk(thir.body_of(fn)):
        if n.get("k") == "LetStmt" and "init" in n:
            ret_fields |= {o for o in a.origins(n["init"]) if o[0] != "#param"}
    ca = ctx.an.fa(conf_fn["path"])
    for n in thir.walk(thir.body_of(conf_fn)):
        if n.get("k") == "Assign" and n["l"].get("k") == "Field":
            tgt = (n["l"].get("adt"), n["l"].get("f"))
            if tgt in ret_fields and ("#param", 1) in ca.origins(n["r"]):
                keys.add("*")
    return keys


def _unknown_key_refused(ctx, selfs, conf):
    """configure() evaluated (sa/peval.py) on Default with one property the rule cannot know: True when the result is
    Err(UnexpectedProperty), False when it is Ok, None when the evaluation does not establish either (the caller then
    falls back to the shape of the key match)."""
    from .. import peval
    from ..peval import Enum, PyMap
    lib = ctx.lib
    dflt = lib.fn("<%s as core::default::Default>::default" % selfs)
    pe = peval.PEval(lib, ctx.an)
    try:
        # rules without a Default (they need an argument) are given as an abstract value: the unknown key is refused before any field matters
        rule = pe.call_fn(dflt, []) if dflt is not None and thir.body_of(dflt) else peval.make(lib, selfs)
        r = pe.call_fn(conf, [rule, PyMap([("__verif_unknown_property__", Enum("rules::rule_property::RulePropertyValue", "Boolean", {"0": True}))])])
    except peval.OutOfFuel:
        return None
    if isinstance(r, Enum) and r.variant == "Ok" and not any(w.startswith(("branch on unknown", "match on unknown")) for w in pe.unknown_reasons):
        return False
    if isinstance(r, Enum) and r.variant == "Err":
        e = r.fields.get("0")
        if isinstance(e, Enum) and e.variant == "UnexpectedProperty":
            return True
    return None


# rules whose serialized form is known to lose properties (genuine, recorded): handled through known_findings.json
def strict_and_keys(R, ctx):
    lib = ctx.lib
    rs, rk = "C19.strict", "C19.keys"
    R.rule(rs, "every RuleConfiguration::configure rejects unknown properties (verify_no_rule_properties, or a key match whose catch-all arm "
               "returns RuleConfigurationError::UnexpectedProperty)")
    R.rule(rk, "for every rule, each property key accepted by configure is a key that serialize_to_properties can emit (or the rule returns "
               "its stored original properties): otherwise serialize+read loses the property and two different configurations serialize alike")
    impls = rule_impls(lib)
    R.require(rs, "floor:rules", len(impls) >= 30, "", "%d RuleConfiguration impls" % len(impls))
    n_keys = 0
    for selfs, items in sorted(impls):
        conf = lib.fns.get(items.get("configure"))
        ser = lib.fns.get(items.get("serialize_to_properties"))
        short = selfs.split("::")[-1]
        if not R.require(rs, "%s|anchor" % short, conf is not None and ser is not None, "", "configure/serialize_to_properties not found"):
            continue
        names = {c.get("fname") for c in thir.fn_refs(conf)}
        keys, fallback, arms = configure_keys(ctx, conf)
        if "verify_no_rule_properties" in names:
            R.ob(rs, "%s|rejects-unknown" % short, not keys, ctx.where(conf), "parameterless: verify_no_rule_properties")
            continue
        if short == "Bundler":
            # not a user-configurable rule object (built from the `bundle` section)
            R.ob(rs, "%s|not-deserialized" % short, True, ctx.where(conf), "internal rule, never read from a rule object", nontrivial=False)
            continue
        sem = _unknown_key_refused(ctx, selfs, conf)
        if sem is not None:
            R.ob(rs, "%s|rejects-unknown" % short, sem, ctx.where(conf),
                 "configure() evaluated with an unknown key %s" % ("returns UnexpectedProperty" if sem else "does NOT return UnexpectedProperty (unknown properties silently accepted)"))
        else:
            R.ob(rs, "%s|rejects-unknown" % short, bool(fallback), ctx.where(conf),
                 "catch-all arm of the key match %s" % ("returns UnexpectedProperty" if fallback else "does not return UnexpectedProperty (unknown properties silently ignored)"))
        skeys = serialize_keys(ctx, ser, conf)
        for k in sorted(keys):
            n_keys += 1
            ok = "*" in skeys or k in skeys
            R.ob(rk, "%s|%s" % (short, k), ok, ctx.where(ser),
                 "emitted" if ok else "property `%s` is accepted by %s::configure but never written by serialize_to_properties: lost on round-trip" % (k, short))
    R.require(rk, "floor:keys", n_keys >= 12, "", "%d accepted property keys checked" % n_keys)


SERDE_STRICT = [
    "frontend::configuration::Configuration",
    "frontend::configuration::GeneratorParameters",
    "frontend::configuration::BundleConfiguration",
]
# Deserialize structs that legitimately accept unknown keys (third-party formats)
SERDE_LENIENT_OK = {
    "utils::luau_config::LuauConfiguration": ".luaurc is a Luau tool file with many keys darklua does not use",
    "rules::convert_require::rojo_sourcemap::RojoSourcemapNode": "Rojo sourcemap format, foreign keys allowed",
}


def serde_strict(R, ctx):
    rid = "C19.strict"
    lib = ctx.lib
    for p in SERDE_STRICT:
        ad = lib.adts.get(p)
        if R.require(rid, "serde|anchor:" + p, ad is not None, "", "not found"):
            attrs = " ".join(ad.get("attrs", []))
            R.ob(rid, "serde|deny_unknown_fields|" + p, "deny_unknown_fields" in attrs, ctx.adt_where(p), attrs[:200])
    # every struct-like Deserialize derive reachable from configuration files
    n = 0
    for p, ad in lib.adts.items():
        attrs = " ".join(ad.get("attrs", []))
        if "Deserialize" not in attrs or "derive" not in attrs:
            continue
        if ad["kind"] == "enum" and ("untagged" in attrs or not any(v["fields"] and v["fields"][0]["name"].isidentifier() and not v["fields"][0]["name"].isdigit() for v in ad["variants"])):
            continue  # unit/untagged enums have no field names to be unknown
        n += 1
        if p in SERDE_LENIENT_OK:
            R.ob(rid, "serde|lenient-reviewed|" + p, True, ctx.adt_where(p), SERDE_LENIENT_OK[p], nontrivial=False)
            continue
        R.ob(rid, "serde|deny_unknown_fields|" + p, "deny_unknown_fields" in attrs, ctx.adt_where(p),
             "derive(Deserialize) %s deny_unknown_fields: %s" % ("with" if "deny_unknown_fields" in attrs else "WITHOUT", attrs[:160]))
    R.require(rid, "serde|floor", n >= 5, "", "%d Deserialize structs with named fields" % n)
    # duplicate keys in rule objects
    vm = [f for f in lib.fn_list if f["path"].endswith("::visit_map") and "dyn rules::Rule" in f["path"] and thir.body_of(f)]
    if R.require(rid, "visit_map|anchor", len(vm) == 1, "", "%d candidates" % len(vm)):
        f = vm[0]
        arms = interproc.key_arms(f)
        is_dup = lambda n: n.get("fname") == "duplicate_field" and n.get("k") in ("Call", "Zst") and "fn" in n
        dup = [k for k in ("rule", "apply_to_files", "skip_files") if k in arms and interproc.reaches(lib, arms[k], is_dup)]
        R.ob(rid, "visit_map|duplicate-reserved-keys", len(dup) >= 3, ctx.where(f), "the arms of %s refuse a second occurrence (duplicate_field), directly or in a local helper" % dup)
        a = ctx.an.fa(f["path"])
        ins = [c for c in thir.calls(f) if c.get("fname") == "insert" and "HashMap" in (c.get("fn") or "")]
        ok = False
        for c in ins:
            par = a.parent.get(id(c))
            while par is not None and par.get("k") in ("Borrow", "Deref"):
                par = a.parent.get(id(par))
            if par is not None and par.get("k") == "Call" and par.get("fname") == "is_some":
                ok = True
        R.ob(rid, "visit_map|duplicate-property-rejected", ok, ctx.where(f), "properties.insert(..).is_some() is tested: %s" % ok)
        R.ob(rid, "visit_map|missing-rule-name", any(c.get("fname") == "missing_field" for c in thir.fn_refs(f)), ctx.where(f), "missing `rule` key is an error")


def filters(R, ctx):
    """The generic rule serializer as a function from (properties, apply list, skip list) to the written document."""
    from .. import peval
    from ..peval import Enum, Struct, UNKNOWN, UNIT, ok
    rid = "C19.filters"
    lib = ctx.lib
    R.rule(rid, "<dyn Rule as Serialize>::serialize, evaluated from its typed tree against a recording serializer for every combination of "
                "{no / two properties} x {apply list of 0, 1, 2 patterns} x {skip list of 0, 1, 2 patterns}: the bare rule-name string is written "
                "only when all three are empty; otherwise one map with `rule`, `apply_to_files` / `skip_files` exactly when their own list is "
                "non-empty (a single pattern as a string, several as a list, every pattern present) and every property, properties in key order "
                "(the configuration fingerprint of C10 hashes this text), closed with end()")
    cands = [f for f in lib.fn_list if f["path"].endswith("as serde_core::ser::Serialize>::serialize") and "dyn rules::Rule" in f["path"] and thir.body_of(f)]
    if not R.require(rid, "anchor:serialize", len(cands) == 1, "", "%d candidates" % len(cands)):
        return
    fn = cands[0]
    FP, RM = "utils::filter_pattern::FilterPattern", "rules::RuleMetadata"
    rm = lib.adts.get(RM)
    lists = [f["name"] for v in (rm["variants"] if rm else []) for f in v["fields"] if FP in f.get("tys", "")]
    if not R.require(rid, "anchor:metadata-lists", len(lists) == 2, ctx.adt_where(RM) if rm else "", "filter lists of RuleMetadata: %s" % lists):
        return
    apply_f = [x for x in lists if "apply" in x] or lists[:1]
    skip_f = [x for x in lists if x not in apply_f]
    apply_f, skip_f = apply_f[0], skip_f[0]

    def run_(props, A, S):
        log = []

        def hook(pe, path, fname, args, node):
            a0 = args[0] if args else None
            q = lib.fn(path)
            if q is not None and thir.body_of(q):
                return NotImplemented  # a local helper that merely receives one of the abstract objects
            if isinstance(a0, Struct) and a0.adt == "#Rule":
                if fname == "serialize_to_properties":
                    return Struct("#Props", {"items": [(k, "v_" + k) for k in props]})
                if fname == "get_name":
                    return "the_rule"
                if fname == "metadata":
                    return Struct(RM, {apply_f: [Struct(FP, {"original": x}) for x in A], skip_f: [Struct(FP, {"original": x}) for x in S]})
                if fname == "has_properties":
                    return bool(props)
                return UNKNOWN
            if isinstance(a0, Struct) and a0.adt == "#Props":
                if fname == "len":
                    return len(a0.fields["items"])
                if fname == "is_empty":
                    return not a0.fields["items"]
                if fname in ("into_iter", "iter"):
                    return peval.Iter(list(a0.fields["items"]))
                return UNKNOWN
            if isinstance(a0, Struct) and a0.adt == "#Ser":
                if fname == "serialize_str":
                    log.append(("str", args[1]))
                    return ok("#done")
                if fname == "serialize_map":
                    return ok(Struct("#Map", {}))
                if fname == "collect_map" and len(args) == 2:
                    it = args[1].rest() if isinstance(args[1], peval.Iter) else args[1]
                    if isinstance(it, list):
                        for kv in it:
                            log.append(("entry", kv[0], kv[1]))
                        log.append(("end",))
                        return ok("#done")
                return UNKNOWN
            if isinstance(a0, Struct) and a0.adt == "#Map":
                if fname == "serialize_entry" and len(args) == 3:
                    log.append(("entry", args[1], args[2]))
                    return ok(UNIT)
                if fname == "serialize_key" and len(args) == 2:
                    log.append(("key", args[1]))
                    return ok(UNIT)
                if fname == "serialize_value" and len(args) == 2 and log and log[-1][0] == "key":
                    log[-1] = ("entry", log[-1][1], args[1])
                    return ok(UNIT)
                if fname == "end":
                    log.append(("end",))
                    return ok("#done")
                return UNKNOWN
            return NotImplemented
        pe = peval.PEval(lib, ctx.an, hook)
        try:
            v = pe.call_fn(fn, [Struct("#Rule", {}), Struct("#Ser", {})])
        except peval.OutOfFuel:
            v = UNKNOWN
        return v, log, pe.unknown_reasons

    def norm(x):
        if isinstance(x, peval.Iter):
            x = x.rest()
        return list(x) if isinstance(x, list) else x
    n = 0
    for props in ([], ["b", "a"]):
        for A in ([], ["x"], ["x", "y"]):
            for S in ([], ["s"], ["s", "t"]):
                v, log, why = run_(props, A, S)
                n += 1
                key = "props_empty=%s,apply=%d,skip=%d" % (not props, len(A), len(S))
                problems = []
                done = isinstance(v, Enum) and v.variant == "Ok"
                if not done:
                    problems.append("serializer result not established (%s)" % "; ".join(why[:2]))
                elif not props and not A and not S:
                    if log != [("str", "the_rule")]:
                        problems.append("expected the bare rule name, wrote %s" % log)
                else:
                    if any(x[0] == "str" for x in log):
                        problems.append("bare-name form used although the rule carries properties/filters: they are lost")
                    ent = [(x[1], norm(x[2])) for x in log if x[0] == "entry"]
                    d = dict(ent)
                    if len(d) != len(ent):
                        problems.append("duplicate keys %s" % [k for k, _ in ent])
                    if d.get("rule") != "the_rule":
                        problems.append("`rule` entry missing")
                    for name, lst in (("apply_to_files", A), ("skip_files", S)):
                        want = None if not lst else (lst[0] if len(lst) == 1 else lst)
                        got = d.get(name)
                        if got != want and not (isinstance(want, str) and got == [want]):
                            problems.append("%s entry %s (expected %s)" % (name, "missing" if got is None else "is %s" % (got,), want))
                    pk = [k for k, _ in ent if k in props]
                    if pk != sorted(props):
                        problems.append("properties written as %s, expected all of them in key order %s" % (pk, sorted(props)))
                    if ("end",) not in log:
                        problems.append("map not closed with end()")
                R.ob(rid, "serialize|" + key, not problems, ctx.where(fn), "; ".join(problems) if problems else "document as specified: %s" % (log,))
    R.require(rid, "floor:states", n >= 18, ctx.where(fn), "%d states evaluated" % n)


def collide(R, ctx):
    rid = "C19.collide"
    lib = ctx.lib
    R.rule(rid, "(a) property keys whose match arms assign the same field of the rule are listed together in one verify_property_collisions "
                "call (else the result depends on HashMap order); (b) verify_property_collisions / verify_required_* iterate the *whole* "
                "`names` slice (no skip/take/split_first/indexing)")
    for selfs, items in sorted(rule_impls(lib)):
        conf = lib.fns.get(items.get("configure"))
        if conf is None or not thir.body_of(conf):
            continue
        short = selfs.split("::")[-1]
        keys, fallback, arms = configure_keys(ctx, conf)
        if len(keys) < 2:
            continue
        a = ctx.an.fa(conf["path"])
        writes = {}
        for k, arm in arms.items():
            for n in thir.walk(arm["body"]):
                if n.get("k") == "Assign" and n["l"].get("k") == "Field" and any(x.get("k") == "Var" and x.get("name") == "self" for x in thir.walk(n["l"])):
                    writes.setdefault(n["l"]["f"], set()).add(k)
        groups = []
        for c in thir.calls(conf):
            if c.get("fname") == "verify_property_collisions":
                groups.append({thir.lit_str(x) for x in thir.walk(c["args"][1]) if x.get("k") == "Lit" and x["v"].startswith('"')})
        for field, ks in sorted(writes.items()):
            if len(ks) < 2:
                continue
            for k1 in sorted(ks):
                for k2 in sorted(ks):
                    if k1 < k2:
                        ok = any(k1 in g and k2 in g for g in groups)
                        R.ob(rid, "%s|%s~%s" % (short, k1, k2), ok, ctx.where(conf),
                             "both write field `%s`; %s" % (field, "excluded together by verify_property_collisions" if ok else "NOT excluded together: a configuration with both is accepted and the winner depends on map order"))
    for helper in ("rules::verify_property_collisions", "rules::verify_required_properties", "rules::verify_required_any_properties"):
        fn = lib.fn(helper)
        if not R.require(rid, "anchor:" + helper, fn is not None, "", "not found"):
            continue
        a = ctx.an.fa(fn["path"])
        bad = []
        uses = 0
        for n in thir.walk(thir.body_of(fn)):
            if n.get("k") == "Call" and n["args"] and ("#param", 1) in a.origins(n["args"][0]) and callee_of(n) not in lib.fns:
                if n.get("fname") in ("iter", "into_iter"):
                    uses += 1
                if n.get("fname") in ("skip", "take", "split_first", "split_last", "split_at", "first", "last", "get", "step_by", "skip_while", "take_while", "windows", "chunks", "index", "nth"):
                    bad.append((n["fname"], n.get("ln")))
            if n.get("k") == "Index" and ("#param", 1) in a.origins(n["e"]):
                bad.append(("[..]", n.get("ln")))
        R.ob(rid, "%s|scans-all-names" % helper.split("::")[-1], uses >= 1 and not bad, ctx.where(fn),
             "iterates names.iter() without narrowing" if uses and not bad else "the name list is narrowed with %s: some names are never compared" % bad)


def registry(R, ctx):
    rid = "C19.registry"
    lib = ctx.lib
    R.rule(rid, "the rule-name registries agree: constants listed by get_all_rule_names == names matched by <Box<dyn Rule> as FromStr>::from_str "
                "== values returned by the rules' get_name; every default rule is registered")
    names_fn = lib.fn("rules::get_all_rule_names")
    from_str = [f for f in lib.fn_list if f["path"].endswith("::from_str") and "core::str::traits::FromStr" in f["path"] and "dyn rules::Rule" in f["path"] and thir.body_of(f)]
    if not R.require(rid, "anchor", names_fn is not None and len(from_str) == 1, "", "registry functions not found"):
        return
    def const_val(defpath):
        c = lib.consts.get(defpath)
        if c and c.get("thir") and c["thir"].get("body"):
            return thir.lit_str(c["thir"]["body"])
        return None
    listed = set()
    for n in thir.walk(thir.body_of(names_fn)):
        if n.get("k") == "Const":
            v = const_val(n["def"])
            if v:
                listed.add(v)
    parsed = set()
    for n in thir.walk(thir.body_of(from_str[0])):
        if n.get("k") == "Match":
            for arm in n["arms"]:
                parsed |= set(thir.pat_strings(arm["pat"]))
    got = set()
    for selfs, items in rule_impls(lib):
        g = lib.fns.get(items.get("get_name"))
        if g and thir.body_of(g):
            for n in thir.walk(thir.body_of(g)):
                if n.get("k") == "Const":
                    v = const_val(n["def"])
                    if v:
                        got.add(v)
    internal = {"bundler", "replace_referenced_tokens", "shift_token_line"}
    R.require(rid, "floor:listed", len(listed) >= 30, "", "%d names listed" % len(listed))
    for nme in sorted(listed | parsed | (got - internal)):
        R.ob(rid, "name|" + nme, nme in listed and nme in parsed and nme in got, ctx.where(names_fn),
             "listed=%s parsed=%s get_name=%s" % (nme in listed, nme in parsed, nme in got))


SKIP_PREDICATES = {
    # predicate -> what the deserialisation default must be for the skipped value to come back
    "Option::is_none": "none", "Vec::is_empty": "empty", "HashSet::is_empty": "empty", "HashMap::is_empty": "empty", "String::is_empty": "empty",
    "std::ops::Not::not": "false", "core::ops::Not::not": "false", "Not::not": "false",
}


def skip_default(R, ctx):
    rid = "C19.skipdefault"
    lib = ctx.lib
    import re
    R.rule(rid, "for every serde field with `skip_serializing_if = P`, the value P skips is exactly the value deserialisation restores when the key is "
                "absent: is_none <-> Option, is_empty <-> `default` (empty container), Not::not <-> a default that is false, a local predicate "
                "`is_default_x` <-> the local `default = \"..x\"` function it compares with; otherwise a non-default value vanishes on round-trip")
    n = 0
    for p, ad in sorted(lib.adts.items()):
        for v in ad["variants"]:
            for f in v["fields"]:
                a = " ".join(f.get("attrs", []))
                m = re.search(r'skip_serializing_if\s*=\s*"([^"]+)"', a)
                if not m:
                    continue
                n += 1
                pred = m.group(1)
                dm = re.search(r'default\s*=\s*"([^"]+)"', a)
                has_plain_default = bool(re.search(r'(^|[\s(,])default\s*([,)]|$)', a))
                key = "%s.%s" % (p.split("::")[-1], f["name"])
                where = ctx.adt_where(p)
                want = SKIP_PREDICATES.get(pred)
                if want == "none":
                    ok = f["tys"].startswith("core::option::Option")
                    R.ob(rid, key, ok, where, "skips None; field type %s" % f["tys"][:40])
                elif want == "empty":
                    ok = (has_plain_default and not dm) or (dm is not None and _default_fn_class(lib, dm.group(1)) == "empty")
                    R.ob(rid, key, ok, where, "skips an empty container; default attribute: %s" % ("default" if has_plain_default else dm.group(1) if dm else "MISSING (absent key is an error or another value)"))
                elif want == "false":
                    cls = _default_fn_class(lib, dm.group(1)) if dm else ("false" if has_plain_default else None)
                    R.ob(rid, key, cls == "false", where, "skips `false`, but an absent key is read back as %s" % (cls or "an error"))
                else:
                    # local predicate: must call/compare with the local default function
                    fn = _find_local_fn(lib, pred)
                    dfn = dm.group(1) if dm else None
                    ok = False
                    if fn is not None and dfn:
                        names = {c.get("fname") for c in thir.fn_refs(fn)}
                        consts_ = {x.get("def", "").split("::")[-1] for x in thir.walk(thir.body_of(fn)) if x.get("k") == "Const"}
                        d = _find_local_fn(lib, dfn)
                        dconsts = {x.get("def", "").split("::")[-1] for x in thir.walk(thir.body_of(d)) if x.get("k") == "Const"} if d is not None else set()
                        ok = dfn.split("::")[-1] in names or bool(consts_ & dconsts)
                    R.ob(rid, key, ok, where, "custom predicate `%s` vs default `%s`: %s" % (pred, dfn, "compare the same constant" if ok else "not shown to agree"))
    R.require(rid, "floor", n >= 6, "", "%d skip_serializing_if fields (floor 6)" % n)


def _find_local_fn(lib, name):
    short = name.split("::")[-1]
    c = [f for p, f in lib.fns.items() if p.split("::")[-1] == short and thir.body_of(f)]
    return c[0] if len(c) >= 1 else None


def _default_fn_class(lib, name):
    f = _find_local_fn(lib, name)
    if f is None:
        return None
    from .. import tables
    cls = tables.classify_body(thir.body_of(f))
    if cls in ("true", "false"):
        return cls
    b = thir.body_of(f)
    calls_ = [c.get("fname") for c in thir.walk(b) if c.get("k") == "Call"]
    if calls_ and all(c in ("new", "default", "with_capacity") for c in calls_):
        return "empty"
    return "other"


def roundtrip(R, ctx):
    """configure o serialize_to_properties is the identity on every rule state reachable from one property (finite-domain evaluation)."""
    import copy
    from .. import peval
    from ..peval import Enum, Struct, UNKNOWN, PyMap, PySet, ok
    rid = "C19.roundtrip"
    lib = ctx.lib
    R.rule(rid, "for every rule with properties: starting from Default, configure() is evaluated with each accepted key set to each candidate "
                "value of each RulePropertyValue kind (booleans, a number, strings -- including every string the rule's own code compares "
                "with --, string lists with and without the `$`-groups); the resulting rule is serialised with serialize_to_properties() and "
                "the properties are fed to configure() on a fresh Default: the rule obtained is the same (string lists compared as sets, "
                "lazily computed caches ignored). A property that is dropped or altered on the way makes a saved configuration behave "
                "differently from the one that was given, and hides the edit from the configuration fingerprint (C10)")
    RPV = "rules::rule_property::RulePropertyValue"
    impls = [f for f in lib.fn_list if f["path"].endswith(" as rules::RuleConfiguration>::configure") and thir.body_of(f)]
    if not R.require(rid, "anchor:impls", len(impls) >= 30 and RPV in lib.adts, "", "%d RuleConfiguration::configure bodies" % len(impls)):
        return

    def hook(pe, path, fname, args, node):
        a0 = args[0] if args else None
        if fname == "new" and "regex" in path.lower() and len(args) == 1 and isinstance(a0, str):
            return ok(Struct("#Regex", {"src": a0}))
        if isinstance(a0, Struct) and a0.adt == "#Regex":
            if fname in ("as_str", "to_string", "to_owned"):
                return a0.fields["src"]
            return UNKNOWN
        if fname == "default" and "OnceLock" in path or fname == "new" and "OnceLock" in path:
            return Struct("#Cache", {})
        if fname == "var" and path.startswith("std::env::"):
            return peval.err(Struct("#VarError", {}))
        return NotImplemented

    def norm(v):
        if isinstance(v, Struct):
            if v.adt == "#Cache":
                return "#cache"
            return (v.adt, tuple(sorted((k, norm(x)) for k, x in v.fields.items())))
        if isinstance(v, Enum):
            return (v.adt, v.variant, tuple(sorted((k, norm(x)) for k, x in v.fields.items())))
        if isinstance(v, peval.Iter):
            v = v.rest()
        if isinstance(v, list):
            items = [norm(x) for x in v]
            return ("set", tuple(sorted(set(items), key=repr))) if all(isinstance(x, str) for x in v) else ("list", tuple(items))
        if isinstance(v, (PyMap,)):
            return ("map", tuple(sorted(((norm(k), norm(x)) for k, x in v.d.items()), key=repr)))
        if isinstance(v, PySet):
            return ("set", tuple(sorted((norm(k) for k in v.d), key=repr)))
        if isinstance(v, tuple):
            return tuple(norm(x) for x in v)
        return v if v is not UNKNOWN else "#unknown"
    # words accepted by the FromStr impls of the library (require modes, strategies, locations, ...)
    global_strings = set()
    for g in lib.fn_list:
        if g["path"].endswith("core::str::traits::FromStr>::from_str") and thir.body_of(g):
            for n in thir.walk(thir.body_of(g)):
                if n.get("k") == "Match":
                    for arm in n["arms"]:
                        global_strings.update(x for x in thir.pat_strings(arm["pat"]) if len(x) < 24)
    n_cells = n_rules = 0
    metadata_lost = {}
    for f in sorted(impls, key=lambda x: x["path"]):
        T = f["path"][1:].split(" as ")[0]
        short = T.split("::")[-1]
        dflt = lib.fn("<%s as core::default::Default>::default" % T)
        ser = lib.fn("<%s as rules::RuleConfiguration>::serialize_to_properties" % T)
        keys, strings = set(), set(global_strings)
        for g in interproc.scope(lib, f, depth=2):
            for n in thir.walk(thir.body_of(g)):
                if n.get("k") == "Match":
                    for arm in n["arms"]:
                        ps = set(thir.pat_strings(arm["pat"]))
                        strings.update(ps)
                        if g is f:
                            keys.update(ps)
                if n.get("k") == "Lit":
                    sv = thir.lit_str(n)
                    if sv and len(sv) < 24 and " " not in sv:
                        strings.add(sv)
        if not keys or dflt is None or ser is None:
            continue  # no properties (verify_no_rule_properties) / not default-constructible
        n_rules += 1
        cands = [Enum(RPV, "Boolean", {"0": True}), Enum(RPV, "Boolean", {"0": False}), Enum(RPV, "Usize", {"0": 3}), Enum(RPV, "Float", {"0": 2.5}),
                 Enum(RPV, "String", {"0": "x"}), Enum(RPV, "StringList", {"0": ["a"]}), Enum(RPV, "StringList", {"0": ["a", "b"]}),
                 Enum(RPV, "StringList", {"0": ["$default", "a"]}), Enum(RPV, "StringList", {"0": ["$roblox"]}), Enum(RPV, "StringList", {"0": []}), Enum(RPV, "None", {})]
        cands += [Enum(RPV, "String", {"0": sv}) for sv in sorted(strings)]
        bad, unk, acc = [], [], 0
        singles = [[(k, v)] for k in sorted(keys) for v in cands]
        accepted_single = {}
        for phase in ("single", "pair"):
          if phase == "pair":
            lonely = [k for k in sorted(keys) if k not in accepted_single]
            if not lonely:
                break
            if accepted_single:
                # keys never accepted on their own (they need a companion): try them next to one accepted cell of every other key
                cells = [[(k2, v2), (k, v)] for k in lonely for v in cands for k2, v2 in accepted_single.items()]
            else:
                # no key is accepted alone (mutually required keys): all pairs
                import itertools as _it
                cells = [[(k1, v1), (k2, v2)] for k1, k2 in _it.combinations(lonely, 2) for v1 in cands for v2 in cands]
          else:
            cells = singles
          for cell in cells:
            k, v = cell[-1]
            if True:
                pe = peval.PEval(lib, ctx.an, hook)
                try:
                    rule = pe.call_fn(dflt, [])
                    marked = [x for x in (rule.fields.values() if isinstance(rule, Struct) else []) if isinstance(x, Struct) and x.adt.endswith("::RuleMetadata")]
                    for x in marked:
                        x.fields["#mark"] = True        # the file filters given before configure() runs
                    r = pe.call_fn(f, [rule, PyMap([(kk, copy.deepcopy(vv)) for kk, vv in cell])])
                    if not (isinstance(r, Enum) and r.variant == "Ok"):
                        continue  # value refused (or not evaluable): nothing to round-trip
                    if marked:
                        now = [x for x in rule.fields.values() if isinstance(x, Struct) and x.adt.endswith("::RuleMetadata")]
                        if not now or not all(x.fields.pop("#mark", False) for x in now):
                            metadata_lost.setdefault(short, "%s = %s" % (k, v.fields.get("0")))
                    if pe.unknown_reasons:
                        unk.append((k, v.variant, pe.unknown_reasons[:1]))
                        continue
                    props = pe.call_fn(ser, [rule])
                    pe2 = peval.PEval(lib, ctx.an, hook)
                    rule2 = pe2.call_fn(dflt, [])
                    r2 = pe2.call_fn(f, [rule2, copy.deepcopy(props)]) if isinstance(props, PyMap) else None
                except peval.OutOfFuel:
                    unk.append((k, v.variant, ["no termination"]))
                    continue
                acc += 1
                n_cells += 1
                if phase == "single":
                    accepted_single.setdefault(k, v)
                if pe.unknown_reasons or pe2.unknown_reasons or not isinstance(props, PyMap):
                    unk.append((k, v.variant, (pe.unknown_reasons + pe2.unknown_reasons)[:1]))
                elif not (isinstance(r2, Enum) and r2.variant == "Ok"):
                    bad.append("%s is written as %s, which configure() refuses" % (", ".join("%s = %s" % (kk, vv.fields.get("0")) for kk, vv in cell), dict(props.d)))
                elif norm(rule) != norm(rule2):
                    bad.append("%s is written as %s and read back as a different rule" % (", ".join("%s = %s" % (kk, vv.fields.get("0")) for kk, vv in cell), {kk: vv.fields.get("0") if isinstance(vv, Enum) else vv for kk, vv in props.d.items()}))
        R.ob(rid, "%s|roundtrip" % short, not bad, ctx.where(f), "%d accepted (key, value) cells round-trip" % acc if not bad else bad[0])
        R.ob(rid, "%s|established" % short, not unk, ctx.where(f), "all cells evaluate" if not unk else "not established for %s" % (unk[0],), nontrivial=False)
    R.require(rid, "floor", n_rules >= 5 and n_cells >= 20, "", "%d rules with properties, %d accepted cells" % (n_rules, n_cells))
    # the file filters of a rule object are installed with set_metadata(): where the reader installs them BEFORE it calls configure(),
    # a configure() that replaces the metadata (e.g. `*self = Self::default()`) loses the filters that were just read
    rid2 = "C19.metadata"
    R.rule(rid2, "in the function that builds a rule from its configuration object (the one calling both RuleConfiguration::configure and "
                 "set_metadata), either the metadata is installed after configure(), or no rule's configure() -- evaluated as for C19.roundtrip, "
                 "with the metadata marked beforehand -- replaces the metadata it finds: the `apply_to_files` / `skip_files` filters that were "
                 "read are the ones the rule ends up with")
    readers = []
    for g in lib.fn_list:
        if not thir.body_of(g) or not g["path"].startswith(("rules::", "<")) or "rules" not in g["path"]:
            continue
        cs = [c for c in thir.calls(g) if c.get("fname") in ("configure", "set_metadata") and "Rule" in (c.get("trait") or c.get("fn") or "")]
        conf = [c.get("ln", 0) for c in cs if c.get("fname") == "configure"]
        meta = [c.get("ln", 0) for c in cs if c.get("fname") == "set_metadata"]
        if conf and meta:
            readers.append((g, min(meta) > max(conf)))
    if R.require(rid2, "anchor:reader", len(readers) >= 1, "", "%d functions call both configure and set_metadata" % len(readers)):
        for g, after in readers:
            lost = sorted(metadata_lost.items())
            R.ob(rid2, "%s|filters-survive-configure" % g["path"].split("::")[-1], after or not lost, ctx.where(g),
                 "set_metadata follows configure" if after else ("set_metadata precedes configure and no configure() replaces the metadata" if not lost else
                 "set_metadata precedes configure, and configure() of %s (with %s) replaces the rule's metadata: the filters read from the configuration are lost" % lost[0]))


def serialize_with_helpers(R, ctx, rid="C19.serialize-with"):
    """Hand-written field serializers of the configuration write every element they are given."""
    import re
    from .. import peval
    from ..peval import Enum, Struct, UNKNOWN, ok, UNIT
    lib = ctx.lib
    R.rule(rid, "every function named by a `#[serde(serialize_with = ..)]` attribute of a configuration type, evaluated from its typed tree against "
                "a recording serializer on lists of 0..4 elements: what reaches the serializer is every element, once, in order (a list of one "
                "element may be written bare). Fields without the attribute are written by the derive, which writes every element. A dropped "
                "element makes two configurations serialize alike, so an edit is invisible to the configuration fingerprint")
    names = set()
    n_fields = 0
    for p, ad in lib.adts.items():
        for v in ad.get("variants", []):
            for f in v.get("fields", []):
                n_fields += 1
                for a in f.get("attrs", []):
                    names |= set(re.findall(r'(?<![A-Za-z_])serialize_with\s*=\s*"([^"]+)"', a))
    R.require(rid, "anchor:field-attributes", n_fields >= 200, "", "%d fields inspected, serialize_with helpers named: %s" % (n_fields, sorted(names) or "none"))
    for name in sorted(names):
        short = name.split("::")[-1]
        cands = [f for k, f in lib.fns.items() if (k == name or k.endswith("::" + short)) and thir.body_of(f)]
        if not R.require(rid, "%s|anchor" % short, len(cands) == 1, "", "%d functions named %s" % (len(cands), short)):
            continue
        fn = cands[0]
        bad = None
        for k in range(0, 5):
            items = [Struct("#Elem", {"v": "e%d" % i}) for i in range(k)]
            log = []

            def hook(pe, path, fname, args, node):
                a0 = args[0] if args else None
                if isinstance(a0, Struct) and a0.adt == "#Elem" and fname == "serialize":
                    log.append(a0.fields["v"])
                    return ok("#done")
                if isinstance(a0, Struct) and a0.adt == "#Ser":
                    if fname == "collect_seq" and len(args) == 2:
                        it = args[1].rest() if isinstance(args[1], peval.Iter) else args[1]
                        if isinstance(it, list):
                            log.extend(x.fields["v"] if isinstance(x, Struct) and x.adt == "#Elem" else "?" for x in it)
                            return ok("#done")
                        return UNKNOWN
                    if fname in ("serialize_seq", "serialize_tuple"):
                        return ok(Struct("#Seq", {}))
                    if fname in ("serialize_none", "serialize_unit"):
                        return ok("#done")
                    if fname == "serialize_some" and len(args) == 2 and isinstance(args[1], Struct) and args[1].adt == "#Elem":
                        log.append(args[1].fields["v"])
                        return ok("#done")
                    return UNKNOWN
                if isinstance(a0, Struct) and a0.adt == "#Seq":
                    if fname == "serialize_element" and len(args) == 2:
                        x = args[1]
                        log.append(x.fields["v"] if isinstance(x, Struct) and x.adt == "#Elem" else "?")
                        return ok(UNIT)
                    if fname == "end":
                        return ok("#done")
                    return UNKNOWN
                return NotImplemented
            pe = peval.PEval(lib, ctx.an, hook)
            try:
                v = pe.call_fn(fn, [items, Struct("#Ser", {})])
            except peval.OutOfFuel:
                v = UNKNOWN
            want = ["e%d" % i for i in range(k)]
            if not (isinstance(v, Enum) and v.variant == "Ok") or pe.unknown_reasons:
                bad = bad or "%d elements: not established %s" % (k, pe.unknown_reasons[:2])
            elif log != want:
                bad = bad or "%d elements %s: the serializer receives %s" % (k, want, log)
        R.ob(rid, "%s|writes-every-element" % short, bad is None, ctx.where(fn), "lists of 0..4 elements are written completely" if bad is None else bad)


def run(R, ctx):
    R.explanation = (
        "Reader/writer agreement of the configuration layer decided on typed THIR: strictness of every configure(), serde attributes, "
        "per-rule key sets of configure vs serialize_to_properties, the generic rule serializer evaluated against a recording serializer for every "
        "combination of empty / non-empty properties and filter lists, collision guards for keys writing one field, and registry agreement. "
        "Decides that nothing accepted can be silently dropped or lost on round-trip; does not decide pattern validity or JSON5 parsing."
    )
    R.assumptions += ["property keys are string literals in match patterns / insert calls (the only idiom in the repository)"]
    strict_and_keys(R, ctx)
    serde_strict(R, ctx)
    filters(R, ctx)
    collide(R, ctx)
    registry(R, ctx)
    skip_default(R, ctx)
    serialize_with_helpers(R, ctx)
    roundtrip(R, ctx)

"""C02 Dense and readable generators emit code that means the same tree (structural part).

Decided:
  C02.prec    BinaryOperator::get_precedence realises the Lua 5.1 / Luau precedence order, precedes() is
              `>` on it, precedes_unary_expression = {^}, right-associative = {.., ^} = complement
              of left-associative                                                             [T4 order]
  C02.needs   decision tables of left_/right_needs_parentheses over the atoms (associativity of the
              parent, precedes(parent, child), precedes(child, parent)) equal the grammar's rule   [T4]
  C02.parens  in each of the three LuaGenerator impls, write_binary_expression writes an operand in
              parentheses whenever the corresponding needs_parentheses call of the node's own operator
              on that operand is true, left before right; write_unary_expression parenthesises binary
              operands that do not bind tighter than unary                                       [T7+T3]
  C02.semi    the three write_block implementations emit `;` under starts_with_parenthese(next) &&
              ends_with_prefix(current); expression_ends_with_prefix answers true-or-recurse for every
              Expression variant whose text can end with `)`, `]`, a name or a string              [T7+T4]
  C02.fuse    should_break_with_space, as a table over character classes, separates every pair of
              adjacent characters that Lua's lexer would fuse into one token (one-sided)           [T4]
  C02.raw     writes that bypass the fusion check (raw_push_*, merge_char) start with a separator
              character or are in the reviewed table                                               [T5]
Not decided: line wrapping, number/string text (C13), the shared parser/generator blind spot.
"""
from .. import thir, tables, absint, generators, guards
from ..thir import callee_of

BINOP = "nodes::expressions::binary::BinaryOperator"
EXPR = "nodes::expressions::Expression"
GROUPS = [["Or"], ["And"], ["Equal", "NotEqual", "LowerThan", "LowerOrEqualThan", "GreaterThan", "GreaterOrEqualThan"], ["Concat"],
          ["Plus", "Minus"], ["Asterisk", "Slash", "DoubleSlash", "Percent"], ["Caret"]]


def matches_set(lib, fn, enum):
    """Variant set of a `matches!(self, A | B)` body and whether it is negated."""
    body = thir.body_of(fn)
    e = body
    while e.get("k") == "Block" and not e["stmts"] and "tail" in e:
        e = e["tail"]
    neg = False
    if e.get("k") == "Unary" and e.get("op") == "Not":
        neg = True
        e = e["e"]
    gs = tables.guard_variant_sets(lib, e, enum)
    if len(gs) != 1:
        return None, neg
    return gs[0][1], neg


def prec(R, ctx):
    from .. import peval
    from ..peval import Enum
    rid = "C02.prec"
    lib = ctx.lib
    R.rule(rid, "precedence table or < and < comparison < .. < +- < */ // % < ^ (equal inside a group, strictly increasing across groups; only the "
                "relations count, renumbering is no alarm); precedes(a,b) = prec(a) > prec(b) on all 256 pairs; only ^ binds tighter than unary; "
                "right-associative = {.., ^}; left = complement. Every function is evaluated on its whole (finite) domain from its typed tree")
    names = [v["name"] for v in lib.adts[BINOP]["variants"]]
    R.require(rid, "get_precedence|reference-complete", {x for g in GROUPS for x in g} == set(names), "", "reference table lists every BinaryOperator variant")
    ref = {o: lvl for lvl, g in enumerate(GROUPS) for o in g}

    def ev(fname, *args):
        fn = lib.fn("%s::%s" % (BINOP, fname))
        if fn is None:
            return None, None
        pe = peval.PEval(lib, ctx.an)
        try:
            return fn, pe.call_fn(fn, [Enum(BINOP, a) for a in args])
        except peval.OutOfFuel:
            return fn, peval.UNKNOWN
    fn = lib.fn(BINOP + "::get_precedence")
    if R.require(rid, "anchor:get_precedence", fn is not None, "", "not found"):
        val = {o: ev("get_precedence", o)[1] for o in names}
        total = all(isinstance(v, int) and not isinstance(v, bool) for v in val.values())
        R.ob(rid, "get_precedence|total", total, ctx.where(fn), "every operator has an integer precedence: %s" % ({k: str(v) for k, v in val.items() if not isinstance(v, int)} or "yes"))
        if total and set(ref) <= set(val):
            for g in GROUPS:
                R.ob(rid, "get_precedence|group:%s" % g[0], len({val[x] for x in g}) == 1, ctx.where(fn), "%s share one level: %s" % (g, [val[x] for x in g]))
            for a, b in zip(GROUPS, GROUPS[1:]):
                R.ob(rid, "get_precedence|%s<%s" % (a[0], b[0]), val[a[0]] < val[b[0]], ctx.where(fn), "%d < %d" % (val[a[0]], val[b[0]]))
    fn = lib.fn(BINOP + "::precedes")
    if R.require(rid, "anchor:precedes", fn is not None, "", "not found") and set(ref) >= set(names):
        bad = []
        for a in names:
            for b in names:
                v = ev("precedes", a, b)[1]
                if v is not (ref[a] > ref[b]):
                    bad.append("%s,%s->%s" % (a, b, v))
        R.ob(rid, "precedes|strictly-greater", not bad, ctx.where(fn), "precedes(a, b) == prec(a) > prec(b) on all %d pairs%s" % (len(names) ** 2, "" if not bad else "; differs for " + ", ".join(bad[:6])))
    for name, want in (("precedes_unary_expression", {"Caret"}), ("is_right_associative", {"Caret", "Concat"}), ("is_left_associative", set(names) - {"Caret", "Concat"})):
        fn = lib.fn("%s::%s" % (BINOP, name))
        if R.require(rid, "anchor:" + name, fn is not None, "", "not found"):
            got = {o: ev(name, o)[1] for o in names}
            true_set = {o for o, v in got.items() if v is True}
            unk = [o for o, v in got.items() if not isinstance(v, bool)]
            R.ob(rid, name, true_set == want and not unk, ctx.where(fn), "true for %s%s" % (sorted(true_set), "; not established for %s" % unk if unk else ""))


# Lua 5.1 manual §2.5.6 (+ Luau `//`): precedence groups from low to high, and the right-associative operators.
REF_RIGHT_ASSOC = {"Concat", "Caret"}


def needs(R, ctx):
    """Whole decision table of the two parenthesisation functions by finite-domain evaluation (sa/peval.py)."""
    from .. import peval
    from ..peval import Enum, Struct, UNKNOWN, NONE
    rid = "C02.needs"
    lib = ctx.lib
    R.rule(rid, "decision table of BinaryOperator::{left,right}_needs_parentheses, extracted by evaluating the functions' typed tree (helpers "
                "inlined, accessors resolved) on EVERY (parent operator, child operator) pair and on every other operand shape that matters, "
                "compared with Lua's grammar (manual 2.5.6; `..` and `^` right associative): a Binary operand is parenthesised whenever "
                "prec(parent) > prec(child), or they are equal and the operand is on the non-associative side; a unary left operand under `^`; an "
                "if-expression left operand always; a Binary/Unary left operand that ends with an if-expression; for `<` a TypeCast/Unary/Binary "
                "left operand ending with a cast to a bare type name. One-sided: extra parentheses never change the tree's meaning")
    ops = [v["name"] for v in lib.adts[BINOP]["variants"]]
    ref = {}
    for lvl, g in enumerate(GROUPS):
        for o in g:
            ref[o] = lvl
    if not R.require(rid, "anchor:reference-complete", set(ref) == set(ops), "", "reference precedence table covers BinaryOperator: %s" % sorted(set(ops) ^ set(ref))):
        return
    N = "nodes::expressions::"
    BE, UE, IFE, TCE = N + "binary::BinaryExpression", N + "unary::UnaryExpression", N + "if_expression::IfExpression", N + "type_cast::TypeCastExpression"
    UOP = N + "unary::UnaryOperator"
    TYPE, TNAME, TFIELD = "nodes::types::Type", "nodes::types::type_name::TypeName", "nodes::types::type_field::TypeField"

    def fields_ok(adt, names):
        a = lib.adts.get(adt)
        have = {f["name"] for v in a["variants"] for f in v["fields"]} if a else set()
        return R.require(rid, "anchor:fields:" + adt.split("::")[-1], a is not None and set(names) <= have, ctx.adt_where(adt) if a else "", "fields %s of %s" % (sorted(names), adt))
    if not all([fields_ok(BE, ["operator", "left", "right"]), fields_ok(UE, ["operator", "expression"]), fields_ok(TCE, ["expression", "type"]),
                fields_ok(TNAME, ["type_parameters"]), fields_ok(TFIELD, ["name"]), lib.adts.get(UOP) is not None]):
        return
    uops = [v["name"] for v in lib.adts[UOP]["variants"]]
    leaf = Enum(EXPR, "Nil", {"0": UNKNOWN})
    if_e = Enum(EXPR, "If", {"0": Struct(IFE, {})})

    def binary(q, right=leaf):
        return Enum(EXPR, "Binary", {"0": Struct(BE, {"operator": Enum(BINOP, q), "left": leaf, "right": right})})

    def unary(u, inner=leaf):
        return Enum(EXPR, "Unary", {"0": Struct(UE, {"operator": Enum(UOP, u), "expression": inner})})
    bare = Struct(TNAME, {"type_parameters": NONE})
    casts = {
        "Name": Enum(EXPR, "TypeCast", {"0": Struct(TCE, {"expression": leaf, "type": Enum(TYPE, "Name", {"0": bare})})}),
        "Field": Enum(EXPR, "TypeCast", {"0": Struct(TCE, {"expression": leaf, "type": Enum(TYPE, "Field", {"0": Struct(TFIELD, {"name": bare})})})}),
    }
    cells = {"left": 0, "right": 0}
    for side in ("left", "right"):
        fn = lib.fn("%s::%s_needs_parentheses" % (BINOP, side))
        if not R.require(rid, "anchor:%s_needs_parentheses" % side, fn is not None, "", "not found"):
            continue

        def table(p, operand, fn=fn):
            pe = peval.PEval(lib, ctx.an)
            try:
                v = pe.call_fn(fn, [Enum(BINOP, p), operand])
            except peval.OutOfFuel:
                return UNKNOWN, ["evaluation did not terminate"]
            return v, pe.unknown_reasons

        def need_true(key, p, operand, what, fn=fn, side=side):
            v, why = table(p, operand)
            cells[side] += 1
            R.ob(rid, "%s|%s" % (side, key), v is True, ctx.where(fn),
                 what + (": parenthesised" if v is True else (": NOT parenthesised -- the text written re-parses as a different tree / is invalid" if v is False else
                                                               ": table cell not established (%s)" % "; ".join(why[:2]))))
        for p in ops:
            opt = []
            for q in ops:
                want = ref[p] > ref[q] or (ref[p] == ref[q] and ((p in REF_RIGHT_ASSOC) if side == "left" else (p not in REF_RIGHT_ASSOC)))
                if want:
                    need_true("binary|%s|%s" % (p, q), p, binary(q), "%s operand `a %s b` of `%s`" % (side, q, p))
                else:
                    opt.append(q)
        if side == "left":
            for u in uops:
                need_true("unary|%s" % u, "Caret", unary(u), "unary (%s) left operand of `^`" % u)
            for p in ops:
                need_true("if-expression|%s" % p, p, if_e, "if-expression as left operand of %s" % p)
                need_true("ends-with-if|Binary|%s" % p, p, binary("Caret", if_e), "left operand `a ^ if ..` of %s" % p)
                need_true("ends-with-if|Unary|%s" % p, p, unary(uops[0], if_e), "left operand `-if ..` of %s" % p)
            for tname, cast in casts.items():
                need_true("cast-before-<|TypeCast|%s" % tname, "LowerThan", cast, "left operand `x :: T` (Type::%s, no parameters) of `<`" % tname)
                need_true("cast-before-<|Binary|%s" % tname, "LowerThan", binary("Caret", cast), "left operand `a ^ x :: T` (Type::%s) of `<`" % tname)
                for u in uops:
                    need_true("cast-before-<|Unary.%s|%s" % (u, tname), "LowerThan", unary(u, cast), "left operand `%s x :: T` (Type::%s) of `<`" % (u, tname))
    R.require(rid, "floor:cells", cells["left"] >= 150 and cells["right"] >= 100, "", "table cells requiring parentheses: %s" % cells)
    R.meta["needs_table_cells"] = cells


def gen_parens(R, ctx):
    rid = "C02.parens"
    lib = ctx.lib
    R.rule(rid, "each LuaGenerator::write_binary_expression asks operator.left_needs_parentheses(left) / right_needs_parentheses(right) of the node's own "
                "operator and operands and writes that operand inside parentheses whenever the answer is true, left operand first; "
                "write_unary_expression parenthesises a Binary operand unless its operator precedes unary")
    for gname in ("dense", "readable", "token_based"):
        fam = generators.gen_family(ctx, gname)
        impl = fam.over.get("generator::LuaGenerator::write_binary_expression")
        fn = lib.fns.get(impl) if impl else None
        if not R.require(rid, "%s|anchor:write_binary_expression" % gname, fn is not None, "", "not found"):
            continue
        fa = ctx.an.fa(fn["path"])

        def operand(e, fa=fa):
            names = [c.get("fname") for c in fa.source_calls(e)]
            if "left" in names and "right" not in names:
                return "left"
            if "right" in names and "left" not in names:
                return "right"
            return None

        def atom(e, fa=fa):
            if e.get("k") == "Call" and e.get("fname") in ("left_needs_parentheses", "right_needs_parentheses"):
                side = e["fname"].split("_")[0]
                own_op = "operator" in [c.get("fname") for c in fa.source_calls(e["args"][0])]
                same = operand(e["args"][1]) == side
                return ("needs", side) if own_op and same else ("needs-wrong-args", side)
            return None

        def event(c, fa=fa):
            f = c.get("fname")
            if f in ("write_expression_in_parentheses",):
                o = operand(c["args"][1])
                return ("paren", o) if o else None
            if f == "write_expression":
                o = operand(c["args"][1])
                return ("plain", o) if o else None
            if f in ("write_symbol", "push_char", "raw_push_char", "push_str"):
                lit = c["args"][1].get("v") if c["args"][1].get("k") == "Lit" else thir.lit_str(c["args"][1])
                if lit in ("'('", '"("', "("):
                    return ("open", None)
                if lit in ("')'", '")"', ")"):
                    return ("close", None)
            return None
        for ln in (True, False):
            for rn in (True, False):
                it = absint.Interp(atom, event, {("needs", "left"): ln, ("needs", "right"): rn})
                try:
                    paths = it.run(thir.body_of(fn))
                except RuntimeError:
                    paths = []
                ok = bool(paths)
                why = []
                for p in paths:
                    if any(isinstance(k, tuple) and k[0] == "needs-wrong-args" for k in p.assign):
                        ok = False; why.append("needs_parentheses is asked about the wrong operator/operand")
                    ev = p.events
                    def wrapped(side):
                        for i, e in enumerate(ev):
                            if e == ("paren", side):
                                return True
                            if e == ("plain", side):
                                return i > 0 and ev[i - 1] == ("open", None) and i + 1 < len(ev) and ev[i + 1] == ("close", None)
                        return None
                    wl, wr = wrapped("left"), wrapped("right")
                    if wl is None or wr is None:
                        ok = False; why.append("an operand is not written")
                    if ln and wl is False:
                        ok = False; why.append("left operand written bare although left_needs_parentheses")
                    if rn and wr is False:
                        ok = False; why.append("right operand written bare although right_needs_parentheses")
                    idx = [i for i, e in enumerate(ev) if e[0] in ("paren", "plain")]
                    if len(idx) >= 2 and ev[idx[0]][1] != "left":
                        ok = False; why.append("right operand written before left")
                R.ob(rid, "%s|write_binary_expression|left_needs=%s,right_needs=%s" % (gname, ln, rn), ok, ctx.where(fn), "; ".join(sorted(set(why))) or "operands wrapped as required")
        # unary
        impl = fam.over.get("generator::LuaGenerator::write_unary_expression")
        fn = lib.fns.get(impl) if impl else None
        if R.require(rid, "%s|anchor:write_unary_expression" % gname, fn is not None, "", "not found"):
            ok = False
            for m in tables.matches_on(lib, thir.body_of(fn), EXPR):
                for arm in m["arms"]:
                    if ("%s" % EXPR, "Binary") in thir.pat_variants(arm["pat"]) and "guard" in arm:
                        g = arm["guard"]
                        neg = g.get("k") == "Unary" and g.get("op") == "Not"
                        calls_ = [c.get("fname") for c in thir.walk(g) if c.get("k") == "Call"]
                        wraps = any(c.get("fname") == "write_expression_in_parentheses" for c in thir.walk(arm["body"]) if c.get("k") == "Call") or \
                            any((c["args"][1].get("v") if len(c["args"]) > 1 and c["args"][1].get("k") == "Lit" else thir.lit_str(c["args"][1]) if len(c["args"]) > 1 else None) in ("'('", "(") for c in thir.walk(arm["body"]) if c.get("k") == "Call" and c.get("fname") in ("write_symbol", "push_char"))
                        ok = neg and "precedes_unary_expression" in calls_ and wraps
            R.ob(rid, "%s|write_unary_expression" % gname, ok, ctx.where(fn), "Binary operand parenthesised under !operator.precedes_unary_expression(): %s" % ok)


ENDS_WITH_PREFIX_REQUIRED = {
    # variants whose generated text can end with `)`, `]`, an identifier or a string (so a following `(` would continue it)
    "Call": "true", "Parenthese": "true", "Identifier": "true", "Field": "true", "Index": "true", "TypeInstantiation": "true-or-recurse",
    "Binary": "recurse", "Unary": "recurse", "If": "recurse", "TypeCast": "true-or-recurse", "String": "true-or-recurse", "InterpolatedString": "true-or-recurse",
}


def semi(R, ctx):
    rid = "C02.semi"
    lib = ctx.lib
    R.rule(rid, "each write_block emits a `;` between statements on the branch `starts_with_parenthese(next) && ends_with_prefix(current)`; "
                "expression_ends_with_prefix answers true (or recurses into the trailing operand) for Call, Parenthese, Identifier, Field, Index, "
                "TypeInstantiation and recurses for Binary/Unary/If")
    for gname in ("dense", "readable", "token_based"):
        fam = generators.gen_family(ctx, gname)
        cands = [p for p in fam.scope if p.split("::")[-1] in ("write_block", "write_block_with_tokens") and "generator::" in p]
        found = False
        for p in cands:
            fn = lib.fns[p]
            fa = ctx.an.fa(p)
            for c in thir.calls(fn):
                lit = None
                if c.get("fname") in ("push_char", "write_symbol", "push_str", "raw_push_char") and len(c["args"]) > 1:
                    a = c["args"][1]
                    lit = a.get("v") if a.get("k") == "Lit" else thir.lit_str(a)
                if lit in ("';'", ";", '";"'):
                    names = set()
                    for cond, kd in guards.conditions_of(fa, c):
                        if kd == "then":
                            names |= {x.get("fname") for x in thir.walk(cond) if x.get("k") == "Call"}
                    if {"starts_with_parenthese", "ends_with_prefix"} <= names:
                        found = True
        R.ob(rid, "%s|write_block|separator" % gname, found, "", "`;` is emitted under starts_with_parenthese(next) && ends_with_prefix(current): %s" % found)
    fn = lib.fn("generator::utils::expression_ends_with_prefix")
    if R.require(rid, "anchor:expression_ends_with_prefix", fn is not None, "", "not found"):
        ms = tables.matches_on(lib, thir.body_of(fn), EXPR)
        tbl = tables.variant_table(lib, ms[0], EXPR) if ms else {}
        for v, want in ENDS_WITH_PREFIX_REQUIRED.items():
            rows = tbl.get(v, [])
            cls = rows[0][0] if rows else "missing"
            is_rec = cls == "expr" and rows and any(c.get("fname") in ("expression_ends_with_prefix", "ends_with_prefix", "type_ends_with_prefix") or "ends_with" in (c.get("fname") or "") for c in thir.walk(rows[0][2]["body"]) if c.get("k") == "Call")
            if want == "true":
                ok = cls == "true"
            elif want == "recurse":
                ok = is_rec or cls == "true"
            else:
                ok = cls == "true" or is_rec
            if v in ("String", "InterpolatedString", "TypeCast") and not ok:
                # a string can be called (`"x"(..)` is not valid Lua without parentheses) -> informational only
                R.info("expression_ends_with_prefix(%s) = %s" % (v, cls))
                continue
            R.ob(rid, "expression_ends_with_prefix|%s" % v, ok, ctx.where(fn), "Expression::%s -> %s (required: %s)" % (v, "recurse" if is_rec else cls, want))


# ---- C02.fuse -------------------------------------------------------------------------------

def lua_fuses(a, b):
    """Reference: would Lua/Luau's lexer read the characters a,b (end of one token, start of the next)
    differently when adjacent than when separated?  (independent table from the Lua 5.1 manual §2.1, Luau syntax)"""
    word = lambda c: c.isalnum() or c == "_"
    if word(a) and word(b):
        return True           # names/keywords/numbers run together (1e, x1, andx, 0x..)
    if a.isdigit() and b == ".":
        return True           # 1 .. -> `1..` malformed number ; 1 .x -> 1.x
    if a == "." and (b == "." or b.isdigit()):
        return True           # . . -> .. ; .. . -> ... ; . 5 -> .5
    if a == "-" and b == "-":
        return True           # comment
    if a == "[" and b in "[=":
        return True           # long bracket
    if a in "<>=~" and b == "=":
        return True           # <=, >=, ==, ~=
    if a == "/" and b == "/":
        return True           # floor division
    if a == ":" and b == ":":
        return True           # ::
    if a == "<" and b == "<":
        return True           # << (Luau type instantiation opener)
    if a == ">" and b == ">":
        return True
    if a == "-" and b == ">":
        return True           # -> in types
    return False


# pairs the generators can never produce adjacent through push_char/push_str (the caller decides them elsewhere), with reason
FUSE_NOT_APPLICABLE = {
    ("=", "="): "an `=` token is never followed by a token starting with `=`",
    ("<", "="): "`<` is never followed by a token starting with `=`", ("~", "="): "`~` only occurs inside `~=`",
    ("/", "/"): "`/` is never followed by a token starting with `/`", (":", ":"): "`:` is never followed by `:` (type cast `::` is pushed as one token after an expression)",
    ("<", "<"): "written with raw pushes in write_type_instantiation (reviewed under C02.raw)", (">", ">"): "same",
    ("-", ">"): "`->` is pushed as one token", ("[", "="): "a token starting with `=` never follows `[`",
}


# std's documented definitions of the ASCII classes (core::char / u8 methods), as predicates on the code point
STD_CHAR_CLASSES = {
    "is_ascii": lambda c: c < 0x80,
    "is_ascii_graphic": lambda c: 0x21 <= c <= 0x7E,
    "is_ascii_whitespace": lambda c: c in (0x20, 0x09, 0x0A, 0x0C, 0x0D),
    "is_ascii_control": lambda c: c <= 0x1F or c == 0x7F,
    "is_ascii_punctuation": lambda c: (0x21 <= c <= 0x2F) or (0x3A <= c <= 0x40) or (0x5B <= c <= 0x60) or (0x7B <= c <= 0x7E),
    "is_ascii_hexdigit": lambda c: chr(c) in "0123456789abcdefABCDEF",
    "is_ascii_lowercase": lambda c: 0x61 <= c <= 0x7A,
    "is_ascii_uppercase": lambda c: 0x41 <= c <= 0x5A,
}


def char_pred(ctx, fn, params, a, b=None):
    """a pure char/byte -> bool function decided for one point: by pattern expansion when its body is a plain match, else by
    evaluating its typed tree (tuple matches, helper calls, iterator idioms, ...); ValueError when neither establishes it"""
    try:
        return eval_char_fn(thir.body_of(fn), params, a, b)
    except (ValueError, KeyError, TypeError, AttributeError):
        pass
    from .. import peval
    pe = peval.PEval(ctx.lib, ctx.an)
    args = [a if isinstance(a, int) else ord(a)] + ([] if b is None else [b if isinstance(b, int) else ord(b)])
    try:
        got = pe.call_fn(fn, args)
    except peval.OutOfFuel:
        raise ValueError("no termination")
    if not isinstance(got, bool):
        raise ValueError("not established %s" % pe.unknown_reasons[:1])
    return got


def eval_char_fn(fn_body, params, a, b):
    """Evaluate the pure char->bool match of should_break_with_space for characters a, b by pattern expansion."""
    env = {params[0]: a if isinstance(a, int) else ord(a)}
    if len(params) > 1:
        env[params[1]] = b if isinstance(b, int) else ord(b)

    def pat(p, v):
        k = p.get("k")
        if k == "Wild":
            return True
        if k == "Bind":
            return True
        if k == "Const":
            return "bits" in p and int(p["bits"]) == v
        if k == "Range":
            lo, hi = int(p["lo"]), int(p["hi"])
            return lo <= v <= hi if p.get("incl") else lo <= v < hi
        if k == "Or":
            return any(pat(s, v) for s in p["subs"])
        if k == "Deref":
            return pat(p["sub"], v)
        raise ValueError("pattern " + str(k))

    def val(e):
        k = e.get("k")
        while k in ("Borrow", "Deref", "Coerce", "Cast"):
            e = e["e"]; k = e.get("k")
        if k == "Var":
            return env[e["var"]]
        if k == "Lit":
            v = e["v"]
            if v in ("true", "false"):
                return v == "true"
            import ast, re
            mb = re.fullmatch(r"Byte\((\d+)\)", v)
            if mb:
                return int(mb.group(1))
            s = ast.literal_eval(v)
            if isinstance(s, bytes) and len(s) == 1:
                return s[0]
            return ord(s) if isinstance(s, str) and len(s) == 1 else s
        if k == "Block" and not e["stmts"] and "tail" in e:
            return val(e["tail"])
        if k == "Match":
            v = val(e["scrut"])
            for arm in e["arms"]:
                if pat(arm["pat"], v) and ("guard" not in arm or val(arm["guard"])):
                    return val(arm["body"])
            raise ValueError("no arm")
        if k == "Logical":
            l = val(e["l"])
            if e["op"] == "Or":
                return l or val(e["r"])
            return l and val(e["r"])
        if k == "Unary" and e.get("op") == "Not":
            return not val(e["e"])
        if k == "Binary" and e.get("op") in ("Eq", "Ne"):
            r = val(e["l"]) == val(e["r"])
            return r if e["op"] == "Eq" else not r
        if k == "Call":
            f = e.get("fname")
            x = val(e["args"][0]) if e["args"] else None
            ch = chr(x) if isinstance(x, int) else None
            if f in STD_CHAR_CLASSES and isinstance(x, int):
                return STD_CHAR_CLASSES[f](x)
            if f == "is_ascii_alphanumeric":
                return ch.isascii() and ch.isalnum()
            if f == "is_ascii_digit":
                return ch.isascii() and ch.isdigit()
            if f == "is_ascii_alphabetic":
                return ch.isascii() and ch.isalpha()
            if f in ("eq", "ne") and len(e["args"]) == 2:
                r = val(e["args"][0]) == val(e["args"][1])
                return r if f == "eq" else not r
        raise ValueError("unsupported node %s %s" % (k, e.get("fname")))
    return val(fn_body)


def fuse(R, ctx, rid="C02.fuse"):
    lib = ctx.lib
    R.rule(rid, "should_break_with_space(last, next), read as a decision table over ASCII character pairs (pattern ranges expanded, no code is run), "
                "answers true for every pair that Lua's lexer would fuse into a different token (reference table from the manual); one-sided: "
                "answering true too often only adds a space")
    fn = lib.fn("generator::utils::should_break_with_space")
    if not R.require(rid, "anchor", fn is not None, "", "not found"):
        return
    params = []
    for p in fn["thir"]["params"]:
        if "pat" in p:
            for var, name, pre, ty in thir.pat_bindings(p["pat"]):
                params.append(var)
    if not R.require(rid, "anchor:params", len(params) == 2, ctx.where(fn), "two char parameters expected"):
        return
    chars = [chr(c) for c in range(33, 127)]
    n = 0
    missing = {}
    try:
        for a in chars:
            for b in chars:
                if not lua_fuses(a, b):
                    continue
                if (a, b) in FUSE_NOT_APPLICABLE:
                    continue
                n += 1
                got = char_pred(ctx, fn, params, a, b)
                if not got:
                    cls = ("digit" if a.isdigit() else "letter" if a.isalpha() else a, "digit" if b.isdigit() else "letter" if b.isalpha() else b)
                    missing.setdefault(cls, []).append(a + b)
    except ValueError as e:
        R.ob(rid, "table-extractable", False, ctx.where(fn), "decision table could not be extracted (%s): obligation not established" % e)
        return
    R.require(rid, "floor:pairs", n >= 3900, ctx.where(fn), "%d fusing pairs in the reference table" % n)
    classes = {("digit", "digit"), ("digit", "letter"), ("digit", "_"), ("digit", "."), ("letter", "digit"), ("letter", "letter"), ("letter", "_"),
               ("_", "digit"), ("_", "letter"), ("_", "_"), (".", "."), (".", "digit"), ("-", "-"), ("[", "["), (">", "=")}
    for cls in sorted(classes | set(missing)):
        ex = missing.get(cls)
        R.ob(rid, "pair-class|%s|%s" % cls, not ex, ctx.where(fn),
             ("`%s` followed by `%s` is not separated (e.g. %s): the two tokens fuse" % (cls[0], cls[1], ex[:3])) if ex else "separated")
    R.meta["fuse_pairs_checked"] = n


RAW_SEPARATORS = set(" ,();{}:\n\t`")
RAW_REVIEWED = {
    # (generator, function, callee, literal) -> reason
    ("dense", "merge_char"): "the primitive itself", ("dense", "push_char_and_break_if"): "primitive (checks the given break predicate first)",
    ("dense", "push_str"): "primitive (after push_space_if_needed)", ("dense", "push_str_and_break_if"): "primitive",
    ("readable", "push_str"): "primitive (after the space check)", ("readable", "push_str_and_break_if"): "primitive",
    ("readable", "write_indentation"): "indentation spaces/tabs only",
}
RAW_REVIEWED_LIT = {
    "'.'": "field separator after a prefix / function-name / type-name segment (never after a number)",
    "'@'": "attribute marker at the start of a statement/expression",
    "'<'": "`<<` of a type instantiation after push_new_line_if_needed", "'>'": "`>>` closing a type instantiation",
    "'='": "numeric-for `=` after an identifier", "'['": "table entry key opener after a separator",
    "...": "variadic marker after `(` or `, `", "] = ": "closes a bracketed key",
}


def raw(R, ctx):
    rid = "C02.raw"
    lib = ctx.lib
    R.rule(rid, "every write through raw_push_char / raw_push_str / merge_char (no fusion check) either starts with a separator character "
                "(space , ( ) ; { } newline backtick), or is one of the reviewed primitives / literals; non-literal raw writes outside the primitives "
                "are limited to the reviewed functions")
    nonlit_ok = {("dense", "write_attributes"), ("readable", "write_attributes"), ("dense", "write_interpolated_string"), ("readable", "write_interpolated_string"),
                 ("readable", "write_compound_assign"), ("readable", "write_field"), ("readable", "write_function_statement"), ("readable", "write_local_function"),
                 ("readable", "write_table_entry")}
    n = 0
    for f in lib.fn_list:
        if not thir.body_of(f) or "generator::" not in f["path"]:
            continue
        g = "dense" if "dense" in f["path"] else "readable" if "readable" in f["path"] else None
        if g is None:
            continue
        short = f["path"].split("::")[-1]
        for x in thir.calls(f):
            if x.get("fname") not in ("raw_push_str", "raw_push_char", "merge_char"):
                continue
            n += 1
            a = x["args"][1]
            lit = a["v"] if a.get("k") == "Lit" else thir.lit_str(a)
            if (g, short) in RAW_REVIEWED:
                R.ob(rid, "%s|%s|primitive" % (g, short), True, ctx.where(f, x.get("ln")), RAW_REVIEWED[(g, short)], nontrivial=False)
                continue
            if lit is None:
                ok = (g, short) in nonlit_ok
                R.ob(rid, "%s|%s|non-literal" % (g, short), ok, ctx.where(f, x.get("ln")),
                     "reviewed: the text follows an explicit separator written just before" if ok else "unreviewed non-literal raw write: adjacent tokens may fuse")
                continue
            s = lit[1:-1] if lit.startswith("'") and lit.endswith("'") else lit
            s = {"\\n": "\n", "\\t": "\t"}.get(s, s)
            if s and s[0] in RAW_SEPARATORS:
                R.ob(rid, "%s|%s|%s" % (g, short, lit), True, ctx.where(f, x.get("ln")), "starts with a separator", nontrivial=False)
            else:
                R.ob(rid, "%s|%s|%s" % (g, short, lit), lit in RAW_REVIEWED_LIT, ctx.where(f, x.get("ln")),
                     RAW_REVIEWED_LIT.get(lit, "unreviewed raw write of %s: bypasses should_break_with_space" % lit))
    R.require(rid, "floor", n >= 60, "", "%d raw write sites (floor 60)" % n)


def wrap_points(R, ctx):
    """Line wrapping never separates a callee from its argument list (finite-domain evaluation of the generators)."""
    import re as _re
    from .. import peval
    from ..peval import Enum, Struct, NONE, make
    rid = "C02.wrap"
    lib = ctx.lib
    R.rule(rid, "the dense and the readable generator, built with their public constructor for column spans 8 and 10 and driven through "
                "LuaGenerator::write_identifier / write_function_call, evaluated for every amount of text already on the line (0..span+2) and the "
                "call forms `callee()`, `callee(a)`, `obj.f()`, `obj:m()`, `callee()()`: no output line begins with `(` -- a line break "
                "between a callee and its argument list is `ambiguous syntax` in Lua 5.1 and Luau (and binds the list to the previous "
                "statement in later versions)")
    N = "nodes::"
    PREFIX, FC, ID, FE = N + "expressions::prefix::Prefix", N + "function_call::FunctionCall", N + "identifier::Identifier", N + "expressions::field::FieldExpression"
    ARGS, TUP = N + "arguments::Arguments", N + "arguments::TupleArguments"

    def ident(n):
        return make(lib, ID, {"name": n})

    def method_value(name):
        # FunctionCall.method is Option<Identifier> or Option<a struct holding the identifier>: shape from the ADT metadata
        t = [f["tys"] for v in lib.adts[FC]["variants"] for f in v["fields"] if f["name"] == "method"]
        inner = t[0][len("core::option::Option<"):-1] if t and t[0].startswith("core::option::Option<") else ID
        if inner == ID or inner not in lib.adts:
            return ident(name)
        fld = [f["name"] for v in lib.adts[inner]["variants"] for f in v["fields"] if ID in f.get("tys", "")]
        return make(lib, inner, {fld[0]: ident(name)} if fld else {})

    def call(prefix, values=(), method=None):
        return make(lib, FC, {"prefix": prefix, "arguments": Enum(ARGS, "Tuple", {"0": make(lib, TUP, {"values": list(values)})}),
                              "method": peval.some(method_value(method)) if method else NONE})
    forms = {
        "callee()": lambda: call(Enum(PREFIX, "Identifier", {"0": ident("callee")})),
        "callee(a)": lambda: call(Enum(PREFIX, "Identifier", {"0": ident("callee")}), [Enum(EXPR, "Identifier", {"0": ident("a")})]),
        "obj.f()": lambda: call(Enum(PREFIX, "Field", {"0": make(lib, FE, {"prefix": Enum(PREFIX, "Identifier", {"0": ident("obj")}), "field": ident("f")})})),
        "obj:m()": lambda: call(Enum(PREFIX, "Identifier", {"0": ident("obj")}), method="m"),
        "callee()()": lambda: call(Enum(PREFIX, "Call", {"0": call(Enum(PREFIX, "Identifier", {"0": ident("callee")}))})),
    }
    gens = [a for a in lib.adts if a.startswith("generator::") and lib.fn("<%s as generator::LuaGenerator>::write_function_call" % a) is not None]
    wrapping = []
    for G in sorted(gens):
        new = lib.fn(G + "::new")
        if new is None or len(new["thir"].get("params", [])) != 1 or lib.ty_str(new["thir"]["params"][0]["t"]) != "usize":
            continue  # no column span: the generator does not wrap lines
        wrapping.append(G)
        bad, unk, n = [], [], 0
        for span in (8, 10):
            for pad in range(0, span + 3):
                for form, build in forms.items():
                    pe = peval.PEval(lib, ctx.an)
                    try:
                        gen = pe.call_fn(new, [span])
                        if pad:
                            pe.call_path("<%s as generator::LuaGenerator>::write_identifier" % G, [gen, ident("p" * pad)])
                        pe.call_path("<%s as generator::LuaGenerator>::write_function_call" % G, [gen, build()])
                    except peval.OutOfFuel:
                        unk.append((form, "no termination"))
                        continue
                    n += 1
                    outs = [v for v in (gen.fields.values() if isinstance(gen, Struct) else []) if isinstance(v, str)]
                    if pe.unknown_reasons or len(outs) != 1:
                        unk.append((form, pe.unknown_reasons[:1]))
                        continue
                    if _re.search(r"\n[ \t]*\(", outs[0]):
                        bad.append("span %d, %d characters on the line, `%s` is written as %r" % (span, pad, form, outs[0]))
        short = G.split("::")[-1]
        R.ob(rid, "%s|established" % short, not unk, ctx.adt_where(G), "all %d states evaluate" % n if not unk else "not established: %s %s" % unk[0])
        R.ob(rid, "%s|no-line-starts-with-paren" % short, not bad, ctx.adt_where(G),
             "in all %d states the argument list stays on the callee's line" % n if not bad else "%s (%d states)" % (bad[0], len(bad)))
    R.require(rid, "anchor:wrapping-generators", len(wrapping) >= 2, "", "generators with a column span: %s" % [g.split("::")[-1] for g in wrapping])


def reparse(R, ctx):
    """generator o grammar: what the dense/readable generators write for every operator pair is read back as the same nesting."""
    import itertools
    from .. import peval, luaref
    from ..peval import Enum, Struct, make
    rid = "C02.reparse"
    lib = ctx.lib
    R.rule(rid, "the dense and the readable generator, evaluated through LuaGenerator::write_expression (their own parenthesisation and spacing "
                "decisions included) on EVERY tree `(a P b) Q c`, `a P (b Q c)` for the 16x16 binary operator pairs, on `u (a P b)`, "
                "`(u a) P b`, `a P (u b)` for the 3 unary x 16 binary operators and on all unary pairs `u (v a)`, at column spans 80 and 4: the "
                "text written is read by an independent reader of Lua's expression grammar (manual 2.5.6, `..` and `^` right associative, "
                "`--` opens a comment) as the SAME operator nesting. Wrong or missing parentheses, `a--b`, `not not`-style fusions and "
                "breaks that change meaning all show up as a different tree or a read error")
    N = "nodes::expressions::"
    BE, UE, UOP, ID = N + "binary::BinaryExpression", N + "unary::UnaryExpression", N + "unary::UnaryOperator", "nodes::identifier::Identifier"
    bops = [v["name"] for v in lib.adts[BINOP]["variants"]]
    uops = [v["name"] for v in lib.adts[UOP]["variants"]]
    if not R.require(rid, "anchor:operators", set(bops) == set(luaref.BIN_SYMBOL) and set(uops) == set(luaref.UN_SYMBOL), "",
                     "reference symbol tables cover the operator enums: %s" % sorted((set(bops) ^ set(luaref.BIN_SYMBOL)) | (set(uops) ^ set(luaref.UN_SYMBOL)))):
        return

    def ident(n):
        return Enum(EXPR, "Identifier", {"0": make(lib, ID, {"name": n})}), ("id", n)

    def binary(op, l, r):
        return Enum(EXPR, "Binary", {"0": make(lib, BE, {"operator": Enum(BINOP, op), "left": l[0], "right": r[0]})}), ("bin", luaref.BIN_SYMBOL[op], l[1], r[1])

    def unary(op, e):
        return Enum(EXPR, "Unary", {"0": make(lib, UE, {"operator": Enum(UOP, op), "expression": e[0]})}), ("un", luaref.UN_SYMBOL[op], e[1])
    a, b, c = ident("a"), ident("b"), ident("c")
    trees = []
    for p_, q_ in itertools.product(bops, repeat=2):
        trees.append(("(a %s b) %s c" % (luaref.BIN_SYMBOL[p_], luaref.BIN_SYMBOL[q_]), binary(q_, binary(p_, a, b), c)))
        trees.append(("a %s (b %s c)" % (luaref.BIN_SYMBOL[p_], luaref.BIN_SYMBOL[q_]), binary(p_, a, binary(q_, b, c))))
    for u_, p_ in itertools.product(uops, bops):
        us, ps = luaref.UN_SYMBOL[u_], luaref.BIN_SYMBOL[p_]
        trees.append(("%s (a %s b)" % (us, ps), unary(u_, binary(p_, a, b))))
        trees.append(("(%s a) %s b" % (us, ps), binary(p_, unary(u_, a), b)))
        trees.append(("a %s (%s b)" % (ps, us), binary(p_, a, unary(u_, b))))
    for u_, v_ in itertools.product(uops, repeat=2):
        trees.append(("%s (%s a)" % (luaref.UN_SYMBOL[u_], luaref.UN_SYMBOL[v_]), unary(u_, unary(v_, a))))
    gens = [g for g in sorted(lib.adts) if g.startswith("generator::") and lib.fn("<%s as generator::LuaGenerator>::write_binary_expression" % g) is not None]
    checked = 0
    for G in gens:
        new = lib.fn(G + "::new")
        if new is None or len(new["thir"].get("params", [])) != 1 or lib.ty_str(new["thir"]["params"][0]["t"]) != "usize":
            continue
        short = G.split("::")[-1]
        bad, unk, n = [], [], 0
        for span in (80, 4):
            for label, (node, want) in trees:
                pe = peval.PEval(lib, ctx.an)
                try:
                    import copy
                    gen = pe.call_fn(new, [span])
                    pe.call_method("generator::LuaGenerator", "write_expression", [gen, copy.deepcopy(node)])
                except peval.OutOfFuel:
                    unk.append((label, "no termination"))
                    continue
                outs = [v for v in (gen.fields.values() if isinstance(gen, Struct) else []) if isinstance(v, str)]
                n += 1
                if pe.unknown_reasons or len(outs) != 1:
                    unk.append((label, pe.unknown_reasons[:1]))
                    continue
                try:
                    got = luaref.parse(outs[0])
                except luaref.ReadError as ex:
                    bad.append("`%s` is written as %r (span %d): %s" % (label, outs[0], span, ex))
                    continue
                if got != want:
                    bad.append("`%s` is written as %r (span %d), which Lua reads as a different nesting" % (label, outs[0], span))
        checked += n
        R.ob(rid, "%s|established" % short, not unk, ctx.adt_where(G), "all %d trees evaluate" % n if not unk else "not established: %s %s" % unk[0])
        R.ob(rid, "%s|same-tree" % short, not bad, ctx.adt_where(G), "all %d written trees are read back with the same nesting" % n if not bad else "%s (%d trees differ)" % (bad[0], len(bad)))
    R.require(rid, "floor", checked >= 2000, "", "%d (generator, span, tree) cells" % checked)


def run(R, ctx):
    R.explanation = (
        "Decision tables extracted statically from the precedence/associativity/parenthesis functions and from should_break_with_space "
        "(pattern ranges expanded over ASCII; the parenthesis / precedence functions are evaluated on all 16x16 operator pairs and every operand shape that matters; no program input is involved), compared with independent reference tables of the Lua grammar and lexer; "
        "guard-before-act rules for parentheses and `;` in all three generators; who-may-write table for fusion-check bypasses. Line wrapping "
        "and literal text are not decided."
    )
    R.assumptions += ["reference tables: Lua 5.1 manual 2.1 (lexical conventions) and 2.5.6 (precedence), Luau `//`, `<<`/`>>`, `->`",
                      "one-sided relations where only one direction is a necessary condition (extra spaces/parentheses/`;` are harmless)"]
    prec(R, ctx)
    needs(R, ctx)
    gen_parens(R, ctx)
    semi(R, ctx)
    fuse(R, ctx)
    raw(R, ctx)
    wrap_points(R, ctx)
    reparse(R, ctx)
    # 'the same literal values': the string writer shared by the generators, decided as under C13 (singles + long forms)
    from . import c13
    c13.strings(R, ctx, "quick", rid="C02.strings", light=True)

"""C20 File and rule filters select exactly the matching files.

Decided:
  C20.table     Configuration::should_apply_rule and RuleMetadata::should_apply realise, for every
                combination of {apply list: empty / no pattern matches / some pattern matches} x
                {skip list: same}, the documented decision  (apply empty or matched) and not
                (skip matched); both functions agree (sibling check)                         [T4+T3]
  C20.dominate  in Worker::apply_rules every Rule::process is reached only through the true edge
                of the global should_apply_rule and of that rule's metadata().should_apply     [T6 MIR]
  C20.other     the skip edge of a rule filter performs no rule/block/write action            [T6]
  C20.deser     the four filter lists deserialize through the one-or-many helpers             [T9]
Not decided: glob semantics (wax), path normalisation of what is matched.
"""
from .. import thir, mir, absint, interproc
from ..thir import callee_of

SPEC_FUNCS = {
    "frontend::configuration::Configuration::should_apply_rule": ("apply_to_files", "skip_files"),
    "rules::RuleMetadata::should_apply": ("apply_to_filters", "skip_filters"),
}


FILTER = "utils::filter_pattern::FilterPattern"


def table(R, ctx, rid="C20.table"):
    """Decision table of both filter predicates by finite-domain evaluation (sa/peval.py)."""
    import itertools
    from .. import peval
    from ..peval import Struct, UNKNOWN
    lib = ctx.lib
    R.rule(rid, "decision table of the two filter predicates (Configuration::should_apply_rule, RuleMetadata::should_apply), extracted by "
                "evaluating their typed tree on every apply/skip list state built from a matching pattern `m` and a non-matching pattern `n` "
                "(lists of length 0..2 in both orders: 7 x 7 states): the answer is (apply list empty OR some apply pattern matches) AND no "
                "skip pattern matches -- whatever else the owner holds: the table is evaluated with the other fields abstract and, for the "
                "configuration, with a rule list that is empty, holds a rule accepting the file, or holds only a rule refusing it (a file "
                "no rule wants is still processed and written). Which of the two Vec<FilterPattern> fields is the apply list is inferred "
                "(exactly one assignment must satisfy the table), so renaming fields or restructuring the predicate is no alarm")
    states = [[]] + [[x] for x in "mn"] + [list(t) for t in itertools.product("mn", repeat=2)]

    def pat(x):
        return Struct("#FilterPattern", {"matches": x == "m"})

    def hook(pe, path, fname, args, node):
        if args and isinstance(args[0], Struct) and args[0].adt == "#FilterPattern":
            if fname == "matches" and len(args) == 2:
                return args[0].fields["matches"]
            return UNKNOWN
        if args and isinstance(args[0], Struct) and args[0].adt == "#Rule":
            # an abstract rule: its metadata answers its own filter question as the scenario says
            if fname == "metadata":
                return Struct("#RuleMetadata", {"accepts": args[0].fields["accepts"]})
            return UNKNOWN
        if args and isinstance(args[0], Struct) and args[0].adt == "#RuleMetadata":
            if fname == "should_apply":
                return args[0].fields["accepts"]
            return UNKNOWN
        return NotImplemented
    results = {}
    for path in SPEC_FUNCS:
        fn = lib.fn(path)
        if not R.require(rid, "anchor:" + path, fn is not None, "", "not found"):
            continue
        owner = fn.get("self_tys", "").split("<")[0]
        adt = lib.adts.get(owner)
        flds = [f["name"] for v in (adt["variants"] if adt else []) for f in v["fields"] if FILTER in f.get("tys", "") and "Vec" in f.get("tys", "")]
        if not R.require(rid, "anchor:filter-fields:" + path.split("::")[-1], len(flds) == 2, ctx.where(fn), "Vec<FilterPattern> fields of %s: %s" % (owner, flds)):
            continue
        verdicts = {}
        for apply_f, skip_f in (flds, flds[::-1]):
            wrong = []
            for A in states:
                for S in states:
                    rule_fields = [f["name"] for v_ in (adt["variants"] if adt else []) for f in v_["fields"] if "dyn rules::Rule" in f.get("tys", "") and "Vec" in f.get("tys", "")]
                    for rules_label, rules in ((("no rules", []), ("a rule accepting the file", [True]), ("only a rule refusing the file", [False])) if rule_fields else (("", None),)):
                        pe = peval.PEval(lib, ctx.an, hook)
                        over = {apply_f: [pat(x) for x in A], skip_f: [pat(x) for x in S]}
                        if rules is not None:
                            over[rule_fields[0]] = [Struct("#Rule", {"accepts": r}) for r in rules]
                        selfv = Struct(owner, over)
                        try:
                            v = pe.call_fn(fn, [selfv, Struct("#Path", {})])
                        except peval.OutOfFuel:
                            v = UNKNOWN
                        want = (not A or "m" in A) and "m" not in S
                        if v is not want:
                            wrong.append(("apply=[%s] skip=[%s]%s" % (",".join(A), ",".join(S), (" with " + rules_label) if rules_label else ""), want, v, pe.unknown_reasons[:1]))
            verdicts[(apply_f, skip_f)] = wrong
        best = min(verdicts.items(), key=lambda kv: len(kv[1]))
        (apply_f, skip_f), wrong = best
        results[path] = (apply_f, skip_f, wrong)
        short = path.split("::")[-1]
        R.ob(rid, "%s|table" % short, not wrong, ctx.where(fn),
             "all %d list states decided as documented (apply list = `%s`, skip list = `%s`)" % (len(states) ** 2, apply_f, skip_f) if not wrong else
             "%d of %d states differ from the documented decision, e.g. %s: expected %s, got %s %s" % (len(wrong), len(states) ** 2, wrong[0][0], wrong[0][1], wrong[0][2], wrong[0][3] or ""))
        both = [k for k, w in verdicts.items() if not w]
        R.ob(rid, "%s|roles-unambiguous" % short, len(both) <= 1, ctx.where(fn), "exactly one role assignment of the two lists satisfies the table", nontrivial=False)
    R.sample({"decision_table": {k.split("::")[-1]: {"apply": v[0], "skip": v[1], "wrong_states": len(v[2])} for k, v in results.items()}})


def dominate(R, ctx):
    rid = "C20.dominate"
    rid2 = "C20.other"
    lib = ctx.lib
    R.rule(rid, "in Worker::apply_rules the Rule::process call is reachable only through the `true` edge of Configuration::should_apply_rule "
                "and of RuleMetadata::should_apply (both evaluated on the work item's source)")
    R.rule(rid2, "the blocks reachable only through the `false` edge of the per-rule filter contain no call that processes, mutates the block, "
                 "writes or changes the progress (skipping a rule touches nothing else)")
    fn = lib.fn("frontend::worker::Worker::apply_rules")
    if not R.require(rid, "anchor:apply_rules", fn is not None and fn.get("mir"), "", "not found"):
        return
    cfg = mir.Cfg(lib, fn)
    procs = [i for i, t in cfg.calls() if t.get("fn") == "rules::Rule::process"]
    R.require(rid, "anchor:process", len(procs) == 1, ctx.where(fn), "%d Rule::process calls" % len(procs))
    for name, label in (("should_apply_rule", "global"), ("should_apply", "rule")):
        checks = [(i, t) for i, t in cfg.calls() if t.get("fname") == name]
        if not R.require(rid, "anchor:" + name, len(checks) == 1, ctx.where(fn), "%d calls to %s" % (len(checks), name)):
            continue
        i, t = checks[0]
        b = t.get("t")
        sw = cfg.blocks[b]["term"]
        hops = 0
        negated = any(st.get("rv", "").startswith("un:Not") for st in cfg.blocks[b]["s"])
        while sw["k"] != "switch" and hops < 3 and "t" in sw:
            b = sw["t"]; sw = cfg.blocks[b]["term"]; hops += 1
            negated = negated or any(st.get("rv", "").startswith("un:Not") for st in cfg.blocks[b]["s"])
        if not R.require(rid, "anchor:%s-branch" % name, sw["k"] == "switch", ctx.where(fn, t.get("ln")), "result of %s is not branched on" % name):
            continue
        zero = [bb for v, bb in sw["targets"] if v == "0"]
        true_edge = (zero[0] if zero else None) if negated else sw["otherwise"]
        false_edge = sw["otherwise"] if negated else (zero[0] if zero else None)
        treg = cfg.edge_region(b, true_edge) if true_edge is not None and true_edge != false_edge else set()
        freg = cfg.edge_region(b, false_edge) if false_edge is not None and true_edge != false_edge else set()
        for p in procs:
            R.ob(rid, "apply_rules|process-under-%s-filter" % label, p in treg, ctx.where(fn, cfg.line(p)),
                 "Rule::process is %s the true edge of %s" % ("only reachable through" if p in treg else "reachable WITHOUT passing", name))
        # the argument is the work item's source
        a = ctx.an.fa(fn["path"])
        for c in thir.calls(fn):
            if c.get("fname") == name:
                srcs = [y.get("fname") for y in a.source_calls(c["args"][-1])]
                R.ob(rid, "apply_rules|%s-on-source" % name, "source" in srcs, ctx.where(fn, c.get("ln")), "filter evaluated on work_item.data.source(): %s" % ("source" in srcs))
        if label == "rule":
            bad = []
            for bb in freg:
                tt = cfg.blocks[bb]["term"]
                if tt["k"] == "call" and tt.get("fname") in ("process", "mutate_block", "write", "set_next_rule", "set_required_content", "generate_lua", "extend", "link_source_to_output", "done"):
                    bad.append((tt.get("fname"), tt.get("ln")))
            R.ob(rid2, "apply_rules|skip-edge-is-inert", bool(freg) and not bad, ctx.where(fn), "calls on the skip edge: %s" % (bad or "only logging"))


def deser(R, ctx):
    rid = "C20.deser"
    lib = ctx.lib
    R.rule(rid, "Configuration.apply_to_files / skip_files carry `deserialize_with = deserialize_one_or_many`; the rule object deserializer "
                "reads both filter keys through OneOrMany<FilterPattern>")
    ad = lib.adts.get("frontend::configuration::Configuration")
    if R.require(rid, "anchor:Configuration", ad is not None, "", "not found"):
        for f in ad["variants"][0]["fields"]:
            if f["name"] in ("apply_to_files", "skip_files"):
                attrs = " ".join(f.get("attrs", []))
                R.ob(rid, "Configuration.%s|one-or-many" % f["name"], "deserialize_one_or_many" in attrs, ctx.adt_where(ad["path"]), attrs[:160])
                R.ob(rid, "Configuration.%s|type" % f["name"], "FilterPattern" in f["tys"], ctx.adt_where(ad["path"]), f["tys"])
    vm = [f for f in lib.fn_list if f["path"].endswith("::visit_map") and "dyn rules::Rule" in f["path"] and thir.body_of(f)]
    if R.require(rid, "anchor:rule-visit_map", len(vm) == 1, "", "%d candidates" % len(vm)):
        f = vm[0]
        arms = interproc.key_arms(f)
        one_or_many = lambda c: c.get("k") == "Call" and c.get("fname") == "next_value" and any("OneOrMany" in lib.ty_str(g) for g in c.get("gargs", []))
        got = [k for k in ("apply_to_files", "skip_files") if k in arms and interproc.reaches(lib, arms[k], one_or_many)]
        R.ob(rid, "rule-object|filters-one-or-many", len(got) == 2, ctx.where(f), "arms reading next_value::<OneOrMany<FilterPattern>> (directly or in a local helper): %s" % got)


def glob(R, ctx):
    rid = "C20.glob"
    lib = ctx.lib
    FP = "utils::filter_pattern::FilterPattern"
    R.rule(rid, "FilterPattern::matches answers with wax's `is_match` of a glob built from the pattern text given by the user; the library never "
                "calls `Glob::partition_or_tree` (documented to substitute the tree wildcard `**` when nothing of the glob is left: a literal "
                "pattern `src/vendor` would match every file below it) nor walks the file system to decide a filter")
    m = lib.fn(FP + "::matches")
    n = lib.fn(FP + "::new")
    if not R.require(rid, "anchor", m is not None and n is not None, "", "FilterPattern::{new,matches} not found"):
        return
    fa = ctx.an.fa(m["path"])
    ism = [c for c in thir.calls(m) if c.get("fname") == "is_match" and (FP, "glob") in fa.origins(c["args"][0])]
    R.ob(rid, "matches|is_match-on-own-glob", len(ism) >= 1, ctx.where(m), "%d `self.glob.is_match(..)` calls" % len(ism))
    gn = [c for c in thir.fn_refs(n) if (thir.callee_of(c) or "").startswith("wax::") and c.get("fname") == "new"]
    R.ob(rid, "new|Glob::new", len(gn) >= 1, ctx.where(n), "the glob is built with wax::Glob::new: %s" % bool(gn))
    bad = []
    total = 0
    for f in lib.fn_list:
        if not thir.body_of(f) or "::test" in f["path"]:
            continue
        for c in thir.fn_refs(f):
            cal = thir.callee_of(c) or ""
            if cal.startswith("wax::"):
                total += 1
                if c.get("fname") in ("partition_or_tree",):
                    bad.append((f, c))
    R.require(rid, "floor:wax-calls", total >= 2, "", "%d references to wax functions in the library (positive control for the zero-count rule)" % total)
    R.ob(rid, "no-partition_or_tree", not bad, ctx.where(bad[0][0], bad[0][1].get("ln")) if bad else ctx.where(n),
         "no call of Glob::partition_or_tree" if not bad else "%s calls Glob::partition_or_tree: a pattern without wildcard becomes `<pattern>/**`" % bad[0][0]["path"])


def filter_path(R, ctx):
    rid = "C20.path"
    lib = ctx.lib
    R.rule(rid, "in Worker::apply_rules (helpers of the file included) the path handed to the two filter predicates is the work item's own "
                "source path -- the same slot the worker reads the file from -- and reaches them without any path arithmetic "
                "(strip_prefix, join, file_name, parent, with_extension, canonicalize, components, ...): patterns are written against the "
                "path of the file as the user names it")
    fn = lib.fn("frontend::worker::Worker::apply_rules")
    adv = lib.fn("frontend::worker::Worker::advance_work")
    if not R.require(rid, "anchor", fn is not None and adv is not None, "", "Worker::apply_rules / advance_work not found"):
        return
    # the slot the file content is read from
    read_slots = set()
    for f in interproc.scope(lib, adv):
        fa = ctx.an.fa(f["path"])
        for c in thir.calls(f):
            if c.get("fname") in ("get", "read", "read_to_string") and "Resources" in ((callee_of(c) or "") + (c.get("fn") or "")) and len(c["args"]) > 1:
                read_slots |= {o for o in fa.origins(c["args"][1]) if o[0].startswith("frontend::work_item::")}
    if not R.require(rid, "anchor:read-slot", len(read_slots) >= 1, ctx.where(adv), "slot(s) the source text is read from: %s" % sorted(read_slots)):
        return
    TRANSFORMS = {"strip_prefix", "join", "file_name", "file_stem", "parent", "with_extension", "with_file_name", "canonicalize", "components", "ancestors",
                  "diff_paths", "relative_to", "normalize_path", "to_lowercase", "replace", "trim_start_matches", "push", "pop", "set_extension", "set_file_name"}
    preds = {lib.fn(p)["path"] for p in SPEC_FUNCS if lib.fn(p) is not None}
    n = 0
    for f in interproc.scope(lib, fn):
        fa = ctx.an.fa(f["path"])
        for c in thir.calls(f):
            q = lib.fn(callee_of(c) or "")
            if q is None or q["path"] not in preds or len(c["args"]) < 2:
                continue
            n += 1
            arg = c["args"][1]
            slots = {o for o in fa.origins(arg) if o[0].startswith("frontend::work_item::")}
            foreign = sorted(o for o in fa.origins(arg) if o[0] != "#param" and not o[0].startswith("frontend::work_item::"))
            srcs = list(fa.source_calls(arg))
            calls_ = {y.get("fname") for y in srcs}
            for y in srcs:  # calls made inside closures handed to the calls of the chain (`.and_then(|l| source.strip_prefix(l).ok())`)
                for a_ in y.get("args", []):
                    if a_.get("k") == "Closure" and a_.get("body") and a_["body"].get("body"):
                        calls_ |= {z.get("fname") for z in thir.walk(a_["body"]["body"]) if z.get("k") == "Call"}
            bad = sorted(calls_ & TRANSFORMS)
            if foreign:
                bad = bad + ["data from %s.%s" % (o[0].split("::")[-1], o[1]) for o in foreign]
            ok = bool(slots & read_slots) and not bad
            R.ob(rid, "%s|argument-is-the-source-path" % q["path"].split("::")[-1], ok, ctx.where(f, c.get("ln")),
                 "the filter sees the item's source path as it is" if ok else
                 ("the path given to the filter is computed with %s: patterns anchored on the real path stop matching" % bad if bad else "the path given to the filter does not come from the item's source slot %s" % sorted(read_slots)))
    R.require(rid, "floor", n >= 2, ctx.where(fn), "%d filter predicate calls" % n)


def skip_all(R, ctx, rid="C20.skip-all"):
    """Only the top-level filters can take a file out of the pipeline as a whole."""
    from .. import guards
    lib = ctx.lib
    M = guards.Mentions(ctx.an)
    R.rule(rid, "in the function that runs the rules on a work item, marking the item done (WorkStatus::done) is never control-dependent on a "
                "condition that consults a per-rule filter (RuleMetadata::should_apply, directly or through a helper): a file that every "
                "rule's filters exclude is still parsed, generated with the configured generator and written, exactly as if those rules were "
                "not in the list; only the top-level filters skip a file entirely")
    fn = lib.fn("frontend::worker::Worker::apply_rules")
    if fn is None:
        c = [f for f in lib.fn_list if thir.body_of(f) and any(x.get("fn") == "rules::Rule::process" for x in thir.calls(f)) and "frontend" in f["path"]]
        fn = c[0] if len(c) == 1 else None
    if not R.require(rid, "anchor:apply_rules", fn is not None, "", "the function calling Rule::process on a work item"):
        return
    fa = ctx.an.fa(fn["path"])
    per_rule = lambda n: n.get("k") in ("Call", "Zst") and n.get("fname") == "should_apply" and "RuleMetadata" in (callee_of(n) or n.get("fn") or "")
    top = lambda n: n.get("k") in ("Call", "Zst") and n.get("fname") == "should_apply_rule"
    dones = [c for c in thir.calls(fn) if c.get("fname") == "done" and "WorkStatus" in (callee_of(c) or c.get("fn") or "")]
    if not R.require(rid, "anchor:done", len(dones) >= 2, ctx.where(fn), "%d places mark the item done" % len(dones)):
        return
    n_top = 0
    for i, c in enumerate(dones):
        conds = list(guards.conditions_of(fa, c))
        bad = [cond for cond, kind in conds if M.mentions(fa, cond, per_rule, 3)]
        n_top += any(M.mentions(fa, cond, top, 1) for cond, kind in conds)
        R.ob(rid, "apply_rules|done@%d|not-under-a-rule-filter" % (i + 1), not bad, ctx.where(fn, c.get("ln")),
             "independent of the per-rule filters" if not bad else "the item is marked done (nothing generated, nothing written) under a condition that asks the rules' own filters")
    R.require(rid, "positive-control", n_top >= 1, ctx.where(fn), "%d early exits under the top-level filter" % n_top)


def filters_installed(R, ctx, rid="C20.metadata"):
    """The per-rule filters read from a rule object are the ones the rule ends up with (decided as C19.metadata)."""
    from .. import report
    from . import c19
    scratch = report.Report("C19", R.tier)
    c19.roundtrip(scratch, ctx)
    R.rule(rid, "the `apply_to_files` / `skip_files` lists read from a rule object reach the rule: in the reader, set_metadata follows configure(), or no rule's "
                "configure() -- evaluated from its typed tree with the metadata marked beforehand -- replaces the metadata it finds (the obligations of "
                "C19.metadata, evaluated here again). A rule whose filters are lost on loading runs on every file")
    got = [o for o in scratch.obligations if o["rule"] == "C19.metadata"]
    for o in got:
        R.ob(rid, o["key"], o["ok"], o.get("where", ""), o.get("detail", ""))
    R.require(rid, "floor", len(got) >= 2, "", "%d obligations" % len(got))


def run(R, ctx):
    R.explanation = (
        "The two filter predicates are evaluated (sa/peval.py) on all 7x7 apply/skip list states built from a matching and a non-matching "
        "pattern and compared with the documented decision and with each other; MIR dominance "
        "shows that no rule runs without both predicates having answered true. Glob matching itself is not decided."
    )
    R.assumptions += ["`FilterPattern::matches` is opaque: only any/all-over-matches shapes are recognised, anything else fails closed"]
    table(R, ctx)
    dominate(R, ctx)
    deser(R, ctx)
    glob(R, ctx)
    filter_path(R, ctx)
    skip_all(R, ctx)
    filters_installed(R, ctx)

"""C05 A bundle behaves like the program with its modules required normally (structural part).

Decided:
  C05.shadow  every traversal that can inline a require keeps the scope tracker current: each
              visit_block driver of RequirePathProcessor is a scope-tracking visitor            [T8]
  C05.key     the path handed to inline_require comes, on every path, from the locator's
              find_require_path applied to this call's literal and the current source (never from a
              memo keyed on something else); module_cache / require_stack are keyed by it        [T7]
  C05.stack   require_stack.push is matched by pop on every path out of inline_require, before
              the `?` on the resource                                                            [T6 pair]
  C05.errors  every Err reaching try_inline_call is pushed to `errors`; apply returns Err unless
              errors is empty                                                                     [T6]
  C05.order   module definitions are kept in an IndexMap (insertion order reaches the output)     [T11]
Not decided: run-time semantics of the wrapper (once-only evaluation), data-file conversion (C14).
"""
from .. import thir, mir, coverage
from ..thir import callee_of

RPP = "rules::bundle::path_require_mode::RequirePathProcessor"
SCOPE_VISITORS = ("process::scope_visitor::ScopeVisitor", "process::scope_visitor::ScopePostVisitor")


def scope_users(ctx):
    """[(driver dict, [functions calling is_identifier_used])] for every visit_block driver whose processor
    family queries the scope tracker."""
    lib = ctx.lib
    out = []
    for d in ctx.drivers():
        fam = ctx.family(d["trait"], d["visitor"], d["processor"])
        sc = fam.proc_scope()
        uses = sorted({p.split("::")[-1] for p in sc for c in thir.fn_refs(lib.fns[p]) if c.get("fname") == "is_identifier_used"})
        if uses:
            out.append((d, uses))
    return out


def shadow_rule(R, ctx, rid, processors, label):
    """T8 for the given processor type prefixes."""
    R.rule(rid, "a processor whose callbacks (transitively) ask IdentifierTracker::is_identifier_used is only ever driven by a "
                "scope-tracking visitor (ScopeVisitor / ScopePostVisitor): otherwise `not shadowed` is answered from a stale scope stack")
    n = 0
    for d, uses in scope_users(ctx):
        hit = [p for p in processors if d["processor"].startswith(p)]
        if not hit:
            continue
        n += 1
        ok = d["visitor"] in SCOPE_VISITORS
        R.ob(rid, "%s@%s" % (d["processor"].split("::")[-1], d["caller"].split("::")[-1]), ok, "%s:%s" % (d["file"], d["line"]),
             "%s (scope queried in %s) is driven by %s" % (d["processor"].split("::")[-1], uses, d["visitor"].split("::")[-1]))
    R.require(rid, "floor:drivers:" + label, n >= 1, "", "%d scope-querying drivers matched for %s" % (n, label))
    return n


def key(R, ctx):
    rid = "C05.key"
    lib = ctx.lib
    R.rule(rid, "try_inline_call passes to inline_require a path that derives from PathLocator::find_require_path(literal of this call, "
                "self.source) and from no container lookup; inside inline_require the module_cache key, the require_stack entry and the "
                "cycle comparison all derive from that parameter")
    fn = lib.fn(RPP + "::try_inline_call")
    if not R.require(rid, "anchor:try_inline_call", fn is not None, "", "not found"):
        return
    a = ctx.an.fa(fn["path"])
    inl = [c for c in thir.calls(fn) if c.get("fname") == "inline_require"]
    R.require(rid, "anchor:inline_require-call", len(inl) >= 1, ctx.where(fn), "no inline_require call")
    for c in inl:
        srcs = ctx.an.deep_source_calls(a, c["args"][1])
        names = [y.get("fname") for y in srcs]
        lookups = [y for y in srcs if y.get("fname") in ("get", "get_mut", "entry", "get_or_insert_with", "remove", "cloned", "get_key_value") and
                   any(k in lib.ty_str(lib.strip_refs(y["args"][0]["t"])) for k in ("HashMap", "IndexMap", "BTreeMap", "FrozenMap")) if y["args"]]
        R.ob(rid, "try_inline_call|path-from-locator", "find_require_path" in names, ctx.where(fn, c.get("ln")), "the inlined path derives from find_require_path: %s" % ("find_require_path" in names))
        R.ob(rid, "try_inline_call|path-not-from-memo", not lookups, ctx.where(fn, c.get("ln")),
             "the path can come from a container lookup (%s): one requirer may receive the module resolved for another" % [(y.get("fname"), y.get("ln")) for y in lookups] if lookups else "no memo between the locator and inline_require")
    # locate the find_require_path call (here or in a helper of the processor)
    frp = None
    host = None
    for p in ctx.family(coverage.NODE_VISITOR, "process::scope_visitor::ScopeVisitor", RPP).proc_scope():
        f = lib.fns[p]
        for c in thir.calls(f):
            if c.get("fname") == "find_require_path":
                frp, host = c, f
    if R.require(rid, "anchor:find_require_path", frp is not None, ctx.where(fn), "no find_require_path call reachable from the processor"):
        ha = ctx.an.fa(host["path"])
        o2 = ha.origins(frp["args"][2]) if len(frp["args"]) > 2 else set()
        R.ob(rid, "find_require_path|from-current-source", any(x[1] == "source" for x in o2 if x[0] != "#param"), ctx.where(host, frp.get("ln")), "second argument derives from self.source")
        s1 = [y.get("fname") for y in ha.source_calls(frp["args"][1])]
        R.ob(rid, "find_require_path|from-call-literal", "require_call" in s1 or "match_path_require_call" in s1 or host is not fn, ctx.where(host, frp.get("ln")), "first argument derives from this call's literal (%s)" % s1[:4])
    fn2 = lib.fn(RPP + "::inline_require")
    if R.require(rid, "anchor:inline_require", fn2 is not None, "", "not found"):
        a2 = ctx.an.fa(fn2["path"])
        n = 0
        for c in thir.calls(fn2):
            if not c["args"]:
                continue
            o = {x for x in a2.origins(c["args"][0]) if x[0] != "#param"}
            fields = {x[1] for x in o}
            if c.get("fname") in ("get", "insert", "contains_key") and "module_cache" in fields:
                n += 1
                ok = ("#param", 1) in a2.origins(c["args"][1])
                R.ob(rid, "inline_require|module_cache.%s-key" % c["fname"], ok, ctx.where(fn2, c.get("ln")), "key derives from the resolved path parameter: %s" % ok)
            if c.get("fname") == "push" and "require_stack" in fields:
                n += 1
                ok = ("#param", 1) in a2.origins(c["args"][1])
                R.ob(rid, "inline_require|require_stack.push-key", ok, ctx.where(fn2, c.get("ln")), "stack entry derives from the resolved path parameter: %s" % ok)
        R.require(rid, "inline_require|floor", n >= 2, ctx.where(fn2), "%d keyed operations found (cache get/insert, stack push)" % n)


def canonical_key(R, ctx):
    """One file, one module: the key under which a required module is cached does not depend on how the require was spelled."""
    from .. import peval
    from ..pathmodel import PathV
    rid = "C05.canonical"
    lib = ctx.lib
    R.rule(rid, "the path that try_inline_call hands on as the module key passes, after the locator, through a crate function K that the "
                "evaluator (sa/peval.py, std::path's Unix semantics) shows to be a canonicaliser: K maps `./a/b`, `a/./b`, `a/c/../b` and "
                "`a/b` to one path, and `./a` and `a` likewise. The locators answer with a path that keeps a leading `./` (they resolve "
                "relative to the current directory), so `require('pkg/x')` through a source `./packages` and `require('../packages/x')` name "
                "the same file with two different paths: without K the module is bundled, and run, twice")
    fn = lib.fn(RPP + "::try_inline_call")
    if not R.require(rid, "anchor:try_inline_call", fn is not None, "", "not found"):
        return
    a = ctx.an.fa(fn["path"])
    inl = [c for c in thir.calls(fn) if c.get("fname") == "inline_require"]
    if not R.require(rid, "anchor:inline_require-call", len(inl) >= 1, ctx.where(fn), "no inline_require call"):
        return
    PAIRS = [("./a/b", "a/b"), ("a/./b", "a/b"), ("a/c/../b", "a/b"), ("./a", "a"), ("./packages/x.lua", "packages/x.lua")]
    for c in inl:
        srcs = ctx.an.deep_source_calls(a, c["args"][1])
        cands = []
        for y in srcs:
            q = lib.fn(callee_of(y) or "")
            if q is not None and thir.body_of(q) and y.get("fname") != "find_require_path" and len(q["thir"].get("params", [])) == 1:
                cands.append(q)
            # a function VALUE applied on the way: `.map(normalize_path)`
            for a_ in y.get("args", [])[1:]:
                for z in thir.walk(a_):
                    if z.get("k") == "Zst" and "fn" in z:
                        q2 = lib.fn(z["fn"])
                        if q2 is not None and thir.body_of(q2) and len(q2["thir"].get("params", [])) == 1:
                            cands.append(q2)
        good = None
        for q in cands:
            ok = True
            for x, y_ in PAIRS:
                pe = peval.PEval(lib, ctx.an)
                try:
                    r1, r2 = pe.call_fn(q, [PathV(x)]), pe.call_fn(q, [PathV(y_)])
                except peval.OutOfFuel:
                    ok = False
                    break
                if not (isinstance(r1, str) and isinstance(r2, str) and str(r1) == str(r2)):
                    ok = False
                    break
            if ok:
                good = q
                break
        R.ob(rid, "try_inline_call|key-is-canonical", good is not None, ctx.where(fn, c.get("ln")),
             "the key passes through `%s`, which maps every spelling pair to one path" % good["path"] if good is not None else
             "no canonicalising function between the locator and the module key (functions on the way: %s): two spellings of one file give two modules" % [q["path"].split("::")[-1] for q in cands])


def stack(R, ctx):
    rid = "C05.stack"
    lib = ctx.lib
    R.rule(rid, "in inline_require every path from require_stack.push to a return (error edges included) passes require_stack.pop")
    fn = lib.fn(RPP + "::inline_require")
    if not R.require(rid, "anchor:inline_require", fn is not None and fn.get("mir"), "", "not found"):
        return
    cfg = mir.Cfg(lib, fn)
    pushes = [i for i, t in cfg.calls() if t.get("fname") == "push" and "Vec" in (t.get("fn") or "")]
    pops = [i for i, t in cfg.calls() if t.get("fname") == "pop" and "Vec" in (t.get("fn") or "")]
    R.require(rid, "anchor:push-pop", len(pushes) == 1 and len(pops) >= 1, ctx.where(fn), "push/pop calls: %d/%d" % (len(pushes), len(pops)))
    for p in pushes:
        start = cfg.blocks[p]["term"].get("t")
        reach = cfg.reachable_from(start, avoid=set(pops))
        bad = [r for r in cfg.returns() if r in reach]
        R.ob(rid, "inline_require|pop-on-every-exit", not bad, ctx.where(fn, cfg.line(p)),
             "a return is reachable after push without pop (the file stays on the cycle-detection stack)" if bad else "push is always followed by pop before returning")
        # the recursive resource load lies between them
        loads = [i for i, t in cfg.calls() if t.get("fname") == "require_resource"]
        for l in loads:
            R.ob(rid, "inline_require|load-between", cfg.must_pass([p], l) and all(cfg.must_pass([l], q, start=start) for q in pops), ctx.where(fn, cfg.line(l)),
                 "require_resource runs between push and pop")


def errors(R, ctx):
    rid = "C05.errors"
    lib = ctx.lib
    R.rule(rid, "in try_inline_call every `Err(..)` arm pushes the error onto self.errors; RequirePathProcessor::apply returns Ok only on the "
                "`errors.len() == 0` arm; the bundler error reaches Worker::bundle's `?`")
    # the error list = the field of the processor whose length decides the result of apply (found by role, not by name)
    err_fields = set()
    ap = lib.fn(RPP + "::apply")
    if ap is not None:
        apa = ctx.an.fa(ap["path"])
        for c in thir.calls(ap):
            if c.get("fname") in ("len", "is_empty") and c["args"]:
                err_fields |= {o[1] for o in apa.origins(c["args"][0]) if o[0] == RPP}
    R.require(rid, "anchor:error-list", len(err_fields) >= 1, ctx.where(ap) if ap else "", "field(s) of the processor whose length decides apply's result: %s" % sorted(err_fields))
    fn = lib.fn(RPP + "::try_inline_call")
    if R.require(rid, "anchor:try_inline_call", fn is not None, "", "not found"):
        a = ctx.an.fa(fn["path"])
        n = 0
        # the places where an error is handled: `Err(..)` match arms, `if let Err(..)` branches, and the closures given to
        # map_err / or_else / unwrap_or_else / inspect_err on a Result
        handlers = []
        for m in thir.walk(thir.body_of(fn)):
            if m.get("k") == "Match":
                for arm in m["arms"]:
                    if any(v == "Err" and adt.endswith("Result") for adt, v in thir.pat_variants(arm["pat"])):
                        handlers.append((arm["body"], arm.get("l")))
            elif m.get("k") == "If" and m.get("cond", {}).get("k") == "Let" and any(v == "Err" and adt.endswith("Result") for adt, v in thir.pat_variants(m["cond"]["pat"])):
                handlers.append((m["then"], m.get("ln")))
            elif m.get("k") == "Call" and m.get("fname") in ("map_err", "or_else", "unwrap_or_else", "inspect_err") and m["args"] and \
                    lib.ty_str(lib.strip_refs(m["args"][0]["t"])).startswith("core::result::Result<"):
                for a_ in m["args"][1:]:
                    x_ = a_
                    while x_.get("k") in ("Borrow", "Use", "Scope", "Coerce") and "e" in x_:
                        x_ = x_["e"]
                    if x_.get("k") == "Closure" and x_.get("body"):
                        handlers.append((x_["body"]["body"], m.get("ln")))
        for body, ln in handlers:
            n += 1
            pushed = any(c.get("k") == "Call" and c.get("fname") == "push" and c["args"] and any(x[1] in err_fields for x in a.origins(c["args"][0]) if x[0] == RPP)
                         for c in thir.walk(body))
            R.ob(rid, "try_inline_call|err-arm-recorded@%d" % n, pushed, ctx.where(fn, ln), "error pushed onto self.errors: %s" % pushed)
        R.require(rid, "try_inline_call|floor", n >= 1, ctx.where(fn), "%d error handlers" % n)
    fn = lib.fn(RPP + "::apply")
    if R.require(rid, "anchor:apply", fn is not None, "", "not found"):
        ok_arms = []
        for m in thir.walk(thir.body_of(fn)):
            if m.get("k") == "Match" and any(c.get("fname") == "len" for c in thir.walk(m["scrut"]) if c.get("k") == "Call"):
                for arm in m["arms"]:
                    returns_ok = any(x.get("k") == "Adt" and x.get("variant") == "Ok" for x in thir.walk(arm["body"]))
                    is_zero = arm["pat"].get("k") == "Const" and arm["pat"].get("bits") == "0"
                    ok_arms.append((returns_ok, is_zero))
        good = bool(ok_arms) and all((not r) or z for r, z in ok_arms) and any(r and z for r, z in ok_arms)
        R.ob(rid, "apply|ok-only-without-errors", good, ctx.where(fn), "Ok(()) is returned only on the `0` arm of errors.len(): %s" % good)


def order(R, ctx):
    rid = "C05.order"
    lib = ctx.lib
    R.rule(rid, "BuildModuleDefinitions keeps the modules in an insertion-ordered IndexMap and emits them by draining it in order")
    ad = lib.adts.get("rules::bundle::path_require_mode::module_definitions::BuildModuleDefinitions")
    if R.require(rid, "anchor:BuildModuleDefinitions", ad is not None, "", "not found"):
        f = [x for x in ad["variants"][0]["fields"] if x["name"] == "module_definitions"]
        R.ob(rid, "module_definitions|IndexMap", bool(f) and "indexmap::map::IndexMap" in f[0]["tys"], ctx.adt_where(ad["path"]), f[0]["tys"][:100] if f else "field missing")


def always_walked(R, ctx):
    """A required module's block is handed back only after the inlining traversal ran over it -- on every path."""
    rid = "C05.walk"
    lib = ctx.lib
    R.rule(rid, "MIR must-pass rule in the bundler: wherever the resource read from a required Lua file is wrapped as the `block` variant of "
                "the bundler's resource enum (found by role: the enum under rules::bundle with a variant holding a nodes::block::Block), every "
                "path from the function's entry to that construction passes through a scope-tracking `visit_block` call: no fast path, "
                "cache or textual pre-filter may return a module whose own `require` calls have not been inlined")
    enums = []
    for p, a in lib.adts.items():
        if p.startswith("rules::bundle") and a.get("kind") == "enum":
            for v in a["variants"]:
                if len(v["fields"]) == 1 and v["fields"][0]["tys"] == "nodes::block::Block":
                    enums.append((p, v["name"]))
    if not R.require(rid, "anchor:resource-enum", len(enums) >= 1, "", "enum with a Block variant under rules::bundle: %s" % enums):
        return
    n = 0
    for f in lib.fn_list:
        if not f.get("mir") or not f["path"].startswith(("rules::bundle", "<rules::bundle")):
            continue
        cfg = mir.Cfg(lib, f)
        sites = [(i, st) for i, bb in enumerate(cfg.blocks) for st in bb.get("s", []) if st.get("rv") == "adt" and (st.get("adt"), st.get("variant")) in enums]
        if not sites:
            continue
        walks = [i for i, t in cfg.calls() if t.get("fname") == "visit_block" and any(v in (cfg.callee(t) or "") for v in ("ScopeVisitor", "ScopePostVisitor"))]
        for i, st in sites:
            n += 1
            ok = bool(walks) and cfg.must_pass(walks, i)
            R.ob(rid, "%s|walk-before-block" % f["path"].split("::")[-1], ok, ctx.where(f, st.get("ln")),
                 "the Block resource is built %s the scope-tracking walk" % ("only after" if ok else "on a path that SKIPS"))
    R.require(rid, "floor:sites", n >= 1, "", "%d constructions of the Block resource" % n)


def no_explicit_panics(R, ctx):
    """What the file system holds decides which arm of the bundler's matches runs: none of them may be a panic."""
    rid = "C05.total"
    lib = ctx.lib
    R.rule(rid, "zero-count rule with a positive control: the functions of the bundler's require path (rules::bundle::path_require_mode) contain "
                "no explicit panic macro (`unreachable!`, `panic!`, `todo!`, `unimplemented!`): every arm that a file-system state can select "
                "-- a required file without an extension, an unknown extension, a missing file -- answers with an error value naming the "
                "file; the positive control counts the error values these functions build")
    explicit = {"panic", "panic_fmt", "unreachable_display", "panic_explicit", "panic_display", "begin_panic", "unreachable"}
    bad, errs, nfn = [], 0, 0
    for f in lib.fn_list:
        if not thir.body_of(f) or "::test" in f["path"] or not (f["path"].startswith("rules::bundle::path_require_mode") or f["path"].startswith("<rules::bundle::path_require_mode")):
            continue
        nfn += 1
        for c in thir.fn_refs(f):
            cal = (callee_of(c) or c.get("fn") or "")
            if c.get("fname") in explicit and ("panicking" in cal or "begin_panic" in cal):
                bad.append((f, c))
            if "DarkluaError::" in cal:
                errs += 1
    R.require(rid, "floor:error-values", nfn >= 5 and errs >= 3, "", "%d functions, %d DarkluaError constructions (positive control)" % (nfn, errs))
    R.ob(rid, "no-explicit-panic-in-require-path", not bad, ctx.where(bad[0][0], bad[0][1].get("ln")) if bad else "",
         "no explicit panic macro" if not bad else "%s contains an explicit panic (`%s`): a file-system state that selects this arm aborts the whole run" % (bad[0][0]["path"].split("::")[-1], bad[0][1].get("fname")))


def run(R, ctx):
    R.explanation = (
        "Structural conditions of the bundler: scope tracking on every inlining traversal (resolved generic arguments of the visit_block "
        "calls), provenance of the path used as module key, push/pop pairing on the cycle stack (MIR), error recording, ordered module map. "
        "Decides the wiring; the run-time semantics of the emitted wrapper is not decided."
    )
    R.assumptions += ["IdentifierTracker::is_identifier_used is the only scope query (checked: the processors reach it through is_require_call)"]
    shadow_rule(R, ctx, "C05.shadow", (RPP,), "bundler")
    # INFO: same rule on processors no listed property covers
    for d, uses in scope_users(ctx):
        if d["processor"].startswith("rules::convert_require::RequireConverter") and d["visitor"] not in SCOPE_VISITORS:
            R.info("INFO (no listed property covers convert_require): RequireConverter queries the scope (%s) but is driven by %s at %s:%s" % (uses, d["visitor"].split("::")[-1], d["file"], d["line"]))
    key(R, ctx)
    canonical_key(R, ctx)
    stack(R, ctx)
    errors(R, ctx)
    order(R, ctx)
    always_walked(R, ctx)
    no_explicit_panics(R, ctx)
    from .. import loops
    loops.index_removal_rule(R, ctx, "C05.index")
    # data files required by a bundle go through the same serde -> Lua expression serializer (transcode): its value preservation
    from . import c14 as _c14
    _c14.data_values(R, ctx, rid="C05.data")
    # the module a bundle inlines is the one find_require returns: relative requires (`./`, `../`, from plain files and from module-folder
    # files at the root, in a folder, above the working directory) resolve as documented, for every layout of candidate files
    from . import c15 as _c15
    _c15.relative_resolution(R, ctx, "C05.resolve")

"""C08 Static evaluation never disagrees with real execution (small structural part).

Numeric folding, coercions and formatting are values: not decided.  Decided is the soundness
skeleton of the abstract domain (decision tables extracted from the match expressions):
  C08.opaque   evaluate / evaluate_prefix answer Unknown for every leaf whose value is not in the
               text (Call, Field, Identifier, Index, VariableArguments)                         [T4]
  C08.effects  has_side_effects: a Call is always effectful; Field/Index are effectful unless
               pure_metamethods; unknown operands are "maybe metatable"                          [T4]
  C08.multi    can_return_multiple_values is true for Call and VariableArguments and false for
               Parenthese (the one construct that truncates)                                     [T4]
  C08.domain   LuaValue::is_truthy is None exactly for Unknown, Some(false) exactly for Nil/False;
               to_expression is None for Unknown/Table/Function (nothing unknown is materialised) [T4]
"""
from .. import thir, tables

EV = "process::evaluator::Evaluator"
LV = "process::evaluator::lua_value::LuaValue"
EXPR = "nodes::expressions::Expression"
PREFIX = "nodes::expressions::prefix::Prefix"


def table_of(ctx, R, rid, path, enum):
    lib = ctx.lib
    fn = lib.fn(path)
    if not R.require(rid, "anchor:" + path.split("::")[-1], fn is not None, "", "not found"):
        return None, None
    ms = tables.matches_on(lib, thir.body_of(fn), enum)
    if not R.require(rid, "anchor:%s-match" % path.split("::")[-1], len(ms) >= 1, ctx.where(fn), "no match over %s" % enum):
        return None, fn
    return tables.variant_table(lib, ms[0], enum), fn


def first_class(tbl, v):
    rows = tbl.get(v, [])
    return rows[0][0] if rows and not rows[0][1] else ("guarded" if rows else "missing")


DISALLOWED_FLOAT = {"total_cmp": "f64::total_cmp orders -0 < +0 and gives NaN a position; Lua compares with the IEEE partial order",
                    "max": "f64::max/min ignore NaN", "min": "f64::max/min ignore NaN", "clamp": "panics/ignores NaN",
                    "to_bits": "bit comparison distinguishes -0 and +0 and equates NaNs"}


def float_order(R, ctx):
    rid = "C08.ieee"
    lib = ctx.lib
    R.rule(rid, "the evaluator never compares or selects f64 values through APIs whose NaN / signed-zero behaviour differs from Lua's IEEE "
                "comparison (f64::total_cmp, max, min, clamp, to_bits): who-may-call rule with expected count zero and a positive control")
    n = 0
    control = {"k": "Call", "fname": "total_cmp", "fn": "core::f64::<impl f64>::total_cmp", "args": []}
    R.ob(rid, "detector|fires-on-synthetic-call", _is_disallowed(control), "", "positive control", nontrivial=False)
    for f in lib.fn_list:
        if not f["path"].startswith("process::evaluator::") or not thir.body_of(f) or "::test" in f["path"]:
            continue
        n += 1
        for c in thir.fn_refs(f):
            if _is_disallowed(c):
                R.ob(rid, "%s|%s" % (f["path"].split("::")[-1], c["fname"]), False, ctx.where(f, c.get("ln")),
                     "evaluator uses %s: %s" % (c["fn"], DISALLOWED_FLOAT[c["fname"]]))
    # epsilon comparisons: Lua's == on numbers is exact IEEE equality
    for f in lib.fn_list:
        if not f["path"].startswith("process::evaluator::") or not thir.body_of(f) or "::test" in f["path"]:
            continue
        for x in thir.walk(thir.body_of(f)):
            if x.get("k") == "Const" and x.get("def", "").endswith("::EPSILON"):
                R.ob(rid, "%s|EPSILON" % f["path"].split("::")[-1], False, ctx.where(f, x.get("ln")),
                     "evaluator compares numbers within f64::EPSILON: `0.1 + 0.2 == 0.3` folds to true and `(1/0) == (1/0)` to false, Lua says the opposite")
    # number -> string: Rust's Display is not Lua's %.14g / Luau's shortest form outside a safe range
    k = 0
    for f in lib.fn_list:
        if not f["path"].startswith("process::evaluator::") or not thir.body_of(f) or "::test" in f["path"]:
            continue
        for c in thir.calls(f):
            if c.get("fname") == "to_string" and c["args"] and lib.ty_str(lib.strip_refs(c["args"][0]["t"])) in ("f64", "f32"):
                k += 1
                out = lib.ty_str(f["sig"]["output"])
                guarded = "Option" in out and any(x.get("fname") == "is_finite" for x in thir.calls(f))
                R.ob(rid, "%s|number-to-string" % f["path"].split("::")[-1], guarded, ctx.where(f, c.get("ln")),
                     "f64 formatted with Rust's Display %s" % ("inside a partial formatter (Option result, finiteness/range checked)" if guarded else
                        "unconditionally: `1e100 .. \"\"` folds to a 101-digit string, `(0/0) .. \"\"` to \"NaN\"; Lua gives \"1e+100\" and \"nan\""))
    R.require(rid, "floor:number-formatting-sites", k >= 1, "", "%d number formatting sites" % k)
    R.ob(rid, "evaluator-functions-scanned", n >= 25, "", "%d evaluator functions scanned (floor 25)" % n)


def _is_disallowed(c):
    return c.get("fname") in DISALLOWED_FLOAT and ("f64" in (c.get("fn") or "") or "f32" in (c.get("fn") or ""))


IFE = "nodes::expressions::if_expression::IfExpression"
ELIF = "nodes::expressions::if_expression::ElseIfExpressionBranch"


def if_effects(R, ctx, rid="C08.if-effects"):
    """Path rule on Evaluator::if_expression_has_side_effects."""
    from .. import absint
    lib = ctx.lib
    R.rule(rid, "if_expression_has_side_effects: the condition is always asked first; on the path where the condition's truthiness is unknown, "
                "has_side_effects is asked about the result, every elseif *condition*, every elseif result and the else result (all of them may "
                "be evaluated at run time); when the condition is known false, about every elseif condition before its result, and the else result")
    fn = lib.fn(EV + "::if_expression_has_side_effects")
    if not R.require(rid, "anchor", fn is not None, "", "not found"):
        return
    fa = ctx.an.fa(fn["path"])

    def slot_of(e):
        o = {x for x in fa.origins(e) if x[0] in (IFE, ELIF)}
        for s_ in ((ELIF, "condition"), (ELIF, "result"), (IFE, "condition"), (IFE, "result"), (IFE, "else_result")):
            if s_ in o:
                return s_
        return None

    def atom(e):
        # `if let Some(truthy) = condition.is_truthy()`  /  `if truthy`
        if e.get("k") == "Let" and any(c.get("fname") == "is_truthy" for c in fa.source_calls(e["e"])):
            src = [c for c in fa.source_calls(e["e"]) if c.get("fname") == "evaluate"]
            sl = slot_of(src[0]["args"][1]) if src else None
            return ("known", sl)
        if e.get("k") == "Var" and e.get("name") == "truthy":
            return ("truthy", e["var"])
        return None

    def event(c):
        if c.get("fname") == "has_side_effects" and len(c["args"]) >= 2:
            sl = slot_of(c["args"][1])
            if sl:
                return ("hse",) + sl
        return None
    it = absint.Interp(atom, event)
    try:
        paths = it.run(thir.body_of(fn))
    except RuntimeError:
        paths = []
    R.require(rid, "anchor:paths", len(paths) >= 3, ctx.where(fn), "%d paths enumerated" % len(paths))
    # all paths: first event is the main condition
    first_ok = all(p.events and p.events[0] == ("hse", IFE, "condition") for p in paths)
    R.ob(rid, "condition-asked-first", first_ok, ctx.where(fn), "every path starts with has_side_effects(condition): %s" % first_ok)
    unknown = [p for p in paths if p.assign.get(("known", (IFE, "condition"))) is False]
    R.require(rid, "anchor:unknown-path", len(unknown) >= 1, ctx.where(fn), "path with unknown condition truthiness not recognised")
    need = [(IFE, "result"), (ELIF, "condition"), (ELIF, "result"), (IFE, "else_result")]
    for sl in need:
        # among the unknown-condition paths, those that run to the end (final result not decided by an early `return true`)
        full = [p for p in unknown if ("hse", IFE, "else_result") in p.events]
        ok = bool(full) and all(("hse",) + sl in p.events for p in full if _enters_loop(p) or sl[0] == IFE)
        R.ob(rid, "unknown-condition|asks|%s.%s" % (sl[0].split("::")[-1], sl[1]), ok, ctx.where(fn),
             "on the unknown-truthiness path has_side_effects(%s.%s) is %s" % (sl[0].split("::")[-1], sl[1], "asked" if ok else "NOT asked: an effectful elseif condition/result is declared effect-free and dropped with the expression"))
    falsy = [p for p in paths if p.assign.get(("known", (IFE, "condition"))) is True and any(k[0] == "truthy" and v is False for k, v in p.assign.items() if isinstance(k, tuple))]
    if falsy:
        full = [p for p in falsy if ("hse", IFE, "else_result") in p.events and _enters_loop(p)]
        ok = bool(full) and all(("hse", ELIF, "condition") in p.events for p in full)
        R.ob(rid, "false-condition|asks|ElseIfExpressionBranch.condition", ok, ctx.where(fn), "known-false condition: every elseif condition is asked: %s" % ok)


def _enters_loop(p):
    return any(e[0] == "hse" and e[1] == ELIF for e in p.events)


def run(R, ctx):
    lib = ctx.lib
    float_order(R, ctx)
    if_effects(R, ctx)
    R.explanation = (
        "Decision tables of the evaluator's match expressions (variant -> constant / recurse), compared with the soundness skeleton an "
        "abstract interpreter of Lua needs: opaque leaves are Unknown, calls are effectful, unknown means 'maybe metatable', multi-value "
        "sources are flagged, nothing unknown is turned into a literal. Arithmetic, coercion and formatting results are NOT decided."
    )
    R.assumptions += ["only the shape of the tables is decided; the numeric/string semantics re-implemented in Rust need execution to compare"]
    rid = "C08.opaque"
    R.rule(rid, "Evaluator::evaluate maps Call, Field, Identifier, Index and VariableArguments to LuaValue::Unknown; evaluate_prefix maps Call, Field, "
                "Identifier, Index to Unknown (their run-time value is not in the program text)")
    tbl, fn = table_of(ctx, R, rid, EV + "::evaluate", EXPR)
    if tbl:
        for v in ("Call", "Field", "Identifier", "Index", "VariableArguments"):
            R.ob(rid, "evaluate|" + v, first_class(tbl, v) == "variant:Unknown", ctx.where(fn), "Expression::%s -> %s" % (v, first_class(tbl, v)))
        # literals map to their own kind (a swapped arm would fold `nil` to false)
        for v, want in (("False", "variant:False"), ("True", "variant:True"), ("Nil", "variant:Nil"), ("Function", "variant:Function"), ("Table", "variant:Table")):
            R.ob(rid, "evaluate|literal|" + v, first_class(tbl, v) == want, ctx.where(fn), "Expression::%s -> %s" % (v, first_class(tbl, v)))
    tbl, fn = table_of(ctx, R, rid, EV + "::evaluate_prefix", PREFIX)
    if tbl:
        for v in ("Call", "Field", "Identifier", "Index"):
            R.ob(rid, "evaluate_prefix|" + v, first_class(tbl, v) == "variant:Unknown", ctx.where(fn), "Prefix::%s -> %s" % (v, first_class(tbl, v)))

    rid = "C08.effects"
    R.rule(rid, "call_has_side_effects is constantly true and is what has_side_effects(Call)/prefix_has_side_effects(Call) return; field/index "
                "side effects are `!pure_metamethods || ..`; maybe_metatable(Unknown) is true; has_side_effects is constant false only for literals, "
                "identifiers, functions and `...`")
    fn = lib.fn(EV + "::call_has_side_effects")
    if R.require(rid, "anchor:call_has_side_effects", fn is not None, "", "not found"):
        R.ob(rid, "call_has_side_effects|constant-true", tables.classify_body(thir.body_of(fn)) == "true", ctx.where(fn), "body is the literal true")
    tbl, fn = table_of(ctx, R, rid, EV + "::has_side_effects", EXPR)
    if tbl:
        rows = tbl.get("Call", [])
        ok = bool(rows) and any(c.get("fname") == "call_has_side_effects" for c in thir.walk(rows[0][2]["body"]) if c.get("k") == "Call") or first_class(tbl, "Call") == "true"
        R.ob(rid, "has_side_effects|Call", ok, ctx.where(fn), "Expression::Call -> call_has_side_effects (constant true): %s" % ok)
        allowed_false = {"False", "True", "Nil", "Number", "String", "Function", "Identifier", "VariableArguments"}
        for v, r in sorted(tbl.items()):
            if first_class(tbl, v) == "false":
                R.ob(rid, "has_side_effects|constant-false|" + v, v in allowed_false, ctx.where(fn), "Expression::%s is declared effect-free unconditionally" % v)
    for name in ("field_has_side_effects", "index_has_side_effects"):
        fn = lib.fn("%s::%s" % (EV, name))
        if R.require(rid, "anchor:" + name, fn is not None, "", "not found"):
            b = thir.body_of(fn)
            while b.get("k") == "Block" and not b["stmts"] and "tail" in b:
                b = b["tail"]
            first = b
            while first.get("k") == "Logical" and first.get("op") == "Or":
                first = first["l"]
            ok = b.get("k") == "Logical" and b.get("op") == "Or" and first.get("k") == "Unary" and first.get("op") == "Not" and \
                any(x.get("k") == "Field" and x.get("f") == "pure_metamethods" for x in thir.walk(first))
            R.ob(rid, name + "|effectful-unless-pure-metamethods", ok, ctx.where(fn), "`!self.pure_metamethods || ..`: %s" % ok)
    tbl, fn = table_of(ctx, R, rid, EV + "::maybe_metatable", LV)
    if tbl:
        R.ob(rid, "maybe_metatable|Unknown", first_class(tbl, "Unknown") == "true", ctx.where(fn), "LuaValue::Unknown -> %s" % first_class(tbl, "Unknown"))
    tbl, fn = table_of(ctx, R, rid, EV + "::prefix_has_side_effects", PREFIX)
    if tbl:
        rows = tbl.get("Call", [])
        ok = bool(rows) and any(c.get("fname") == "call_has_side_effects" for c in thir.walk(rows[0][2]["body"]) if c.get("k") == "Call")
        R.ob(rid, "prefix_has_side_effects|Call", ok, ctx.where(fn), "Prefix::Call -> call_has_side_effects: %s" % ok)

    rid = "C08.multi"
    R.rule(rid, "can_return_multiple_values: true for Call and VariableArguments, false for Parenthese")
    tbl, fn = table_of(ctx, R, rid, EV + "::can_return_multiple_values", EXPR)
    if tbl:
        for v, want in (("Call", "true"), ("VariableArguments", "true"), ("Parenthese", "false")):
            R.ob(rid, "can_return_multiple_values|" + v, first_class(tbl, v) == want, ctx.where(fn), "Expression::%s -> %s" % (v, first_class(tbl, v)))

    rid = "C08.domain"
    R.rule(rid, "LuaValue::is_truthy: Unknown -> None, Nil/False -> Some(false), every other variant -> Some(true); to_expression: None for "
                "Unknown, Table and Function")
    fn = lib.fn(LV + "::is_truthy")
    if R.require(rid, "anchor:is_truthy", fn is not None, "", "not found"):
        ms = tables.matches_on(lib, thir.body_of(fn), LV)
        if R.require(rid, "anchor:is_truthy-match", len(ms) >= 1, ctx.where(fn), "no match"):
            t = {}
            names = [v["name"] for v in lib.adts[LV]["variants"]]
            decided = set()
            for arm in ms[0]["arms"]:
                vs = {v for a, v in thir.pat_variants(arm["pat"]) if a == LV}
                if not vs and thir.pat_is_catchall(arm["pat"]):
                    vs = set(names) - decided
                b = arm["body"]
                cls = "None" if (b.get("k") == "Adt" and b.get("variant") == "None") else None
                if b.get("k") == "Adt" and b.get("variant") == "Some":
                    inner = b["fields"][0]["e"]
                    cls = "Some(%s)" % inner.get("v") if inner.get("k") == "Lit" else "Some(?)"
                for v in vs:
                    if v not in decided:
                        t[v] = cls
                        decided.add(v)
            for v in names:
                want = "None" if v == "Unknown" else "Some(false)" if v in ("Nil", "False") else "Some(true)"
                R.ob(rid, "is_truthy|" + v, t.get(v) == want, ctx.where(fn), "LuaValue::%s -> %s (expected %s)" % (v, t.get(v), want))
    tbl, fn = table_of(ctx, R, rid, LV + "::to_expression", LV)
    if tbl:
        for v in ("Unknown", "Table", "Function"):
            R.ob(rid, "to_expression|" + v, first_class(tbl, v) == "None", ctx.where(fn), "LuaValue::%s -> %s" % (v, first_class(tbl, v)))

"""C08 Static evaluation never disagrees with real execution (small structural part).

Numeric folding, coercions and formatting are values: not decided.  Decided is the soundness
skeleton of the abstract domain (decision tables extracted from the match expressions):
  C08.opaque   evaluate / evaluate_prefix answer Unknown for every leaf whose value is not in the
               text (Call, Field, Identifier, Index, VariableArguments)                         [T4]
  C08.effects  has_side_effects: a Call is always effectful; Field/Index are effectful unless
               pure_metamethods; unknown operands are "maybe metatable"                          [T4]
  C08.multi    can_return_multiple_values is true for Call and VariableArguments and false for
               Parenthese (the one construct that truncates)                                     [T4]
  C08.domain   LuaValue::is_truthy is None exactly for Unknown, Some(false) exactly for Nil/False;
               to_expression is None for Unknown/Table/Function (nothing unknown is materialised) [T4]
"""
from .. import thir, tables

EV = "process::evaluator::Evaluator"
LV = "process::evaluator::lua_value::LuaValue"
EXPR = "nodes::expressions::Expression"
PREFIX = "nodes::expressions::prefix::Prefix"


def table_of(ctx, R, rid, path, enum):
    lib = ctx.lib
    fn = lib.fn(path)
    if not R.require(rid, "anchor:" + path.split("::")[-1], fn is not None, "", "not found"):
        return None, None
    ms = tables.matches_on(lib, thir.body_of(fn), enum)
    if not R.require(rid, "anchor:%s-match" % path.split("::")[-1], len(ms) >= 1, ctx.where(fn), "no match over %s" % enum):
        return None, fn
    return tables.variant_table(lib, ms[0], enum), fn


def first_class(tbl, v):
    rows = tbl.get(v, [])
    return rows[0][0] if rows and not rows[0][1] else ("guarded" if rows else "missing")


DISALLOWED_FLOAT = {"total_cmp": "f64::total_cmp orders -0 < +0 and gives NaN a position; Lua compares with the IEEE partial order",
                    "max": "f64::max/min ignore NaN", "min": "f64::max/min ignore NaN", "clamp": "panics/ignores NaN",
                    "to_bits": "bit comparison distinguishes -0 and +0 and equates NaNs"}


def float_order(R, ctx):
    rid = "C08.ieee"
    lib = ctx.lib
    R.rule(rid, "the evaluator never compares or selects f64 values through APIs whose NaN / signed-zero behaviour differs from Lua's IEEE "
                "comparison (f64::total_cmp, max, min, clamp, to_bits): who-may-call rule with expected count zero and a positive control")
    n = 0
    control = {"k": "Call", "fname": "total_cmp", "fn": "core::f64::<impl f64>::total_cmp", "args": []}
    R.ob(rid, "detector|fires-on-synthetic-call", _is_disallowed(control), "", "positive control", nontrivial=False)
    for f in lib.fn_list:
        if not f["path"].startswith("process::evaluator::") or not thir.body_of(f) or "::test" in f["path"]:
            continue
        n += 1
        for c in thir.fn_refs(f):
            if _is_disallowed(c):
                R.ob(rid, "%s|%s" % (f["path"].split("::")[-1], c["fname"]), False, ctx.where(f, c.get("ln")),
                     "evaluator uses %s: %s" % (c["fn"], DISALLOWED_FLOAT[c["fname"]]))
    # epsilon comparisons: Lua's == on numbers is exact IEEE equality
    for f in lib.fn_list:
        if not f["path"].startswith("process::evaluator::") or not thir.body_of(f) or "::test" in f["path"]:
            continue
        for x in thir.walk(thir.body_of(f)):
            if x.get("k") == "Const" and x.get("def", "").endswith("::EPSILON"):
                R.ob(rid, "%s|EPSILON" % f["path"].split("::")[-1], False, ctx.where(f, x.get("ln")),
                     "evaluator compares numbers within f64::EPSILON: `0.1 + 0.2 == 0.3` folds to true and `(1/0) == (1/0)` to false, Lua says the opposite")
    # number -> string: Rust's Display is not Lua's %.14g / Luau's shortest form outside a safe range
    k = 0
    for f in lib.fn_list:
        if not f["path"].startswith("process::evaluator::") or not thir.body_of(f) or "::test" in f["path"]:
            continue
        for c in thir.calls(f):
            if c.get("fname") == "to_string" and c["args"] and lib.ty_str(lib.strip_refs(c["args"][0]["t"])) in ("f64", "f32"):
                k += 1
                out = lib.ty_str(f["sig"]["output"])
                guarded = "Option" in out and any(x.get("fname") == "is_finite" for x in thir.calls(f))
                R.ob(rid, "%s|number-to-string" % f["path"].split("::")[-1], guarded, ctx.where(f, c.get("ln")),
                     "f64 formatted with Rust's Display %s" % ("inside a partial formatter (Option result, finiteness/range checked)" if guarded else
                        "unconditionally: `1e100 .. \"\"` folds to a 101-digit string, `(0/0) .. \"\"` to \"NaN\"; Lua gives \"1e+100\" and \"nan\""))
    R.require(rid, "floor:number-formatting-sites", k >= 1, "", "%d number formatting sites" % k)
    R.ob(rid, "evaluator-functions-scanned", n >= 25, "", "%d evaluator functions scanned (floor 25)" % n)


def _is_disallowed(c):
    return c.get("fname") in DISALLOWED_FLOAT and ("f64" in (c.get("fn") or "") or "f32" in (c.get("fn") or ""))


IFE = "nodes::expressions::if_expression::IfExpression"
ELIF = "nodes::expressions::if_expression::ElseIfExpressionBranch"


def if_effects(R, ctx, rid="C08.if-effects"):
    """Soundness table of Evaluator::if_expression_has_side_effects by finite-domain evaluation."""
    import itertools
    from .. import peval
    from ..peval import Enum, Struct, UNKNOWN, NONE, some
    lib = ctx.lib
    R.rule(rid, "if_expression_has_side_effects is sound: evaluated on an abstract `if c then r elseif c0 then r0 elseif c1 then r1 else e` for every "
                "combination of what the evaluator knows about the truthiness of c, c0, c1 (27) and every single effectful part (7): whenever "
                "the effectful part MAY be evaluated at run time (c always; r unless c is known false; c0 unless c is known true; r0 unless c0 is "
                "known false; ...; e unless some condition is known true) the function answers true. Otherwise the expression is declared "
                "effect-free and removed or folded together with the effect")
    fn = lib.fn(EV + "::if_expression_has_side_effects")
    if not R.require(rid, "anchor", fn is not None, "", "not found"):
        return
    for adt, names in ((IFE, ["condition", "result", "else_result", "branches"]), (ELIF, ["condition", "result"])):
        a_ = lib.adts.get(adt)
        have = {f["name"] for v in a_["variants"] for f in v["fields"]} if a_ else set()
        if not R.require(rid, "anchor:fields:" + adt.split("::")[-1], set(names) <= have, ctx.adt_where(adt) if a_ else "", "fields %s" % names):
            return

    def leaf(tag):
        return Enum(EXPR, "Identifier", {"0": tag})
    ife = Struct(IFE, {"condition": leaf("c"), "result": leaf("r"), "else_result": leaf("e"),
                       "branches": [Struct(ELIF, {"condition": leaf("c0"), "result": leaf("r0")}), Struct(ELIF, {"condition": leaf("c1"), "result": leaf("r1")})]})
    know_vals = {"unknown": NONE, "true": some(True), "false": some(False)}
    parts = ["c", "r", "c0", "r0", "c1", "r1", "e"]
    n = 0
    bad = {}
    unknown_cells = 0
    for kc, k0, k1 in itertools.product(know_vals, repeat=3):
        know = {"c": kc, "c0": k0, "c1": k1}
        may = {"c"}
        if kc != "false":
            may.add("r")
        if kc != "true":
            may.add("c0")
            if k0 != "false":
                may.add("r0")
            if k0 != "true":
                may.add("c1")
                if k1 != "false":
                    may.add("r1")
                if k1 != "true":
                    may.add("e")
        for x in parts:
            if x not in may:
                continue

            def hook(pe, path, fname, args, node, x=x, know=know):
                if fname == "has_side_effects" and len(args) == 2 and isinstance(args[1], Enum) and args[1].adt == EXPR:
                    return args[1].fields.get("0") == x
                if fname == "evaluate" and len(args) == 2 and isinstance(args[1], Enum):
                    return Struct("#LuaValue", {"of": args[1].fields.get("0")})
                if args and isinstance(args[0], Struct) and args[0].adt == "#LuaValue":
                    if fname == "is_truthy":
                        return know_vals[know.get(args[0].fields["of"], "unknown")]
                    return UNKNOWN
                return NotImplemented
            pe = peval.PEval(lib, ctx.an, hook)
            try:
                v = pe.call_fn(fn, [Struct("#Evaluator", {}), ife])
            except peval.OutOfFuel:
                v = UNKNOWN
            n += 1
            if v is not True:
                bad.setdefault(x, []).append(("c=%s,c0=%s,c1=%s" % (kc, k0, k1), v, pe.unknown_reasons[:1]))
                if v is not False:
                    unknown_cells += 1
    R.require(rid, "floor:cells", n >= 100, ctx.where(fn), "%d (knowledge, effectful part) cells evaluated" % n)
    names = {"c": "IfExpression.condition", "r": "IfExpression.result", "c0": "ElseIfExpressionBranch.condition", "r0": "ElseIfExpressionBranch.result",
             "c1": "ElseIfExpressionBranch.condition(2nd)", "r1": "ElseIfExpressionBranch.result(2nd)", "e": "IfExpression.else_result"}
    for x in parts:
        b = bad.get(x, [])
        R.ob(rid, "effect-in|%s" % names[x], not b, ctx.where(fn),
             "an effect in %s is reported in every knowledge state where it may run" % names[x] if not b else
             "an effect in %s is %s when %s: the if-expression is treated as effect-free" % (names[x], "NOT reported" if b[0][1] is False else "not established (%s)" % b[0][2], b[0][0]))


def number_to_string(R, ctx):
    """`..` on a number: the text the evaluator gives is the text Lua gives, or the evaluator declines."""
    import math
    import struct
    from .. import peval
    from ..peval import Enum
    rid = "C08.tostring"
    lib = ctx.lib
    R.rule(rid, "LuaValue::string_coercion (the number -> string step of `..`), evaluated from its typed tree (doubles as IEEE doubles, Rust's "
                "float printing as in sa/floatfmt.py) on both zeros, small and large integers, fractions, 1e14/1e15/1e16 and their "
                "neighbours, tiny and huge magnitudes, infinities and NaN: the result is either the number itself (the evaluator declines) "
                "or exactly the string `%.14g` gives (what Lua 5.1 -- and, where it is at most 14 digits, Luau -- print); in particular "
                "negative zero is `-0`")
    fn = lib.fn(LV + "::string_coercion")
    if not R.require(rid, "anchor:string_coercion", fn is not None and LV in lib.adts, "", "not found"):
        return
    vals = [0.0, -0.0, 1.0, -1.0, 2.0, 10.0, 33.0, -33.0, 0.5, -0.5, 0.1, 1 / 3, 1.5, 100.25, 1e5, 123456789.0, 1e13, 99999999999999.0, 1e14, 1e15, 1e16, 2.0 ** 53,
            1e-3, 1e-4, 9.9e-5, 1e-5, 1e100, 1e-100, 5e-324, 1.7976931348623157e308, 0.1 + 0.2, 123456789012345.0, 3.14159265358979, math.inf, -math.inf, math.nan]
    bad, n, decided = [], 0, 0
    for x in vals:
        pe = peval.PEval(lib, ctx.an)
        try:
            r = pe.call_fn(fn, [Enum(LV, "Number", {"0": x})])
        except peval.OutOfFuel:
            r = None
        n += 1
        if isinstance(r, Enum) and r.variant == "Number":
            continue            # declines: the value stays a number (concatenation is then unknown)
        text = r if isinstance(r, str) else None
        if isinstance(r, Enum) and r.variant == "String":
            v = r.fields.get("0")
            text = bytes(v).decode("utf-8", "replace") if isinstance(v, list) and all(isinstance(b, int) for b in v) else (v if isinstance(v, str) else None)
        want = "%.14g" % x
        decided += 1
        if text != want or math.isnan(x) or math.isinf(x):
            bad.append((x, want, text if text is not None else (repr(r)[:60], pe.unknown_reasons[:2])))
    R.ob(rid, "string_coercion|agrees-with-lua", not bad, ctx.where(fn), "%d doubles: %d converted as Lua prints them, %d declined" % (n, decided, n - decided) if not bad else
         "%r: Lua prints %r, the evaluator gives %r" % bad[0])
    R.require(rid, "floor:converted", decided >= 8, ctx.where(fn), "%d of %d doubles are converted" % (decided, n))


def arithmetic(R, ctx, rid="C08.arith"):
    """Folded arithmetic is IEEE double arithmetic with C's pow / floor, as Lua and Luau compute it."""
    import math
    import struct
    from .. import peval, floatfmt
    from ..peval import Enum, make
    from . import c13
    lib = ctx.lib
    R.rule(rid, "Evaluator::evaluate on `a <op> b` for two number literals, evaluated from its typed tree (doubles as IEEE doubles, `powf` as C's "
                "pow, casts with Rust's saturation) for op in + - * / // % ^ and every pair out of a table of doubles (zeros of both signs, "
                "small and huge integers, fractions, exponents beyond the 32-bit range, infinities): the result is either unknown (the "
                "evaluator declines) or bit for bit the double Lua computes (a+b, a-b, a*b, a/b, floor(a/b), a-floor(a/b)*b, pow(a,b)); "
                "NaN results are compared as NaN")
    fn = lib.fn(EV + "::evaluate")
    BIN = "nodes::expressions::binary::BinaryExpression"
    BOP = "nodes::expressions::binary::BinaryOperator"
    if not R.require(rid, "anchor:evaluate", fn is not None and BIN in lib.adts and BOP in lib.adts, "", "Evaluator::evaluate / BinaryExpression not found"):
        return
    vals = [0.0, -0.0, 1.0, -1.0, 2.0, -2.0, 3.0, 0.5, -0.5, 0.1, 1.5, -7.5, 10.0, 123.456, 1.0000001, 5.0, 53.0, 1e15, 9007199254740993.0, 3000000000.0, -3000000000.0,
            2147483648.0, 1e300, 1e-300, math.inf, -math.inf]
    ops = {"Plus": lambda a, b: a + b, "Minus": lambda a, b: a - b, "Asterisk": lambda a, b: a * b,
           "Slash": lambda a, b: fdiv(a, b), "DoubleSlash": lambda a, b: ffloor(fdiv(a, b)),
           "Percent": lambda a, b: a - b * ffloor(fdiv(a, b)), "Caret": lambda a, b: floatfmt.libm("powf", a, b)}

    def fdiv(a, b):
        if b == 0:
            if a == 0 or math.isnan(a):
                return math.nan
            return math.copysign(math.inf, a) * math.copysign(1.0, b)
        return a / b

    def ffloor(x):
        return x if not math.isfinite(x) else float(math.floor(x))

    def mul(a, b):
        try:
            return a * b
        except OverflowError:
            return math.inf

    def bits(x):
        return "nan" if math.isnan(x) else struct.pack("<d", x)
    variants = {v["name"] for v in lib.adts[BOP]["variants"]}
    n = decided = 0
    bad = {}
    for op, ref in ops.items():
        if op not in variants:
            R.require(rid, "anchor:operator|%s" % op, False, "", "BinaryOperator::%s not found" % op)
            continue
        for a in vals:
            for b in vals:
                try:
                    want = ref(a, b)
                except OverflowError:
                    want = math.inf
                pe = peval.PEval(lib, ctx.an)
                node = Enum(EXPR, "Binary", {"0": make(lib, BIN, {"operator": Enum(BOP, op), "token": peval.NONE,
                            "left": Enum(EXPR, "Number", {"0": c13.build_number(lib, ("dec", a, None))}),
                            "right": Enum(EXPR, "Number", {"0": c13.build_number(lib, ("dec", b, None))})})})
                try:
                    r = pe.call_fn(fn, [make(lib, EV), node])
                except peval.OutOfFuel:
                    r = None
                n += 1
                if isinstance(r, Enum) and r.variant == "Unknown":
                    continue
                decided += 1
                got = r.fields.get("0") if isinstance(r, Enum) and r.variant == "Number" else None
                if not isinstance(got, float) or bits(got) != bits(want):
                    bad.setdefault(op, []).append((a, b, want, got if isinstance(got, float) else (repr(r)[:60], pe.unknown_reasons[:2])))
    for op in ops:
        b = bad.get(op)
        R.ob(rid, "evaluate|%s|ieee" % op, not b, ctx.where(fn), "agrees with Lua's arithmetic on every pair" if not b else
             "%r %s %r: Lua computes %r, the evaluator folds it to %r (%d pairs differ)" % (b[0][0], op, b[0][1], b[0][2], b[0][3], len(b)))
    R.require(rid, "floor", n >= 4000 and decided >= 3000, ctx.where(fn), "%d (op, a, b) cells, %d folded to a number" % (n, decided))


def run(R, ctx):
    lib = ctx.lib
    float_order(R, ctx)
    if_effects(R, ctx)
    number_to_string(R, ctx)
    arithmetic(R, ctx)
    R.explanation = (
        "Decision tables of the evaluator's match expressions (variant -> constant / recurse), compared with the soundness skeleton an "
        "abstract interpreter of Lua needs: opaque leaves are Unknown, calls are effectful, unknown means 'maybe metatable', multi-value "
        "sources are flagged, nothing unknown is turned into a literal. Arithmetic, coercion and formatting results are NOT decided. Decision / transfer functions among these are decided by finite-domain evaluation of their typed tree (sa/peval.py): every point of a small abstract domain is evaluated and compared with the reference; nothing is sampled and no program input exists."
    )
    R.assumptions += ["only the shape of the tables is decided; the numeric/string semantics re-implemented in Rust need execution to compare"]
    from .. import peval
    from ..peval import Enum, Struct, UNKNOWN, make
    N = "nodes::expressions::"
    names_e = [v["name"] for v in lib.adts[EXPR]["variants"]]
    names_lv = [v["name"] for v in lib.adts[LV]["variants"]] if LV in lib.adts else []

    def payload(enum_adt, V, extra=None):
        tys = [f["tys"] for v in lib.adts[enum_adt]["variants"] if v["name"] == V for f in v["fields"]]
        t = tys[0] if tys else ""
        while t.startswith("alloc::boxed::Box<"):
            t = t[len("alloc::boxed::Box<"):-1]
        if t in lib.adts and lib.adts[t].get("kind") == "struct":
            return make(lib, t, extra)
        return UNKNOWN

    def ev_(fname, value, evaluator=None, recv_adt=EV):
        fn_ = lib.fn("%s::%s" % (recv_adt, fname))
        if fn_ is None:
            return None, None, ["%s not found" % fname]
        pe = peval.PEval(lib, ctx.an)
        args = [evaluator if evaluator is not None else make(lib, EV), value] if recv_adt == EV else [value]
        try:
            return fn_, pe.call_fn(fn_, args), pe.unknown_reasons
        except peval.OutOfFuel:
            return fn_, UNKNOWN, ["no termination"]

    def lv_name(v):
        return v.variant if isinstance(v, Enum) and v.adt == LV else None
    rid = "C08.opaque"
    R.rule(rid, "Evaluator::evaluate, evaluated from its typed tree on every Expression variant with an opaque payload: Call, Field, Identifier, "
                "Index and VariableArguments give LuaValue::Unknown (their run-time value is not in the program text); the literals true / "
                "false / nil, a function and a table constructor give their own kind (a swapped arm would fold `nil` to false)")
    for v, want in (("Call", "Unknown"), ("Field", "Unknown"), ("Identifier", "Unknown"), ("Index", "Unknown"), ("VariableArguments", "Unknown")):
        fn, r, why = ev_("evaluate", Enum(EXPR, v, {"0": payload(EXPR, v)}))
        if R.require(rid, "anchor:evaluate", fn is not None, "", "Evaluator::evaluate not found"):
            R.ob(rid, "evaluate|" + v, lv_name(r) == want, ctx.where(fn), "Expression::%s -> %s %s" % (v, r, why[:1] if lv_name(r) != want else ""))
    for v, want in (("False", "False"), ("True", "True"), ("Nil", "Nil"), ("Function", "Function"), ("Table", "Table")):
        fn, r, why = ev_("evaluate", Enum(EXPR, v, {"0": payload(EXPR, v)}))
        if fn is not None:
            R.ob(rid, "evaluate|literal|" + v, lv_name(r) == want, ctx.where(fn), "Expression::%s -> %s %s" % (v, r, why[:1] if lv_name(r) != want else ""))

    rid = "C08.effects"
    R.rule(rid, "Evaluator::has_side_effects, evaluated on every Expression variant: a call is always effectful; with an OPAQUE payload the answer "
                "may be the constant false only for literals, identifiers, functions and `...`; a field / index access whose operands are "
                "effect-free is still effectful unless pure_metamethods is set (an unknown value may carry __index)")
    fn, r, why = ev_("has_side_effects", Enum(EXPR, "Call", {"0": payload(EXPR, "Call")}))
    if R.require(rid, "anchor:has_side_effects", fn is not None, "", "not found"):
        R.ob(rid, "has_side_effects|Call", r is True, ctx.where(fn), "Expression::Call -> %s %s" % (r, why[:1] if r is not True else ""))
        allowed_false = {"False", "True", "Nil", "Number", "String", "Function", "Identifier", "VariableArguments"}
        def opaque(enum_adt, V):
            pl = payload(enum_adt, V)
            if isinstance(pl, Struct):
                return Struct(pl.adt, {k: UNKNOWN for k in pl.fields})
            return pl
        for v in names_e:
            fn, r, why = ev_("has_side_effects", Enum(EXPR, v, {"0": opaque(EXPR, v)}))
            if r is False:
                R.ob(rid, "has_side_effects|constant-false|" + v, v in allowed_false, ctx.where(fn), "Expression::%s is declared effect-free whatever it contains" % v)
        ident = Enum(EXPR, "Identifier", {"0": payload(EXPR, "Identifier")})
        PREFIX_ID = Enum(PREFIX, "Identifier", {"0": payload(PREFIX, "Identifier")})
        impure = make(lib, EV)
        bools = [k for k, x in impure.fields.items() if x is False]
        for v, extra in (("Field", {"prefix": PREFIX_ID}), ("Index", {"prefix": PREFIX_ID, "index": ident})):
            fn, r, why = ev_("has_side_effects", Enum(EXPR, v, {"0": payload(EXPR, v, extra)}), impure)
            R.ob(rid, "%s_has_side_effects|effectful-unless-pure-metamethods" % v.lower(), r is True, ctx.where(fn),
                 "`name.x` / `name[k]` with the evaluator's flags %s all false -> %s %s" % (bools, r, why[:1] if r is not True else ""))

    # a composite expression is effectful as soon as ONE of its operand slots holds a call
    rid_c = "C08.effects-composite"
    R.rule(rid_c, "Evaluator::has_side_effects, evaluated on composite expressions whose operands are all literals except one slot holding a call: "
                  "table constructors (the value of a positional / named / computed entry, and the *key* of a computed entry), binary operands, "
                  "a unary operand, a parenthesised call: the answer is true for every slot. A slot that is not inspected lets the rules that "
                  "drop unused values drop a call")
    TE, TFE, TIE, TBL = ("nodes::expressions::table::" + x for x in ("TableEntry", "TableFieldEntry", "TableIndexEntry", "TableExpression"))
    if R.require(rid_c, "anchor:table-types", all(x in lib.adts for x in (TE, TFE, TIE, TBL)), "", "table ADTs"):
        call = lambda: Enum(EXPR, "Call", {"0": payload(EXPR, "Call")})
        pure = lambda: Enum(EXPR, "True", {"0": peval.NONE})
        idn = make(lib, "nodes::identifier::Identifier", {"name": "k"})
        cells = {
            "table|positional-value": lambda: [Enum(TE, "Value", {"0": call()})],
            "table|field-value": lambda: [Enum(TE, "Field", {"0": make(lib, TFE, {"field": idn, "value": call()})})],
            "table|index-value": lambda: [Enum(TE, "Index", {"0": make(lib, TIE, {"key": pure(), "value": call()})})],
            "table|index-key": lambda: [Enum(TE, "Index", {"0": make(lib, TIE, {"key": call(), "value": pure()})})],
            "table|second-entry": lambda: [Enum(TE, "Value", {"0": pure()}), Enum(TE, "Index", {"0": make(lib, TIE, {"key": call(), "value": pure()})})],
        }
        n_c = 0
        for key, build in cells.items():
            fn, r, why = ev_("has_side_effects", Enum(EXPR, "Table", {"0": make(lib, TBL, {"entries": build()})}))
            n_c += 1
            R.ob(rid_c, "has_side_effects|" + key, r is True, ctx.where(fn) if fn else "", "a call in this slot -> %s %s" % (r, why[:1] if r is not True else ""))
        plus = Enum("nodes::expressions::binary::BinaryOperator", "Plus")
        minus = Enum("nodes::expressions::unary::UnaryOperator", "Minus")
        for key, v, extra in (("binary|left", "Binary", lambda: {"operator": plus, "left": call(), "right": pure()}),
                              ("binary|right", "Binary", lambda: {"operator": plus, "left": pure(), "right": call()}),
                              ("unary|operand", "Unary", lambda: {"operator": minus, "expression": call()}), ("parenthese|inner", "Parenthese", lambda: {"expression": call()})):
            fn, r, why = ev_("has_side_effects", Enum(EXPR, v, {"0": payload(EXPR, v, extra())}))
            n_c += 1
            R.ob(rid_c, "has_side_effects|" + key, r is True, ctx.where(fn) if fn else "", "a call in this slot -> %s %s" % (r, why[:1] if r is not True else ""))
        R.require(rid_c, "floor", n_c >= 9, "", "%d slots" % n_c)

    rid = "C08.multi"
    R.rule(rid, "can_return_multiple_values: true for Call and VariableArguments, false for Parenthese (evaluated)")
    for v, want in (("Call", True), ("VariableArguments", True), ("Parenthese", False)):
        fn, r, why = ev_("can_return_multiple_values", Enum(EXPR, v, {"0": payload(EXPR, v)}))
        if R.require(rid, "anchor:can_return_multiple_values", fn is not None, "", "not found"):
            R.ob(rid, "can_return_multiple_values|" + v, r is want, ctx.where(fn), "Expression::%s -> %s" % (v, r))

    rid = "C08.domain"
    R.rule(rid, "LuaValue::is_truthy: Unknown -> None, Nil/False -> Some(false), every other variant -> Some(true); to_expression: None for "
                "Unknown, Table and Function (evaluated on every variant)")
    for v in names_lv:
        fn, r, why = ev_("is_truthy", Enum(LV, v, {"0": UNKNOWN}), recv_adt=LV)
        if R.require(rid, "anchor:is_truthy", fn is not None, "", "not found"):
            want = peval.NONE if v == "Unknown" else peval.some(v not in ("Nil", "False"))
            R.ob(rid, "is_truthy|" + v, r == want, ctx.where(fn), "LuaValue::%s -> %s (expected %s)" % (v, r, want))
    for v in ("Unknown", "Table", "Function"):
        fn, r, why = ev_("to_expression", Enum(LV, v, {"0": UNKNOWN}), recv_adt=LV)
        if R.require(rid, "anchor:to_expression", fn is not None, "", "not found"):
            R.ob(rid, "to_expression|" + v, r == peval.NONE, ctx.where(fn), "LuaValue::%s -> %s" % (v, r))

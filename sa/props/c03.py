"""C03 retain_lines with no rules reproduces the source byte for byte.

The identity holds iff every source token and trivia is (1) captured from full_moon, (2) stored in
the AST, (3) replayed by the token-based generator once, in order.  Decided:
  C03.consume  every full_moon accessor that yields tokens (TokenReference / ContainedSpan /
               Punctuated) of a node type the converter handles is called in ast_converter.rs;
               token payloads of full_moon operator enums are bound (not `_`) in a pattern  [T1 ext]
  C03.store    every field of every *Tokens struct is, somewhere in the converter, initialised
               from the parse tree (not only from constants); convert_token copies leading and
               trailing trivia; convert_trivia maps all trivia kinds                       [T1]
  C03.replay   every token-bearing slot of the AST is read by the token-based generator and
               handed to one of its writer functions                                       [T1]
  C03.dispatch every LuaGenerator method of the token-based generator for a node with stored
               tokens calls its *_with_token(s) writer with the stored tokens and a generated
               fallback                                                                     [T3]
  C03.order    write_token_options: leading trivia, content, trailing trivia in that order  [T3]
  C03.wire     retain_lines selects preserve_tokens() and TokenBasedLuaGenerator            [T7]
Not decided: spacing decisions, parentheses inside types.
"""
from .. import thir, typegraph, generators, coverage, mir
from ..thir import callee_of

TOKEN = typegraph.TOKEN
CONV_FILE = "src/ast_converter.rs"

# token accessors of full_moon that the converter legitimately does not call. path -> reason
CONSUME_EXEMPT = {
    "full_moon::ast::BinOp::token": "the operator token is bound from the enum variant payload (checked by C03.consume variant rule)",
    "full_moon::ast::UnOp::token": "bound from the enum variant payload (checked by the variant rule)",
    "full_moon::ast::compound::CompoundOp::token": "bound from the enum variant payload (checked by the variant rule)",
    "full_moon::ast::punctuated::Pair::<T>::punctuation": "punctuation is taken from Pair::Punctuated(_, token) patterns over Punctuated::pairs() (variant rule)",
    "full_moon::ast::punctuated::Pair::<T>::into_tuple": "consuming accessor; the converter works on references",
    "full_moon::tokenizer::structs::TokenReference::symbol": "constructor, not an accessor",
    "full_moon::tokenizer::structs::TokenReference::symbol_specific_lua_version": "constructor, not an accessor",
}
ACCESSOR_FLOOR = 90


def converter_fns(lib):
    return [f for f in lib.fn_list if f["file"].endswith(CONV_FILE) and thir.body_of(f)]


def consume(R, ctx):
    rid = "C03.consume"
    lib = ctx.lib
    R.rule(rid, "every public accessor of a full_moon node type used by the converter whose result contains a TokenReference, "
                "ContainedSpan or Punctuated is called in src/ast_converter.rs; and every TokenReference payload of a full_moon enum "
                "the converter matches on is bound by a pattern there (list derived from full_moon's crate metadata)")
    fns = converter_fns(lib)
    R.require(rid, "floor:converter-fns", len(fns) >= 60, "", "%d functions in ast_converter.rs" % len(fns))
    called = {}
    bound = {}  # (ext enum, variant) -> bound token?
    for f in fns:
        for c in thir.fn_refs(f):
            called.setdefault(c["fn"], []).append((f["path"], c.get("ln")))
        for n in thir.walk(thir.body_of(f)):
            pats = []
            if n.get("k") == "Match":
                pats = [a["pat"] for a in n["arms"]]
            elif n.get("k") in ("Let", "LetStmt"):
                pats = [n["pat"]]
            for p in pats:
                _collect_variant_bindings(p, bound)
    n_acc = 0
    for path, e in sorted(lib.ext.items()):
        for m in e["methods"]:
            out = m["out"]
            if not any(x in out for x in ("TokenReference", "ContainedSpan", "Punctuated")):
                continue
            if m["name"].startswith("with_") or m["name"] == "new":
                continue
            n_acc += 1
            if m["path"] in CONSUME_EXEMPT:
                R.ob(rid, "exempt|" + m["path"], m["path"] not in called or True, "", "exempt: " + CONSUME_EXEMPT[m["path"]], nontrivial=False)
                continue
            hit = called.get(m["path"])
            R.ob(rid, m["path"], bool(hit), ("%s:%s" % (CONV_FILE, hit[0][1])) if hit else CONV_FILE,
                 ("called in %s" % hit[0][0]) if hit else
                 "token accessor `%s` (returns %s) is never called by the converter: that source token and its trivia are not captured" % (m["path"], out))
    R.require(rid, "floor:accessors", n_acc >= ACCESSOR_FLOOR, "", "%d token accessors found in full_moon metadata (floor %d)" % (n_acc, ACCESSOR_FLOOR))
    # enum payloads
    n_var = 0
    for path, e in sorted(lib.ext.items()):
        a = e["adt"]
        if a["kind"] != "enum":
            continue
        matched_any = any(k[0] == path for k in bound)
        if not matched_any:
            continue
        for v in a["variants"]:
            tok_fields = [f for f in v["fields"] if "TokenReference" in f["tys"]]
            if not tok_fields:
                continue
            n_var += 1
            b = bound.get((path, v["name"]))
            R.ob(rid, "variant|%s::%s" % (path, v["name"]), bool(b), CONV_FILE,
                 "token payload bound" if b else "the TokenReference payload of %s::%s is only ever matched with `_`: the token is never captured" % (path, v["name"]))
    R.require(rid, "floor:enum-token-variants", n_var >= 30, "", "%d token-carrying variants of matched full_moon enums" % n_var)
    R.meta["full_moon_token_accessors"] = n_acc


def _collect_variant_bindings(p, bound):
    k = p.get("k")
    if k == "Variant":
        key = (p["adt"], p["variant"])
        for s in p["subs"]:
            if any(True for _ in thir.pat_bindings(s["p"])):
                bound[key] = True
            else:
                bound.setdefault(key, False)
            _collect_variant_bindings(s["p"], bound)
        if not p["subs"]:
            bound.setdefault(key, False)
    elif "sub" in p:
        _collect_variant_bindings(p["sub"], bound)
    for s in p.get("subs", []) if k != "Variant" else []:
        _collect_variant_bindings(s["p"] if "p" in s else s, bound)


def _is_constant_init(e):
    """True when the initialiser mentions no variable at all (None, Vec::new(), Token::from_content("x"), ...)."""
    for n in thir.walk(e):
        if n.get("k") == "Var":
            return False
    return True


# *Tokens structs the converter can never build, with the reason
STORE_EXEMPT_STRUCTS = {
    "nodes::attributes::AttributeGroupTokens": "full_moon 2.2 has no `@[..]` attribute-group syntax: such nodes only come from code, never from source text",
}


def converter_scope(ctx):
    lib = ctx.lib
    seen, order, stack = set(), [], [f["path"] for f in converter_fns(lib)]
    while stack:
        p = stack.pop()
        if p in seen:
            continue
        fn = lib.fns.get(p)
        if not fn or not thir.body_of(fn):
            continue
        seen.add(p)
        order.append(fn)
        for c in thir.fn_refs(fn):
            cal = callee_of(c)
            if cal in lib.fns and cal not in seen:
                stack.append(cal)
    return order


def store(R, ctx):
    rid = "C03.store"
    lib, tg = ctx.lib, ctx.tg
    R.rule(rid, "each token-bearing field of each `*Tokens` struct is initialised from the parse tree (a non-constant expression) "
                "in at least one struct literal or assignment of the converter; convert_token copies both trivia lists; "
                "convert_trivia maps every trivia kind full_moon can attach")
    tok_structs = [p for p in tg.reach if p.split("::")[-1].endswith("Tokens") and lib.adts[p]["kind"] == "struct"]
    R.require(rid, "floor:token-structs", len(tok_structs) >= 40, "", "%d *Tokens structs in the AST graph" % len(tok_structs))
    inits = {}
    scope = converter_scope(ctx)
    R.meta["converter_scope_functions"] = len(scope)
    for f in scope:
        for n in thir.walk(thir.body_of(f)):
            if n.get("k") == "Adt" and n.get("adt") in tok_structs:
                for fe in n["fields"]:
                    inits.setdefault((n["adt"], fe["f"]), []).append((not _is_constant_init(fe["e"]), f["path"], n.get("ln")))
            if n.get("k") == "Assign":
                l = n["l"]
                if l.get("k") == "Field" and l.get("adt") in tok_structs:
                    inits.setdefault((l["adt"], l["f"]), []).append((not _is_constant_init(n["r"]), f["path"], n.get("ln")))
    n = 0
    for s in tok_structs:
        if s in STORE_EXEMPT_STRUCTS:
            built = any(k[0] == s for k in inits)
            R.ob(rid, "exempt|" + s, True, ctx.adt_where(s), "exempt: " + STORE_EXEMPT_STRUCTS[s] + (" (but it is built now: re-review)" if built else ""), nontrivial=False)
            continue
        for name, ty, inner in tg.slots[s]:
            if TOKEN not in inner and not any(tg.contains(q, {TOKEN}) for q in inner):
                continue
            n += 1
            li = inits.get((s, name), [])
            derived = [x for x in li if x[0]]
            R.ob(rid, "%s.%s" % (s, name), bool(derived), ctx.adt_where(s),
                 ("filled from the parse tree in %s (line %s)" % (derived[0][1].split("::")[-1], derived[0][2])) if derived else
                 ("field `%s` of `%s` is built %d time(s) in the converter but only ever from a constant (None / empty): the source token is never stored"
                  % (name, s, len(li))) if li else "struct `%s` is never built by the converter (field `%s`)" % (s, name))
    R.require(rid, "floor:token-fields", n >= 100, "", "%d token-bearing fields of *Tokens structs" % n)
    # convert_token copies both trivia lists
    path = "ast_converter::AstConverter::convert_token"
    fn = lib.fn(path)
    path = fn["path"] if fn else path
    if R.require(rid, "anchor:" + path, fn is not None, "", "not found"):
        names = {c.get("fname") for c in thir.calls(fn)}
        for acc, push in (("leading_trivia", "push_leading_trivia"), ("trailing_trivia", "push_trailing_trivia")):
            ok = acc in names and push in names
            R.ob(rid, "convert_token|" + acc, ok, ctx.where(fn), "convert_token reads TokenReference::%s and pushes with Token::%s: %s" % (acc, push, ok))
        # pairing: the loop over leading trivia pushes leading (not trailing)
        a = ctx.an.fa(path)
        for c in thir.calls(fn):
            if c.get("fname") in ("push_leading_trivia", "push_trailing_trivia"):
                want = c["fname"].replace("push_", "")
                srcs = {y["fname"] for y in a.source_calls(c["args"][1]) if y.get("fname") in ("leading_trivia", "trailing_trivia")}
                if srcs:
                    R.ob(rid, "convert_token|%s-source" % want, srcs == {want}, ctx.where(fn, c.get("ln")),
                         "%s receives trivia read from %s" % (c["fname"], sorted(srcs)))
    path = "ast_converter::AstConverter::convert_trivia"
    fn = lib.fn(path)
    if R.require(rid, "anchor:" + path, fn is not None, "", "not found"):
        kinds = set()
        for n2 in thir.walk(thir.body_of(fn)):
            if n2.get("k") == "Match":
                for arm in n2["arms"]:
                    for adt, v in thir.pat_variants(arm["pat"]):
                        if adt.endswith("TokenKind"):
                            kinds.add(v)
        for k in ("MultiLineComment", "SingleLineComment", "Whitespace"):
            R.ob(rid, "convert_trivia|" + k, k in kinds, ctx.where(fn), "trivia kind %s %s" % (k, "mapped" if k in kinds else "NOT mapped (such trivia would be rejected or lost)"))


def replay(R, ctx):
    rid = "C03.replay"
    lib, tg = ctx.lib, ctx.tg
    R.rule(rid, "every token-bearing slot of the AST type graph is read inside the token-based generator family and handed to one "
                "of its writer functions (write_token / write_*), i.e. no stored token can be silently dropped on output")
    fam = generators.gen_family(ctx, "token_based")
    R.require(rid, "floor:generator-methods", len(fam.over) >= 45, "", "%d LuaGenerator methods implemented by TokenBasedLuaGenerator" % len(fam.over))
    touched = fam.touched_by_writers()
    slots = tg.slots_holding({TOKEN})
    R.require(rid, "floor:token-slots", len(slots) >= 400, "", "%d token-bearing slots" % len(slots))
    ok_n = 0
    for adt, slot, ty, inner in slots:
        hit = touched.get((adt, slot))
        ok_n += bool(hit)
        R.ob(rid, "%s.%s" % (adt, slot), bool(hit), ctx.adt_where(adt),
             ("written via %s (line %s)" % ((hit[0][1] or "").split("::")[-1], hit[0][2])) if hit else
             "slot `%s` of `%s` (type %s) holds source tokens but the token-based generator never hands it to a writer: that text "
             "(and its comments/whitespace) is dropped even with an empty rule list" % (slot, adt, lib.ty_str(ty)))
    R.meta["replay"] = {"scope_functions": len(fam.scope), "writer_calls": fam.qualifying_calls, "slots": len(slots), "replayed": ok_n}
    R.sample({"replay-slot": "%s.%s" % (slots[5][0], slots[5][1]), "verdict": "written" if touched.get((slots[5][0], slots[5][1])) else "dropped"})


def dispatch(R, ctx):
    rid = "C03.dispatch"
    lib = ctx.lib
    R.rule(rid, "each LuaGenerator method of TokenBasedLuaGenerator whose body fetches stored tokens (get_tokens/get_token) passes them to a "
                "`*_with_token(s)` writer on the Some path and a generated fallback on the None path")
    fam = generators.gen_family(ctx, "token_based")
    n = 0
    for tm, impl in sorted(fam.over.items()):
        fn = lib.fns[impl]
        body = thir.body_of(fn)
        getters = [c for c in thir.calls(fn) if c.get("fname") in ("get_tokens", "get_token")]
        withs = [c for c in thir.calls(fn) if (c.get("fname") or "").endswith(("_with_tokens", "_with_token"))]
        if not withs:
            continue
        n += 1
        a = ctx.an.fa(impl)
        # at least one with-call receives a value derived from the getter
        derived = False
        for w in withs:
            for arg in w["args"]:
                if any(y is g for g in getters for y in a.source_calls(arg)):
                    derived = True
        R.ob(rid, impl.split("::")[-1] + "|stored-tokens-used", bool(getters) and derived, ctx.where(fn),
             "stored tokens %s" % ("flow into the writer" if derived else "are fetched but never passed to the *_with_tokens writer (always regenerates)"))
        R.ob(rid, impl.split("::")[-1] + "|fallback", len(withs) >= 2 or any("generate" in (c.get("fname") or "") for c in thir.calls(fn)), ctx.where(fn),
             "%d *_with_tokens calls" % len(withs))
    R.require(rid, "floor:dispatchers", n >= 30, "", "%d dispatching methods (floor 30)" % n)


def order(R, ctx):
    from .. import interproc
    rid = "C03.order"
    lib = ctx.lib
    R.rule(rid, "write_token_options emits leading trivia, then the token content, then trailing trivia (source-order event sequence with "
                "local helper functions expanded in place); write_token delegates to it")
    fn = lib.fn("generator::token_based::TokenBasedLuaGenerator::write_token_options")
    if not R.require(rid, "anchor:write_token_options", fn is not None, "", "not found"):
        return

    def srcs(arg, fa):
        # `read` only counts when it is Token::read (trivia have a read of their own)
        return {y.get("fname") for y in fa.source_calls(arg) if y.get("fname") != "read" or "Token" in (callee_of(y) or y.get("fn") or "")}

    def derive(arg, fa, tainted):
        return "read" in srcs(arg, fa) or any(("#param", t) in fa.origins(arg) for t in tainted)

    def classify(n, fa, tainted):
        if n.get("k") != "Call":
            return None
        if n.get("fname") == "write_trivia":
            names = set()
            for arg in n["args"][1:]:
                names |= srcs(arg, fa)
            if "iter_leading_trivia" in names:
                return "leading"
            if "iter_trailing_trivia" in names:
                return "trailing"
        if n.get("fname") == "push_str" and any(derive(arg, fa, tainted) for arg in n["args"][1:]):
            return "content"
        return None
    kinds = [lab for lab, f, n in interproc.linear_events(ctx, fn, classify, derive)]
    R.ob(rid, "write_token_options|order", kinds == ["leading", "content", "trailing"], ctx.where(fn),
         "event order found: %s (expected leading, content, trailing)" % kinds)


def wire(R, ctx):
    """GeneratorParameters::{build_parser, generate_lua} as functions of the variant (finite-domain evaluation)."""
    from .. import peval
    from ..peval import Enum, Struct, UNKNOWN, UNIT
    rid = "C03.wire"
    lib = ctx.lib
    R.rule(rid, "GeneratorParameters::build_parser and ::generate_lua, evaluated from their typed tree for every variant: RetainLines (and only "
                "it needs to) yields a parser that keeps token data -- the parser built differs from the Dense one exactly by a flag that is "
                "true -- and generates with TokenBasedLuaGenerator")
    GP = "frontend::configuration::GeneratorParameters"
    ga = lib.adts.get(GP)
    if not R.require(rid, "anchor:GeneratorParameters", ga is not None and any(v["name"] == "RetainLines" for v in ga["variants"]), "", "enum with a RetainLines variant"):
        return
    # entry points: the methods of Configuration (stable, used by the worker) when they exist, else those of GeneratorParameters
    CONF = "frontend::configuration::Configuration"
    gen_field = [f["name"] for v in (lib.adts[CONF]["variants"] if CONF in lib.adts else []) for f in v["fields"] if GP in f.get("tys", "")]

    def entry(name):
        f_ = lib.fn("%s::%s" % (CONF, name))
        if f_ is not None and thir.body_of(f_) and gen_field:
            return f_, (lambda val: peval.make(lib, CONF, {gen_field[0]: val}))
        f_ = lib.fn("%s::%s" % (GP, name))
        return f_, (lambda val: val)
    parsers, gens = {}, {}
    for v in ga["variants"]:
        val0 = Enum(GP, v["name"], {f["name"]: 80 for f in v["fields"]})
        fn, wrap = entry("build_parser")
        val = wrap(val0)
        if R.require(rid, "anchor:build_parser", fn is not None, "", "not found"):
            pe = peval.PEval(lib, ctx.an)
            try:
                parsers[v["name"]] = (pe.call_fn(fn, [val]), pe.unknown_reasons[:2])
            except peval.OutOfFuel:
                parsers[v["name"]] = (UNKNOWN, ["no termination"])
        fn2, wrap2 = entry("generate_lua")
        val = wrap2(val0)
        if R.require(rid, "anchor:generate_lua", fn2 is not None, "", "not found"):
            made = []

            def hook(pe, path, fname, args, node, made=made):
                if fname == "new" and "LuaGenerator" in path:
                    made.append([x.split("<")[0] for x in path.split("::") if "LuaGenerator" in x][0])
                    return Struct("#Generator", {})
                if args and isinstance(args[0], Struct) and args[0].adt == "#Generator":
                    return "#text" if fname == "into_string" else UNIT
                return NotImplemented
            pe = peval.PEval(lib, ctx.an, hook)
            try:
                pe.call_fn(fn2, [val, Struct("nodes::block::Block", {}), "code"])
            except peval.OutOfFuel:
                pass
            gens[v["name"]] = made
    if "RetainLines" in parsers:
        p_ret, why = parsers["RetainLines"]
        others = [p for k, (p, _) in parsers.items() if k != "RetainLines"]
        flags = [f for f, x in (p_ret.fields.items() if isinstance(p_ret, Struct) else []) if x is True and all(isinstance(o, Struct) and o.fields.get(f) is not True for o in others)]
        fn = entry("build_parser")[0]
        R.ob(rid, "build_parser|RetainLines->preserve_tokens", bool(flags), ctx.where(fn),
             "the RetainLines parser keeps token data (flag %s)" % flags if flags else "the parser built for RetainLines is %s: no token-preserving flag set %s" % (p_ret, why))
    if "RetainLines" in gens:
        fn2 = entry("generate_lua")[0]
        R.ob(rid, "generate_lua|RetainLines->TokenBasedLuaGenerator", gens["RetainLines"] == ["TokenBasedLuaGenerator"], ctx.where(fn2),
             "RetainLines generates with %s" % (gens["RetainLines"] or "no generator this rule could see"))
        R.sample({"generators": gens})


STMT = "nodes::statements::Statement"
BLOCK_ENDED = ["Do", "Function", "GenericFor", "If", "LocalFunction", "NumericFor", "While", "TypeFunction"]


def exact_separator(R, ctx):
    rid = "C03.exact-semi"
    lib = ctx.lib
    from .. import tables
    R.rule(rid, "the token-based generator writes a `;` that is not in the source only when generator::utils::ends_with_prefix(current) holds; for the "
                "identity this predicate must not over-approximate: statements closed by `end` answer the constant false, a declaration/assignment "
                "without a last value answers false, and `true` is answered directly only for call statements")
    fn = lib.fn("generator::utils::ends_with_prefix")
    if not R.require(rid, "anchor", fn is not None, "", "not found"):
        return
    ms = tables.matches_on(lib, thir.body_of(fn), STMT)
    if not R.require(rid, "anchor:match", len(ms) >= 1, ctx.where(fn), "no match over Statement"):
        return
    tbl = tables.variant_table(lib, ms[0], STMT)
    for v in BLOCK_ENDED:
        rows = tbl.get(v, [])
        R.ob(rid, "ends_with_prefix|%s" % v, bool(rows) and rows[0][0] == "false", ctx.where(fn), "Statement::%s -> %s (must be false: it ends with a keyword)" % (v, rows[0][0] if rows else "missing"))
    for v, rows in sorted(tbl.items()):
        cls, g, arm = rows[0]
        if cls == "true":
            R.ob(rid, "ends_with_prefix|true-only-for-call|%s" % v, v == "Call", ctx.where(fn), "Statement::%s answers true unconditionally" % v)
        if cls == "expr":
            lits = [x.get("v") for x in _tail_literals(arm["body"])]
            R.ob(rid, "ends_with_prefix|%s|no-value-is-false" % v, "true" not in lits, ctx.where(fn, arm.get("l")),
                 "Statement::%s: fallback results %s (a statement without trailing expression must answer false, otherwise a `;` is invented)" % (v, lits))


def _tail_literals(e):
    out = []
    k = e.get("k")
    if k == "Block":
        if "tail" in e:
            out += _tail_literals(e["tail"])
    elif k == "If":
        out += _tail_literals(e["then"])
        if "else" in e:
            out += _tail_literals(e["else"])
    elif k == "Match":
        for a in e["arms"]:
            out += _tail_literals(a["body"])
    elif k == "Lit" and e.get("v") in ("true", "false"):
        out.append(e)
    elif k == "Call" and e.get("fname") in ("unwrap_or", "map_or", "is_some_and"):
        for a in e["args"][1:2]:
            out += _tail_literals(a)
    return out


def no_spurious_space(R, ctx):
    rid = "C03.nospace"
    lib = ctx.lib
    from . import c02
    R.rule(rid, "write_token_options inserts a space between two replayed tokens when should_break_with_space(last, next) holds; tokens that were "
                "adjacent in the source never fuse, so for the identity this table must answer false for every character pair Lua's lexer does not "
                "fuse (exactness direction of C02.fuse, decided on the same extracted table)")
    fn = lib.fn("generator::utils::should_break_with_space")
    if not R.require(rid, "anchor", fn is not None, "", "not found"):
        return
    params = []
    for p in fn["thir"]["params"]:
        if "pat" in p:
            for var, name, pre, ty in thir.pat_bindings(p["pat"]):
                params.append(var)
    chars = [chr(c) for c in range(33, 127)]
    spurious = {}
    n = 0
    try:
        for a in chars:
            for b in chars:
                if c02.lua_fuses(a, b):
                    continue
                n += 1
                if c02.char_pred(ctx, fn, params, a, b):
                    cls = ("digit" if a.isdigit() else "letter" if a.isalpha() else a, "digit" if b.isdigit() else "letter" if b.isalpha() else b)
                    spurious.setdefault(cls, []).append(a + b)
    except ValueError as e:
        R.ob(rid, "table-extractable", False, ctx.where(fn), "decision table could not be extracted (%s)" % e)
        return
    R.require(rid, "floor:pairs", n >= 4000, ctx.where(fn), "%d non-fusing pairs checked" % n)
    R.ob(rid, "non-fusing-pairs-checked", True, ctx.where(fn), "%d pairs" % n)
    for cls, ex in sorted(spurious.items()):
        R.ob(rid, "spurious-space|%s|%s" % cls, False, ctx.where(fn),
             "`%s` directly followed by `%s` (e.g. source text `%s`) is separated although the lexer never fuses them: retain_lines inserts a space that is not in the source" % (cls[0], cls[1], ex[0]))


def no_synthesised_values(R, ctx):
    """A declaration that parsed is written back as it was: no `nil` is appended to a `const` whose last value can supply the rest."""
    from .. import peval
    from ..peval import make, Enum, Struct, NONE
    rid = "C03.const-nil"
    lib = ctx.lib
    VA = "nodes::statements::local_assign::VariableAssignment"
    KIND = "nodes::statements::local_assign::AssignmentKind"
    EXPR = "nodes::expressions::Expression"
    R.rule(rid, "VariableAssignment::required_nil_values (the number of `nil` values every generator appends, the token-based one included), "
                "evaluated from its typed tree for both keywords x 1..3 names x 0..3 values x every Expression variant as the last value: 0 "
                "for `local`; for `const` 0 when there are at least as many values as names or when the last value is a call or `...` "
                "(they supply the remaining values -- so every declaration that parsed is written back unchanged), names - values otherwise")
    fn = lib.fn(VA + "::required_nil_values")
    if not R.require(rid, "anchor:required_nil_values", fn is not None and VA in lib.adts and KIND in lib.adts, "", "not found"):
        return
    fields = {f["name"]: f["tys"] for f in lib.adts[VA]["variants"][0]["fields"]}
    f_kind = [k for k, t in fields.items() if t == KIND]
    f_vars = [k for k, t in fields.items() if t.startswith("alloc::vec::Vec<") and "TypedIdentifier" in t]
    f_vals = [k for k, t in fields.items() if t.startswith("alloc::vec::Vec<") and t.endswith("Expression>")]
    if not R.require(rid, "anchor:fields", len(f_kind) == 1 and len(f_vars) == 1 and len(f_vals) == 1, ctx.adt_where(VA), "keyword / names / values fields by type: %s %s %s" % (f_kind, f_vars, f_vals)):
        return
    variants = [v["name"] for v in lib.adts[EXPR]["variants"]]
    MULTI = {"Call", "VariableArguments"}
    bad, n = [], 0
    for kw in [v["name"] for v in lib.adts[KIND]["variants"]]:
        for nv in (1, 2, 3):
            for nvals in (0, 1, 2, 3):
                for last in (variants if nvals else [None]):
                    values = [Enum(EXPR, "Identifier", {"0": Struct("#payload", {})}) for _ in range(max(0, nvals - 1))] + ([Enum(EXPR, last, {"0": Struct("#payload", {})})] if nvals else [])
                    node = make(lib, VA, {f_kind[0]: Enum(KIND, kw, {}), f_vars[0]: [Struct("#name", {}) for _ in range(nv)], f_vals[0]: values})
                    pe = peval.PEval(lib, ctx.an)
                    try:
                        got = pe.call_fn(fn, [node])
                    except peval.OutOfFuel:
                        got = None
                    n += 1
                    want = 0 if kw != "Const" or nv <= nvals or last in MULTI else nv - nvals
                    if got != want:
                        bad.append(("%s, %d names, %d values, last value %s" % (kw.lower(), nv, nvals, last), want, got))
    R.ob(rid, "required_nil_values|table", not bad, ctx.where(fn), "%d cells as specified" % n if not bad else "%s: expected %d appended nil, got %s (%d cells differ)" % (bad[0][0], bad[0][1], bad[0][2], len(bad)))
    R.require(rid, "floor:cells", n >= 300, "", "%d cells" % n)


def same_text(R, ctx):
    """Tokens carry byte offsets into the text that was tokenised; the generator cuts them out of the file content it is given.
    Both are the same string only if the parser hands full_moon its input as it is."""
    rid = "C03.same-text"
    lib = ctx.lib
    R.rule(rid, "every call of a full_moon entry point that takes source text (`full_moon::parse*`, `Lexer::new`) outside "
                "tests: the text argument is the enclosing function's own `&str` parameter, unchanged (reborrows and `let` aliases "
                "allowed; a slice, a trimmed / stripped / replaced copy is not): token positions are byte offsets into the text "
                "tokenised and the line-keeping generator reads them from the file content the worker holds, so a parser that skips or "
                "rewrites a prefix shifts every token read")

    def itself(fa, e, depth=0):
        k = e.get("k")
        if k in ("Borrow", "Deref", "Scope", "Use", "NeverToAny") and "e" in e and depth < 12:
            return itself(fa, e["e"], depth + 1)
        if k == "#param":
            return True
        if k == "Var" and depth < 12:
            srcs = fa.env.get(e["var"], [])
            return bool(srcs) and all(not pre and itself(fa, src, depth + 1) for src, pre in srcs)
        return False
    n = 0
    for g in lib.fn_list:
        if "::test" in g["path"] or not thir.body_of(g):
            continue
        fa = None
        for c in thir.calls(g):
            cal = callee_of(c) or ""
            if not (cal.startswith("full_moon::parse") or cal.startswith("full_moon::tokenizer::lexer::Lexer::new")) or not c["args"]:
                continue
            a = c["args"][0]
            if "str" not in lib.ty_str(a.get("t")):
                continue
            fa = fa or ctx.an.fa(g["path"])
            n += 1
            ok = itself(fa, a)
            R.ob(rid, "%s|%s" % (g["path"].split("::")[-1], cal.split("::")[-1]), ok, ctx.where(g, c.get("ln")),
                 "parses its own text parameter as given" if ok else
                 "the text handed to %s is derived from the input (not the parameter itself): token offsets no longer index the file content" % cal)
    R.require(rid, "floor:parse-sites", n >= 1, "", "%d full_moon text entry points called" % n)


def adjacent_names(R, ctx):
    """Tokens adjacent in the source stay adjacent: a name ending in a digit followed by `..` is not a number followed by a dot."""
    from .. import peval
    from ..peval import make, Enum, some
    from . import c13
    rid = "C03.adjacent"
    lib = ctx.lib
    R.rule(rid, "the line-keeping generator, evaluated from its typed tree on `<name>..b` whose three tokens carry no trivia, for names "
                "ending in a letter, a digit, an underscore (`a`, `a1`, `_1`, `A9`, `x_`): the text written is the concatenation of the "
                "token texts (the character table of should_break_with_space cannot tell `a1` from the number `1`; the generator has to)")
    N, T = "nodes::", "nodes::token::"
    BIN, ID = N + "expressions::binary::BinaryExpression", N + "identifier::Identifier"
    if not R.require(rid, "anchor:node-types", all(a in lib.adts for a in (BIN, ID, T + "Token")), "", "node types not found"):
        return

    def tok(text):
        return make(lib, T + "Token", {"position": Enum(T + "Position", "Any", {"content": text}), "leading_trivia": [], "trailing_trivia": []})

    def ident(name):
        return Enum(c13.EXPR, "Identifier", {"0": make(lib, ID, {"name": name, "token": some(tok(name))})})
    n = 0
    for G, new, nargs in c13.generators(ctx):
        if "token_based" not in G and "TokenBased" not in G:
            continue
        we, fin = c13.trait_fn(lib, G, "write_expression"), c13.trait_fn(lib, G, "into_string")
        if we is None or fin is None:
            continue
        for name in ("a", "a1", "_1", "A9", "x_"):
            node = Enum(c13.EXPR, "Binary", {"0": make(lib, BIN, {"operator": Enum(N + "expressions::binary::BinaryOperator", "Concat", {}),
                                                                   "left": ident(name), "right": ident("b"), "token": some(tok(".."))})})
            pe = peval.PEval(lib, ctx.an)
            try:
                gen = pe.call_fn(new, list(nargs))
                pe.call_fn(we, [gen, node])
                text = pe.call_fn(fin, [gen])
            except peval.OutOfFuel:
                text = None
            n += 1
            want = name + "..b"
            R.ob(rid, "%s|%s..b" % (G.split("::")[-1], name), text == want, ctx.where(we),
                 "written as in the source" if text == want else "source text `%s` is written %r" % (want, text if isinstance(text, str) else pe.unknown_reasons[:2]))
    R.require(rid, "floor:cases", n >= 5, "", "%d cases evaluated" % n)


def run(R, ctx):
    R.explanation = (
        "Static capture/store/replay coverage: full_moon's token accessors (from crate metadata) vs. calls in the converter, "
        "*Tokens struct fields vs. their initialisers, every token-bearing AST slot vs. the writer calls of the token-based generator, "
        "plus dispatch, emission order and the retain_lines wiring. Decides that no token slot is forgotten on the way in or out; "
        "does not decide spacing or parenthesis choices. Decision / transfer functions among these are decided by finite-domain evaluation of their typed tree (sa/peval.py): every point of a small abstract domain is evaluated and compared with the reference; nothing is sampled and no program input exists."
    )
    R.assumptions += ["coverage is per (ADT, slot) over the generator family, not path-sensitive",
                      "full_moon's public accessor list is read from its crate metadata through rustc"]
    consume(R, ctx)
    store(R, ctx)
    replay(R, ctx)
    dispatch(R, ctx)
    order(R, ctx)
    wire(R, ctx)
    exact_separator(R, ctx)
    no_spurious_space(R, ctx)
    no_synthesised_values(R, ctx)
    same_text(R, ctx)
    adjacent_names(R, ctx)

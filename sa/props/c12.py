"""C12 No input or configuration crashes darklua (deliberately narrow).

Panic-freedom over all inputs needs value reasoning; decided are the structural mechanisms:
  C12.tokens-cover  replace_referenced_tokens reaches every token-bearing AST slot (a token still
                    pointing into another file's text makes Token::read panic)                [T1+T2]
  C12.tokens-bundle in the bundler a block parsed from a required file is converted with
                    ReplaceReferencedTokens on every path (when tokens are preserved) before it is
                    walked/spliced; and only reviewed functions call Parser::parse              [T6+T5]
  C12.iter          no function defined in ast_converter.rs is (mutually) recursive: conversion
                    depth is bounded by the explicit work stack                                  [T10]
  C12.values        Parser::parse goes through full_moon::parse_fallible, maps both error kinds
                    and contains no unwrap/expect/panic                                          [T6]
  C12.errors        Worker::advance_work / apply_rules / bundle convert parse, rule and bundle
                    errors into DarkluaError values (context added), never unwrap them           [T7]
  C12.slice         no panicking string slicing `s[a..b]` in library code (zero-count rule with a
                    positive control)                                                             [T5]
A census of panic sites in the library is recorded in the evidence (informational).
"""
from .. import walkers, thir, mir
from ..thir import callee_of

PANICKY = {"unwrap", "expect", "unwrap_unchecked", "panic_fmt", "panic", "unreachable_display", "panic_display", "begin_panic", "expect_err", "unwrap_err", "panic_explicit"}


def bundle_tokens(R, ctx):
    rid = "C12.tokens-bundle"
    lib = ctx.lib
    R.rule(rid, "in RequirePathProcessor::require_resource every path from the `is_preserving_tokens()` true edge to the nested "
                "visit_block (and to the returned block) passes through ReplaceReferencedTokens::flawless_process; Parser::parse is "
                "called only from the reviewed functions")
    fn = lib.fn("rules::bundle::path_require_mode::RequirePathProcessor::require_resource")
    if not R.require(rid, "anchor:require_resource", fn is not None, "", "not found"):
        return
    cfg = mir.Cfg(lib, fn)
    rep = [i for i, t in cfg.calls() if "ReplaceReferencedTokens" in (cfg.callee(t) or "") and t.get("fname") in ("flawless_process", "process")]
    walk = [i for i, t in cfg.calls() if t.get("fname") == "visit_block"]
    pres = [(i, t) for i, t in cfg.calls() if t.get("fname") == "is_preserving_tokens"]
    R.require(rid, "anchor:replace-call", len(rep) >= 1, ctx.where(fn), "no ReplaceReferencedTokens application in require_resource")
    R.require(rid, "anchor:nested-walk", len(walk) >= 1, ctx.where(fn), "no nested visit_block in require_resource")
    R.require(rid, "anchor:is_preserving_tokens", len(pres) >= 1, ctx.where(fn), "no is_preserving_tokens() test in require_resource")
    for i, t in pres:
        # the call's destination feeds a switch in its successor
        nxt = t.get("t")
        sw = cfg.blocks[nxt]["term"] if nxt is not None else None
        if not sw or sw["k"] != "switch":
            R.ob(rid, "require_resource|preserving-switch", False, ctx.where(fn, t.get("ln")), "result of is_preserving_tokens() is not branched on")
            continue
        false_t = [bb for v, bb in sw["targets"] if v == "0"]
        true_t = sw["otherwise"]
        for w in walk:
            ok = cfg.must_pass(rep, w, start=true_t)
            R.ob(rid, "require_resource|replace-before-walk", ok, ctx.where(fn, cfg.line(w)),
                 "on the preserving-tokens edge the nested walk is %s by ReplaceReferencedTokens" % ("always preceded" if ok else "reachable WITHOUT being preceded"))
    # the parse result must not reach the walk without passing the preserving test
    parses = [i for i, t in cfg.calls() if t.get("fname") == "parse" and "parser::Parser" in (cfg.callee(t) or "")]
    for p in parses:
        for w in walk:
            ok = cfg.must_pass([i for i, _ in pres], w, start=p)
            R.ob(rid, "require_resource|test-between-parse-and-walk", ok, ctx.where(fn, cfg.line(p)), "is_preserving_tokens() is consulted between parse and walk: %s" % ok)
    # who may parse
    allowed = {
        "frontend::worker::Worker::advance_work": "the per-file pipeline: tokens refer to that file's own text, generated with it",
        "rules::bundle::path_require_mode::RequirePathProcessor::require_resource": "required modules (guarded above)",
        "frontend::work_cache::WorkCache::read_block": "re-parses an already generated output; the block is only lent to rules as read-only "
                                                       "context (&Block via ContextBuilder::insert_block), never spliced into a generated tree",
    }
    callers = {}
    for f in lib.fn_list:
        if not thir.body_of(f):
            continue
        for c in thir.fn_refs(f):
            if c.get("fn") == "parser::Parser::parse":
                callers.setdefault(facts_norm(f["path"]), f)
    for p, f in sorted(callers.items()):
        R.ob(rid, "who-may-parse|" + p, p in allowed, ctx.where(f),
             allowed.get(p, "unreviewed caller of Parser::parse in library code: a block parsed from another text must have its token references replaced before it meets a generator"))
    for p in allowed:
        R.require(rid, "who-may-parse|exists|" + p, p in callers, "", "reviewed caller no longer calls Parser::parse")


def facts_norm(p):
    from ..facts import norm_path
    return norm_path(p)


def no_recursion(R, ctx):
    rid = "C12.iter"
    lib = ctx.lib
    R.rule(rid, "the call graph restricted to functions defined in src/ast_converter.rs has no cycle (conversion is iterative: "
                "nesting depth of the input cannot exhaust the native stack in darklua's own code)")
    fns = {f["path"]: f for f in lib.fn_list if f["file"].endswith("src/ast_converter.rs") and thir.body_of(f)}
    R.require(rid, "floor:converter-fns", len(fns) >= 60, "", "%d functions" % len(fns))
    g = {p: set() for p in fns}
    for p, f in fns.items():
        for c in thir.fn_refs(f):
            cal = callee_of(c)
            if cal in fns:
                g[p].add(cal)
    # Tarjan SCC
    idx, low, on, st, sccs = {}, {}, set(), [], []
    counter = [0]

    def strong(v):
        work = [(v, iter(sorted(g[v])))]
        idx[v] = low[v] = counter[0]; counter[0] += 1
        st.append(v); on.add(v)
        while work:
            node, it = work[-1]
            adv = False
            for w in it:
                if w not in idx:
                    idx[w] = low[w] = counter[0]; counter[0] += 1
                    st.append(w); on.add(w)
                    work.append((w, iter(sorted(g[w]))))
                    adv = True
                    break
                elif w in on:
                    low[node] = min(low[node], idx[w])
            if adv:
                continue
            work.pop()
            if work:
                low[work[-1][0]] = min(low[work[-1][0]], low[node])
            if low[node] == idx[node]:
                comp = []
                while True:
                    w = st.pop(); on.discard(w); comp.append(w)
                    if w == node:
                        break
                sccs.append(comp)

    for v in sorted(g):
        if v not in idx:
            strong(v)
    for comp in sccs:
        rec = len(comp) > 1 or comp[0] in g[comp[0]]
        R.ob(rid, "scc|" + sorted(comp)[0].split("::")[-1], not rec, ctx.where(fns[sorted(comp)[0]]),
             "recursive cycle in the converter: %s" % sorted(c.split("::")[-1] for c in comp) if rec else "acyclic", nontrivial=rec or len(g[comp[0]]) > 0)
    R.meta["converter_call_edges"] = sum(len(v) for v in g.values())


def parse_values(R, ctx):
    rid = "C12.values"
    lib = ctx.lib
    R.rule(rid, "Parser::parse calls full_moon::parse_fallible, wraps both failure kinds (ParserError::parsing, ParserError::converting) "
                "and neither it nor Parser::convert_ast contains unwrap/expect/panic")
    fn = lib.fn("parser::Parser::parse")
    if not R.require(rid, "anchor:Parser::parse", fn is not None, "", "not found"):
        return
    refs = {c.get("fn") for c in thir.fn_refs(fn)}
    names = {c.get("fname") for c in thir.fn_refs(fn)}
    R.ob(rid, "parse|parse_fallible", any("parse_fallible" in (r or "") for r in refs), ctx.where(fn), "uses full_moon::parse_fallible")
    R.ob(rid, "parse|maps-parsing-error", "parser::ParserError::parsing" in refs, ctx.where(fn), "parse errors wrapped with ParserError::parsing")
    R.ob(rid, "parse|maps-converting-error", "parser::ParserError::converting" in refs, ctx.where(fn), "conversion errors wrapped with ParserError::converting")
    for p in ("parser::Parser::parse", "parser::Parser::convert_ast"):
        f = lib.fn(p)
        if not R.require(rid, "anchor:" + p, f is not None, "", "not found"):
            continue
        bad = [(c.get("fname"), c.get("ln")) for c in thir.fn_refs(f) if c.get("fname") in PANICKY]
        R.ob(rid, "%s|no-panic" % p.split("::")[-1], not bad, ctx.where(f), "panicking calls: %s" % bad if bad else "none")


def _benign_unwrap(a, call):
    """`xs.first().unwrap()` / `xs.iter().next().unwrap()` inside a branch whose condition tests `xs.len() == 1`."""
    if call.get("fname") != "unwrap" or not call["args"]:
        return False
    if not any(y.get("fname") in ("first", "next", "last", "get") for y in a.source_calls(call["args"][0])):
        return False
    child = call
    p = a.parent.get(id(call))
    while p is not None:
        if p.get("k") == "If" and any(x is child for x in thir.walk(p["then"])):
            cond_calls = [x.get("fname") for x in thir.walk(p["cond"]) if x.get("k") == "Call"]
            lits = [x.get("v") for x in thir.walk(p["cond"]) if x.get("k") == "Lit"]
            if "len" in cond_calls and "1" in lits:
                return True
        p = a.parent.get(id(p))
    return False


def worker_errors(R, ctx):
    rid = "C12.errors"
    lib = ctx.lib
    R.rule(rid, "in Worker::{advance_work, apply_rules, bundle} no Result is unwrapped/expected; the parser, rule and bundler failures are "
                "converted with DarkluaError::{parser_error, rule_error/context} (callee referenced in the function)")
    want = {
        "frontend::worker::Worker::advance_work": ["parser_error"],
        "frontend::worker::Worker::apply_rules": ["rule_error"],
        "frontend::worker::Worker::bundle": [],
    }
    for p, ctors in want.items():
        f = lib.fn(p)
        if not R.require(rid, "anchor:" + p, f is not None, "", "not found"):
            continue
        a = ctx.an.fa(f["path"])
        # the rule is about failures (Result values): `Option::unwrap` on a value the code has just shown to be present
        # (first()/next() under a length test) is not an error being dropped
        bad = [(c.get("fname"), c.get("ln")) for c in thir.fn_refs(f) if c.get("fname") in PANICKY
               and not ("option::Option" in (c.get("fn") or "") and c.get("k") == "Call" and _benign_unwrap(a, c))]
        R.ob(rid, "%s|no-unwrap" % p.split("::")[-1], not bad, ctx.where(f), "panicking calls: %s" % bad if bad else "none")
        names = {c.get("fname") for c in thir.fn_refs(f)}
        for c in ctors:
            R.ob(rid, "%s|%s" % (p.split("::")[-1], c), c in names, ctx.where(f), "error constructor DarkluaError::%s %s" % (c, "used" if c in names else "NOT used"))


def is_str_slice(lib, x):
    """`s[a..b]` on a str/String: an overloaded Index::index call whose receiver is a string."""
    if x.get("k") == "Call" and (x.get("fn") or "").endswith("ops::index::Index::index") and x.get("args"):
        ts = lib.ty_str(lib.strip_refs(x["args"][0]["t"]))
        return ts in ("str", "alloc::string::String")
    if x.get("k") == "Index":
        ts = lib.ty_str(lib.strip_refs(x["e"]["t"]))
        return ts in ("str", "alloc::string::String")
    return False


def str_slices(R, ctx):
    rid = "C12.slice"
    lib = ctx.lib
    R.rule(rid, "library code never slices a string with `s[a..b]` (panics when an offset is not a char boundary or out of range: multi-byte "
                "characters in comments/strings reach these paths); the fallible `.get(a..b)` is used instead. Expected count: zero; the detector "
                "is exercised on a synthetic node at every run")
    # positive control for a zero-count rule
    synthetic = {"k": "Call", "fn": "core::ops::index::Index::index", "fname": "index", "op": True, "args": [{"k": "Var", "t": None}]}
    str_ty = next((i for i, t in enumerate(lib.types) if t.get("prim") == "str"), None)
    R.require(rid, "detector|anchor:str-type", str_ty is not None, "", "type `str` not found in facts")
    if str_ty is not None:
        synthetic["args"][0]["t"] = str_ty
        R.ob(rid, "detector|fires-on-synthetic-slice", is_str_slice(lib, synthetic), "", "positive control", nontrivial=False)
    n_fn = 0
    for f in lib.fn_list:
        b = thir.body_of(f)
        if not b or "::test" in f["path"]:
            continue
        n_fn += 1
        for x in thir.walk(b):
            if is_str_slice(lib, x):
                R.ob(rid, "%s|str-slice" % facts_norm(f["path"]), False, ctx.where(f, x.get("ln")),
                     "string sliced with `[..]`: panics on a non-boundary offset (e.g. a multi-byte character before it); use .get(..)")
    R.ob(rid, "no-string-slicing", True, "", "%d functions scanned" % n_fn)
    R.meta["functions_scanned_for_str_slices"] = n_fn


POSITION = "nodes::token::Position"
TOKEN_T = "nodes::token::Token"
TRIVIA_T = "nodes::token::Trivia"


def _under_branch(root, target):
    """True when `target` sits below an If / multi-arm Match / Loop / Closure inside `root`."""
    def rec(e, cond):
        if e is target:
            return cond
        k = e.get("k")
        c2 = cond or k in ("If", "Loop", "Closure") or (k == "Match" and not str(e.get("src", "")).startswith("TryDesugar") and len(e.get("arms", [])) > 1)
        for ch in thir.subexprs(e):
            r = rec(ch, c2)
            if r is not None:
                return r
        return None
    return rec(root, False)


def resolve_total(R, ctx):
    """Typestate: after Token::replace_referenced_tokens no Position::LineNumberReference remains (finite-domain evaluation)."""
    import itertools
    from .. import peval
    from ..peval import Enum, Struct, UNKNOWN
    rid = "C12.resolve"
    lib = ctx.lib
    R.rule(rid, "Token::replace_referenced_tokens, evaluated from its typed tree on a token whose position and whose leading/trailing trivia are "
                "references into a 10-character text -- every range [a, b) with 0 <= a <= b <= 10 sampled at the corners, INCLUDING the "
                "zero-width ranges (the end-of-file token) -- turns every one of them into an owned position with the referenced text and the "
                "same line: a reference left behind is later read against another file's text by the generator (panic / wrong content)")
    fn = lib.fn(TOKEN_T + "::replace_referenced_tokens")
    if not R.require(rid, "anchor", fn is not None, "", "Token::replace_referenced_tokens not found"):
        return
    KIND = "nodes::token::TriviaKind"
    code = "0123456789"
    ranges = [(0, 0), (0, 1), (3, 3), (2, 5), (9, 10), (10, 10), (0, 10)]

    def ref(r, line):
        return Enum(POSITION, "LineNumberReference", {"start": r[0], "end": r[1], "line_number": line})
    bad, n = [], 0
    for rp in ranges:
        for rl, rt in itertools.product(ranges[:4] + [None], ranges[2:6] + [None]):
            lead = [Struct(TRIVIA_T, {"position": ref(rl, 2), "kind": Enum(KIND, "Comment")})] if rl else []
            trail = [Struct(TRIVIA_T, {"position": ref(rt, 4), "kind": Enum(KIND, "Whitespace")})] if rt else []
            tok = Struct(TOKEN_T, {"position": ref(rp, 3), "leading_trivia": lead, "trailing_trivia": trail})
            pe = peval.PEval(lib, ctx.an)
            try:
                pe.call_fn(fn, [tok, code])
            except peval.OutOfFuel:
                pass
            n += 1

            def check(pos, r, line, what):
                if not isinstance(pos, Enum):
                    return "%s position not established %s" % (what, pe.unknown_reasons[:1])
                if pos.variant == "LineNumberReference":
                    return "%s reference [%d,%d) left unresolved" % (what, r[0], r[1])
                if pos.fields.get("content") != code[r[0]:r[1]] or pos.fields.get("line_number") != line:
                    return "%s [%d,%d) line %d resolved to %s" % (what, r[0], r[1], line, pos)
                return None
            probs = [check(tok.fields.get("position"), rp, 3, "token")]
            lt, tt = tok.fields.get("leading_trivia"), tok.fields.get("trailing_trivia")
            if rl:
                probs.append(check(lt[0].fields.get("position") if isinstance(lt, list) and lt else None, rl, 2, "leading trivia"))
            if rt:
                probs.append(check(tt[0].fields.get("position") if isinstance(tt, list) and tt else None, rt, 4, "trailing trivia"))
            probs = [x for x in probs if x]
            if probs:
                bad.append(probs[0])
    R.require(rid, "floor:cells", n >= 100, ctx.where(fn), "%d tokens evaluated" % n)
    kinds = sorted(set(b.split(" reference")[0].split(" position")[0].split(" [")[0] for b in bad))
    R.ob(rid, "every-reference-resolved", not bad, ctx.where(fn), "all references become owned positions" if not bad else "%d of %d tokens: %s" % (len(bad), n, bad[0]))


def census(R, ctx):
    lib = ctx.lib
    n = {}
    for f in lib.fn_list:
        if not thir.body_of(f) or "::test" in f["path"]:
            continue
        for c in thir.fn_refs(f):
            if c.get("fname") in PANICKY and not c.get("x"):
                n[c["fname"]] = n.get(c["fname"], 0) + 1
    R.meta["panic_site_census_library"] = n
    R.info("panic-site census (informational, not a verdict): %s" % n)


def parse_text(R, ctx):
    """Token positions are byte offsets into the text the CALLER keeps: the parser must be given that very text."""
    rid = "C12.text"
    lib = ctx.lib
    R.rule(rid, "provenance of the text handed to full_moon in Parser::parse: the argument of the parse call is the function's own text "
                "parameter, with no call in between (no trimming, BOM stripping, normalisation): the converter records token and trivia "
                "positions as byte ranges of the parsed text, and the worker, the bundler and the token-based generator slice the text they "
                "kept with them, so any edit of the text inside the parser shifts every range (wrong bytes, or a slice inside a character)")
    fn = lib.fn("parser::Parser::parse")
    if not R.require(rid, "anchor:Parser::parse", fn is not None, "", "not found"):
        return
    fa = ctx.an.fa(fn["path"])
    calls = [c for c in thir.calls(fn) if "full_moon" in (callee_of(c) or c.get("fn") or "") and c["args"]
             and lib.ty_str(lib.strip_refs(c["args"][0]["t"])) in ("str", "alloc::string::String")]
    if not R.require(rid, "anchor:parse-call", bool(calls), ctx.where(fn), "no full_moon call taking text found"):
        return
    for c in calls:
        arg = c["args"][0]
        orig = fa.origins(arg)
        via = [x.get("fname") for x in fa.source_calls(arg) if x.get("fname") not in ("as_ref", "borrow", "deref", "as_str", "to_string", "to_owned", "clone", "into", "from", "as_mut_str", "to_str")]     # copies keep every byte offset
        params = [o for o in orig if o[0] == "#param"]
        ok = bool(params) and len(orig) == len(params) and not via
        R.ob(rid, "parse|text-is-the-parameter", ok, ctx.where(fn, c.get("ln")),
             "text argument comes from %s%s" % (sorted(map(str, orig)), (" through %s" % via) if via else " unchanged"))


LITERAL_CTORS = ("nodes::expressions::string::StringExpression::new", "nodes::expressions::interpolated_string::StringSegment::new",
                 "nodes::types::string_type::StringType::new")


def literal_panics(R, ctx):
    """Reading a literal never panics: it answers with a value or an error -- and a valid literal gets the value Luau gives it."""
    from .. import peval
    from ..peval import Enum, Struct
    from ..luaref import read_string_literal, LiteralError
    rid = "C12.literals"
    lib = ctx.lib
    R.rule(rid, "the constructors that read a string literal (StringExpression::new, StringSegment::new), evaluated from their typed tree with "
                "panics made observable (unwrap / expect of None or Err, panic!, unreachable! raise instead of being skipped), on every escape "
                "form at its boundary values -- \\u{..} below, inside and above the surrogate range and above 0x10FFFF, empty and unclosed "
                "braces, \\x with 0/1/2 digits and non-digits, decimal escapes up to and above 255 and followed by digits, \\z, unknown "
                "escapes, a trailing backslash, quotes of both kinds, long brackets of levels 0..2, missing closers: no input panics; and a "
                "literal an independent reader of Luau's syntax accepts gets exactly the bytes that reader gives")
    ctors = [(p, lib.fn(p)) for p in LITERAL_CTORS[:2]]
    if not R.require(rid, "anchor:constructors", all(f is not None and thir.body_of(f) for _, f in ctors), "", "literal constructors not found"):
        return
    BODIES = ["a", "", "\\u{41}", "\\u{D7FF}", "\\u{D800}", "\\u{DBFF}", "\\u{DC00}", "\\u{DFFF}", "\\u{E000}", "\\u{10FFFF}", "\\u{110000}", "\\u{FFFFFFFFFFFF}",
              "\\u{}", "\\u{41", "\\u41", "\\u", "\\x41", "\\x4", "\\x", "\\xZZ", "\\x4Z", "\\65", "\\065", "\\0651", "\\255", "\\256", "\\999", "\\0", "\\z  a", "\\z",
              "\\q", "\\", "\\n\\t\\r\\a\\b\\f\\v", "\\\\", "it\\'s", 'say \\"x\\"', "é", "\\u{e9}", "a\\\nb"]
    bad, n, compared = [], 0, 0
    for path, fn in ctors:
        seg = "StringSegment" in path
        texts = []
        for b in BODIES:
            if seg:
                texts.append((b.replace("\\\\", "\\"), b.replace("\\\\", "\\")))
            else:
                body = b.replace("\\\\", "\\")
                texts += [('"%s"' % body, None), ("'%s'" % body, None)]
        if not seg:
            texts += [("[[long]]", None), ("[==[a]]b]==]", None), ("[[\nfirst newline dropped]]", None), ("[[unclosed", None), ("[=[x]]", None), ('"unclosed', None), ("'", None), ("", None), ("[", None)]
        for text, inner in texts:
            pe = peval.PEval(lib, ctx.an)
            pe.panics = True
            n += 1
            try:
                r = pe.call_fn(fn, [text])
            except peval.Panic as e:
                bad.append((path.split("::")[-2], text, "PANICS (%s)" % e))
                continue
            except peval.OutOfFuel:
                bad.append((path.split("::")[-2], text, "does not terminate"))
                continue
            try:
                want = read_string_literal(text, "luau", interpolated=seg)
            except LiteralError:
                continue            # not a literal Luau accepts: any non-panicking answer is fine
            val = r.fields.get("0").fields.get("value") if isinstance(r, Enum) and r.variant == "Ok" and isinstance(r.fields.get("0"), Struct) else None
            compared += 1
            if not (isinstance(val, list) and all(isinstance(b_, int) for b_ in val) and bytes(val) == want):
                bad.append((path.split("::")[-2], text, "Luau reads %r, darklua %s %s" % (want, val if val is not None else repr(r)[:60], pe.unknown_reasons[:1])))
    R.ob(rid, "no-panic-and-luau-values", not bad, ctx.where(ctors[0][1]), "%d literals: none panics, %d valid ones read as Luau reads them" % (n, compared) if not bad else "%s(%r): %s (%d literals differ)" % (bad[0] + (len(bad),)))
    R.require(rid, "floor", n >= 100 and compared >= 40, "", "%d literals, %d compared" % (n, compared))


def literal_errors_propagate(R, ctx):
    """An unreadable literal is an error value of the parse, not a panic: the fallible constructors are never unwrapped."""
    rid = "C12.literal-errors"
    lib = ctx.lib
    R.rule(rid, "error discipline: in non-test code, the Result of a fallible literal constructor (StringExpression::new, StringSegment::new, "
                "StringType::new, NumberExpression::from_str / str::parse::<NumberExpression>) is never the receiver of unwrap / expect: it "
                "reaches `?`, map_err or a match (full_moon accepts escapes darklua's readers refuse, so these errors do occur on user input)")
    n = 0
    for f in lib.fn_list:
        b = thir.body_of(f)
        if not b or "::test" in f["path"] or f["path"].startswith("nodes::") and "::tests::" in f["path"]:
            continue
        fa = None
        for c in thir.walk(b):
            if c.get("k") == "Call" and c.get("fname") in ("unwrap", "expect") and c["args"]:
                fa = fa or ctx.an.fa(f["path"])
                srcs = [callee_of(y) or y.get("fn") or "" for y in fa.source_calls(c["args"][0])]
                hit = [s_ for s_ in srcs if s_ in LITERAL_CTORS or s_.endswith("NumberExpression as core::str::traits::FromStr>::from_str")]
                recv_t = lib.ty_str(lib.strip_refs(c["args"][0]["t"])) if "t" in c["args"][0] else ""
                if hit and recv_t.startswith("core::result::Result<"):
                    n += 1
                    R.ob(rid, "%s|%s" % (f["path"].split("::<")[0][-60:], hit[0].split("::")[-2]), False, ctx.where(f, c.get("ln")),
                         "the result of %s is passed to %s: a literal the reader refuses aborts the whole run" % (hit[0].split("::")[-2] + "::new", c["fname"]))
    ctor_calls = sum(1 for f in lib.fn_list if thir.body_of(f) for c in thir.calls(f) if (callee_of(c) or "") in LITERAL_CTORS)
    R.require(rid, "floor:constructor-calls", ctor_calls >= 3, "", "%d calls of the literal constructors in the crate (positive control)" % ctor_calls)
    if n == 0:
        R.ob(rid, "no-unwrapped-literal-result", True, "", "%d constructor calls, none unwrapped" % ctor_calls)


def byte_ranges(R, ctx, rid="C12.byte-range"):
    """A token's range is cut out of the source with byte offsets (`code[start..end]`): an end computed from a count of characters
    lands inside a multi-byte character and the slice panics."""
    lib = ctx.lib
    R.rule(rid, "every non-test call of the Token constructor that takes a source range (three integers: start, end, line): no value "
                "flowing into start / end (through `let` bindings and arithmetic, within the function) comes from counting characters "
                "(`Chars::count`, `char_indices().count()`); the range is later used to slice the source by bytes")
    n = 0
    for g in lib.fn_list:
        if "::test" in g["path"] or not thir.body_of(g):
            continue
        fa = None
        for c in thir.calls(g):
            cal = callee_of(c) or ""
            if not (cal.startswith("nodes::token::Token::") and len(c["args"]) == 3 and all(lib.ty_str(a.get("t")) == "usize" for a in c["args"])):
                continue
            fa = fa or ctx.an.fa(g["path"])
            n += 1
            seen, stack, counted = set(), list(c["args"][:2]), None
            while stack and counted is None:
                e = stack.pop()
                if id(e) in seen:
                    continue
                seen.add(id(e))
                for x in thir.walk(e):
                    if x.get("k") == "Call" and x.get("fname") == "count" and x["args"] and \
                            any(t in lib.ty_str(lib.strip_refs(x["args"][0].get("t"))) for t in ("str::iter::Chars", "str::iter::CharIndices")):
                        counted = x
                    if x.get("k") == "Var":
                        stack.extend(src for src, _ in fa.env.get(x["var"], []) if isinstance(src, dict) and not str(src.get("k", "")).startswith("#"))
            R.ob(rid, "%s|%s" % (g["path"].split("::")[-1], cal.split("::")[-1]), counted is None, ctx.where(g, c.get("ln")),
                 "start and end are byte offsets" if counted is None else "a character count (line %s) flows into the byte range of the token" % counted.get("ln"))
    R.require(rid, "floor:range-constructors", n >= 3, "", "%d range constructor calls" % n)


def run(R, ctx):
    R.explanation = (
        "Narrow structural part of crash-freedom: token references of foreign text are always replaced (coverage of "
        "replace_referenced_tokens over all token slots + MIR must-pass rule in the bundler), the converter's own call graph is "
        "acyclic, the parser entry is fallible and panic-free, and the worker turns failures into error values. Does NOT decide "
        "panic-freedom of arbitrary rule pipelines (needs value reasoning); a census of panic sites is recorded for information. Decision / transfer functions among these are decided by finite-domain evaluation of their typed tree (sa/peval.py): every point of a small abstract domain is evaluated and compared with the reference; nothing is sampled and no program input exists."
    )
    R.assumptions += ["full_moon's own recursion is outside the claim (as in the property)", "panicking functions are recognised by name"]
    walkers.walker_cover(R, ctx, "C12.tokens-cover", "replace_referenced_tokens")
    bundle_tokens(R, ctx)
    resolve_total(R, ctx)
    no_recursion(R, ctx)
    parse_values(R, ctx)
    parse_text(R, ctx)
    literal_panics(R, ctx)
    literal_errors_propagate(R, ctx)
    worker_errors(R, ctx)
    str_slices(R, ctx)
    # 'the output parses again': a string key or index is only ever written as a bare name when it is a Lua name -- the
    # identifier predicate shared by convert_index_to_field, the data serializer and the table entry helpers (as C14.keyword)
    from . import c14
    c14.keyword(R, ctx, rid="C12.names")
    census(R, ctx)
    byte_ranges(R, ctx)
